"""LEN: panic-site enumeration and discharge by linear entailment over symbolic lengths.

A *site* is any construct that can panic: MIR Assert terminators (overflow, bounds, division),
calls to panicking std functions (slice indexing, split_at, copy_from_slice, rotate, unwrap/expect,
GenericArray::from_slice), explicit panics, and calls to crate functions with lifted preconditions.
Each site yields obligations `lhs REL rhs` over canonical terms; an obligation is discharged when the
facts that hold on every path to the site (dominating branch edges, definitions, callee
Ok-postconditions, declared buffer contracts) entail it.  Entailment = Fourier–Motzkin elimination
over the rationals on (facts ∧ ¬goal), with integer tightening of strict inequalities.
"""
from fractions import Fraction

from .core import operand_locals, def_sites, strip_reborrow
from .expr import ADTS, E, expr_of_operand, expr_of_local, call_arg_exprs, evaluate, deep_repr
from .guards import NEG, SWAP

USIZE_MAX = (1 << 64) - 1
ISIZE_MAX = (1 << 63) - 1

# --------------------------------------------------------------------------------------------
# linear forms: dict var -> Fraction, plus constant under key 1
# --------------------------------------------------------------------------------------------


def lin_const(c):
    return {1: Fraction(c)}


def lin_var(v):
    return {v: Fraction(1), 1: Fraction(0)}


def lin_add(a, b, sb=1):
    out = dict(a)
    for k, v in b.items():
        out[k] = out.get(k, Fraction(0)) + sb * v
    return {k: v for k, v in out.items() if v != 0 or k == 1}


def lin_scale(a, s):
    return {k: v * s for k, v in a.items()}


def lin_is_const(a):
    return all(k == 1 for k in a)


def lin_vars(a):
    return [k for k in a if k != 1]


def lin_repr(a):
    parts = []
    for k, v in a.items():
        if k == 1:
            continue
        parts.append("%s%s" % ("" if v == 1 else ("-" if v == -1 else "%s*" % v), var_repr(k)))
    c = a.get(1, 0)
    if c != 0 or not parts:
        parts.append(str(c))
    return " + ".join(parts).replace("+ -", "- ")


def var_repr(k):
    if isinstance(k, tuple):
        if k[0] == "len":
            return "len(%s)" % k[1]
        return "%s" % (k[1] if len(k) > 1 else k[0],)
    return str(k)


class Ctx:
    """per-function linearisation context"""

    def __init__(self, fn, view_info):
        self.fn = fn
        self.view_info = view_info
        self.memo = {}

    @property
    def side_goals(self):
        if not hasattr(self, "_side_goals"):
            self._side_goals = []
        return self._side_goals

    def name(self, l):
        """unique name of a local: its source name, disambiguated by the local's index when another
        local of the body carries the same source name (shadowing: `let key = if .. { &h } else { key }`)"""
        fn = self.fn
        nm = fn.local_name(l)
        amb = getattr(fn, "_amb_names", None)
        if amb is None:
            cnt = {}
            for l2, ns in fn.varnames.items():
                for n_ in ns[:1]:
                    cnt[n_] = cnt.get(n_, 0) + 1
            amb = fn._amb_names = {n_ for n_, c in cnt.items() if c > 1}
        if nm in amb and not (1 <= l <= fn.argc):
            return "%s#%d" % (nm, l)
        return nm

    # ---- length of the slice a local (reference) points to ---------------------------------------
    def length_of_local(self, l, depth=0):
        """linear form for the length of the byte view held in local l, or None"""
        fn = self.fn
        if depth > 14:
            return None
        key = ("lenof", l)
        if key in self.memo:
            return self.memo[key]
        self.memo[key] = None
        res = self._length_of_local(l, depth)
        self.memo[key] = res
        return res

    def _length_of_local(self, l, depth):
        fn = self.fn
        ty = fn.locals[l]
        n = array_len_of_ty(ty)
        if n is not None:
            return lin_const(n)
        import re as _re
        m = _re.match(r"^(?:&(?:mut )?)*\[u8; (\w+)\]$", ty.get("t", ""))
        if m and not m.group(1).isdigit():
            return lin_var(("constparam", m.group(1)))
        cl = container_len_of_ty(ty)
        if cl is not None:
            return cl
        if 1 <= l <= fn.argc:
            return lin_var(("len", self.name(l)))
        ds = def_sites(fn, l)
        if len(ds) > 1 and depth < 8:
            # several definitions (e.g. `if c { &mut a[..n] } else { &mut b[..n] }`): use the common length
            forms = []
            for d in ds:
                forms.append(self._length_of_def(l, d, depth + 1))
            if forms and all(f is not None and f == forms[0] for f in forms):
                return forms[0]
            return lin_var(("len", self.name(l)))
        if len(ds) != 1:
            return lin_var(("len", self.name(l)))
        return self._length_of_def(l, ds[0], depth)

    def _length_of_def(self, l, d, depth):
        fn = self.fn
        b, kind, payload = d
        if kind == "assign":
            rv = payload["rv"]
            src = None
            if rv["k"] == "use" and rv["x"].get("k") in ("copy", "move"):
                src = rv["x"]
            elif rv["k"] in ("ref", "rawptr"):
                src = rv["place"]
            elif rv["k"] == "cast" and rv["x"].get("k") in ("copy", "move"):
                src = rv["x"]
            if src is None:
                return lin_var(("len", self.name(l)))
            # projection of a tuple produced by split_at: (_t.0) / (_t.1)
            proj = [pe for pe in src["p"] if pe != "deref"]
            if not proj:
                return self.length_of_local(src["l"], depth + 1)
            if len(proj) == 1 and isinstance(proj[0], dict) and "f" in proj[0]:
                t = self.tuple_len(src["l"], proj[0]["f"], depth + 1)
                if t is not None:
                    return t
                cap = self.captured(src["l"], proj[0]["f"])
                if cap is not None and depth < 12:
                    return self.len_of_operand(cap, depth + 1)
                # `.0` of a fixed-length container: the container's length
                cl = container_len_of_ty(fn.locals[src["l"]])
                if cl is not None and proj[0]["n"] == "0":
                    return cl
                # field of a struct parameter: symbolic
                return lin_var(("len", "%s.%s" % (self.name(src["l"]), proj[0]["n"])))
            # `slice.get(range)` / `get_mut(range)`: the Some payload is exactly that range of the slice
            if len(proj) == 2 and isinstance(proj[0], dict) and proj[0].get("variant") == "Some" and isinstance(proj[1], dict) and proj[1].get("f") == 0:
                base_l = strip_reborrow(fn, src["l"])[-1]
                dd = def_sites(fn, base_l)
                if len(dd) == 1 and dd[0][1] == "call" and dd[0][2].path in ("core::slice::<impl [T]>::get", "core::slice::<impl [T]>::get_mut") and len(dd[0][2].args) == 2:
                    gc = dd[0][2]
                    rl = self.range_len(self.len_of_operand(gc.args[0], depth + 1), expr_of_operand(fn, gc.args[1]))
                    if rl is not None:
                        return rl
            return lin_var(("len", deep_repr(expr_of_local(fn, l))))
        c = payload
        p = c.path
        if p in ("std::ops::Index::index", "std::ops::IndexMut::index_mut") and len(c.args) == 2:
            base = self.len_of_operand(c.args[0], depth + 1)
            rng = expr_of_operand(fn, c.args[1])
            return self.range_len(base, rng)
        if p in ("std::ops::Deref::deref", "std::ops::DerefMut::deref_mut", "std::convert::AsRef::as_ref", "std::convert::AsMut::as_mut",
                 "types::Bytes::as_slice", "types::MutBytes::as_mut_slice", "std::vec::Vec::<T, A>::as_slice", "std::vec::Vec::<T, A>::as_mut_slice",
                 "std::option::Option::<T>::unwrap", "std::option::Option::<T>::expect", "std::result::Result::<T, E>::unwrap",
                 "std::option::Option::<T>::as_ref", "std::option::Option::<T>::as_mut", "std::borrow::Borrow::borrow",
                 "std::option::Option::<T>::unwrap_or"):
            if p.endswith("unwrap_or"):
                return lin_var(("len", self.name(l)))
            return self.len_of_operand(c.args[0], depth + 1)
        if p in ("types::ByteArray::as_array", "types::MutByteArray::as_mut_array"):
            n = array_len_of_ty(fn.locals[c.dest["l"]])
            if n is not None:
                return lin_const(n)
        if p in ("std::convert::TryFrom::try_from", "std::convert::TryInto::try_into", "std::convert::From::from", "std::convert::Into::into"):
            n = array_len_of_ty(fn.locals[c.dest["l"]])
            if n is not None:
                return lin_const(n)
        if fn.prog is not None and c.rkey in fn.prog.reslicers and c.args:
            callee = fn.prog.by_key[c.rkey]
            n = array_len_of_ty(callee.locals[0])
            if n is not None:
                return lin_const(n)
            if c.rkey not in fn.prog.narrowing_reslicers:
                return self.len_of_operand(c.args[0], depth + 1)
            # narrowing view function with a constant result length (e.g. `&mut nonce[..4]`)
            if depth < 10:
                rl = Ctx(callee, self.view_info).length_of_local(0, depth + 1)
                if rl is not None and lin_is_const(rl):
                    return rl
        return lin_var(("len", self.name(l)))

    def _callee_payload(self, e):
        """`helper(args)?` / `helper(args).Ok.0`: the Ok payload of a crate-local helper as a linear form
        over the caller's terms, when every Ok exit of the helper returns the same linear function of its
        parameters"""
        if e.b not in ("Continue.0", "Ok.0"):
            return None
        x = e.a
        if x.k == "call" and x.a.path == "std::ops::Try::branch":
            ax = call_arg_exprs(x.a)
            x = ax[0] if ax else None
        if x is None or x.k != "call" or not x.a.is_local or x.a.fn is not self.fn:
            return None
        prog = self.fn.prog
        if prog is None:
            return None
        gs = prog.callee_fns(x.a)
        if len(gs) != 1 or not gs[0].blocks:
            return None
        summ = ok_summary(gs[0], self.view_info)
        if summ is None or summ[1] is None:
            return None
        return translate(summ[1], gs[0], x.a, self)

    def captured(self, l, field):
        """operand captured as field `field` of the closure literal that local l stands for (the
        receiver of a closure body folded into this view), or None"""
        base = strip_reborrow(self.fn, l)[-1]
        ds = def_sites(self.fn, base)
        if len(ds) == 1 and ds[0][1] == "assign":
            rv = ds[0][2]["rv"]
            if rv["k"] == "agg" and rv.get("agg") in ("closure", "tuple") and field < len(rv["ops"]):
                o = rv["ops"][field]
                if o.get("k") in ("copy", "move"):
                    return o
        return None

    def tuple_len(self, l, field, depth):
        l = strip_reborrow(self.fn, l)[-1]
        ds = def_sites(self.fn, l)
        if len(ds) == 1 and ds[0][1] == "call" and ds[0][2].path in ("core::slice::<impl [T]>::split_at", "core::slice::<impl [T]>::split_at_mut"):
            c = ds[0][2]
            base = self.len_of_operand(c.args[0], depth + 1)
            k = self.lin(expr_of_operand(self.fn, c.args[1]))
            if base is None or k is None:
                return None
            return k if field == 0 else lin_add(base, k, -1)
        return None

    def resolve_operand(self, o, depth=0):
        """follow value moves: `(x as Some).0` / `(x as Ok).0` where x was built as Some(y) / Ok(y) in this
        body reads y; field i of a tuple / closure literal reads its i-th operand; plain moves (also of
        projected places) are followed.  Returns an equivalent operand closer to where the value was
        produced (remaining projections are kept)."""
        fn = self.fn
        while depth < 16 and o.get("k") in ("copy", "move"):
            depth += 1
            proj = [pe for pe in o["p"] if pe != "deref"]
            base = strip_reborrow(fn, o["l"])[-1]
            all_ds = def_sites(fn, base)
            # the base itself is a move of a (projected) place: splice the projections
            if len(all_ds) == 1 and all_ds[0][1] == "assign" and all_ds[0][2]["rv"]["k"] == "use" and \
                    all_ds[0][2]["rv"]["x"].get("k") in ("copy", "move") and all_ds[0][2]["rv"]["x"]["p"]:
                q = all_ds[0][2]["rv"]["x"]
                o = {"k": "copy", "l": q["l"], "p": list(q["p"]) + list(proj)}
                continue
            if not proj:
                return {"k": "copy", "l": base, "p": []} if base != o["l"] else o
            # `(Try::branch(x) as Continue).0` is the Ok/Some payload of x
            if len(all_ds) == 1 and all_ds[0][1] == "call" and all_ds[0][2].path == "std::ops::Try::branch" and len(proj) >= 2 and \
                    isinstance(proj[0], dict) and proj[0].get("variant") == "Continue" and isinstance(proj[1], dict) and "f" in proj[1]:
                a0 = all_ds[0][2].args[0]
                if a0.get("k") in ("copy", "move"):
                    ty0 = fn.locals[a0["l"]].get("path", "")
                    v0 = "Ok" if ty0.endswith("Result") else "Some" if ty0.endswith("Option") else None
                    if v0 is not None:
                        o = {"k": "copy", "l": a0["l"], "p": list(a0["p"]) + [{"variant": v0, "vi": 0 if v0 == "Ok" else 1}, proj[1]] + list(proj[2:])}
                        continue
            ds = [d for d in all_ds if d[1] == "assign" and d[2]["rv"]["k"] == "agg"]
            nxt, used = None, 0
            if len(proj) >= 2 and isinstance(proj[0], dict) and "variant" in proj[0] and isinstance(proj[1], dict) and "f" in proj[1]:
                for d in ds:
                    rv = d[2]["rv"]
                    if rv.get("variant") == proj[0]["variant"] and proj[1]["f"] < len(rv["ops"]):
                        nxt, used = rv["ops"][proj[1]["f"]], 2
            elif isinstance(proj[0], dict) and "f" in proj[0] and len(all_ds) == 1:
                for d in ds:
                    rv = d[2]["rv"]
                    if rv.get("agg") in ("tuple", "closure") and proj[0]["f"] < len(rv["ops"]):
                        nxt, used = rv["ops"][proj[0]["f"]], 1
                    elif rv.get("agg") == "adt" and proj[0]["f"] < len(rv["ops"]) and \
                            len(ADTS.get(rv.get("path"), {}).get("variants", [0])) == 1:
                        nxt, used = rv["ops"][proj[0]["f"]], 1     # field of a struct literal
            if nxt is None or nxt.get("k") not in ("copy", "move"):
                return {"k": o["k"], "l": base, "p": proj} if base != o["l"] else o
            o = {"k": "copy", "l": nxt["l"], "p": list(nxt["p"]) + list(proj[used:])}
        return o

    def len_of_operand(self, o, depth=0):
        if o.get("k") not in ("copy", "move"):
            return None
        o = self.resolve_operand(o)
        proj = [pe for pe in o["p"] if pe != "deref"]
        if not proj:
            return self.length_of_local(o["l"], depth)
        if len(proj) == 1 and isinstance(proj[0], dict) and "f" in proj[0]:
            t = self.tuple_len(o["l"], proj[0]["f"], depth)
            if t is not None:
                return t
            cap = self.captured(o["l"], proj[0]["f"])
            if cap is not None and depth < 12:
                return self.len_of_operand(cap, depth + 1)
            cl = container_len_of_ty(self.fn.locals[o["l"]])
            if cl is not None and proj[0]["n"] == "0":
                return cl
            return lin_var(("len", "%s.%s" % (self.name(o["l"]), proj[0]["n"])))
        if len(proj) == 2 and isinstance(proj[0], dict) and proj[0].get("variant") == "Some" and isinstance(proj[1], dict) and proj[1].get("f") == 0:
            # `slice.get(range)` / `get_mut(range)`: the Some payload is exactly that range of the slice
            base_l = strip_reborrow(self.fn, o["l"])[-1]
            dd = def_sites(self.fn, base_l)
            if len(dd) == 1 and dd[0][1] == "call" and dd[0][2].path in ("core::slice::<impl [T]>::get", "core::slice::<impl [T]>::get_mut") and len(dd[0][2].args) == 2:
                gc = dd[0][2]
                rl = self.range_len(self.len_of_operand(gc.args[0], depth + 1), expr_of_operand(self.fn, gc.args[1]))
                if rl is not None:
                    return rl
        return lin_var(("len", deep_repr(expr_of_operand(self.fn, o))))

    def range_len(self, base, rng):
        if base is None or rng.k != "agg":
            return None
        nm = (rng.a or "").split("::")[-1]
        ops = rng.c or []
        vals = [self.lin(o) for o in ops]
        if any(v is None for v in vals):
            return None
        if nm == "Range" and len(vals) == 2:
            return lin_add(vals[1], vals[0], -1)
        if nm == "RangeFrom" and len(vals) == 1:
            return lin_add(base, vals[0], -1)
        if nm == "RangeTo" and len(vals) == 1:
            return vals[0]
        if nm == "RangeFull":
            return base
        if nm == "RangeToInclusive" and len(vals) == 1:
            return lin_add(vals[0], lin_const(1))
        return None

    # ---- linearise an integer expression -----------------------------------------------------------
    def lin(self, e, depth=0):
        fn = self.fn
        if e is None or depth > 30:
            return None
        v = evaluate(e, {})
        if isinstance(v, bool):
            return lin_const(int(v))
        if isinstance(v, int):
            return lin_const(v)
        if e.k == "const":
            if e.a is None and e.b:
                return lin_var(("constparam", str(e.b)))
            return None
        if e.k == "cast":
            from .expr import cast_is_narrowing
            if cast_is_narrowing(fn, e):
                from .expr import INT_BITS
                inner = self.lin(e.a, depth + 1)
                # usize/u64 -> i64/isize loses only the top bit: a value bounded by a single slice
                # length (<= isize::MAX) minus a constant survives unchanged
                if INT_BITS.get(str(e.b)) == 63 and inner is not None:
                    vs = lin_vars(inner)
                    if all(isinstance(v, tuple) and v[0] == "len" and 0 < inner[v] <= 1 for v in vs) and \
                            sum(inner[v] for v in vs) <= 1 and inner.get(1, 0) <= 0:
                        return inner
                    # a bare unsigned parameter: unchanged provided it fits, which becomes an obligation
                    # of its own (lifted to the call sites like any other precondition)
                    if len(vs) == 1 and isinstance(vs[0], tuple) and vs[0][0] == "local" and inner[vs[0]] == 1 and inner.get(1, 0) == 0 and \
                            e.a.k == "local" and 1 <= e.a.a <= fn.argc:
                        g_ = ge(lin_const((1 << 63) - 1), inner)
                        if repr(g_) not in {repr(x) for x, _ in self.side_goals}:
                            self.side_goals.append((g_, "`%s as %s` does not change the value" % (vs[0][1], e.b)))
                        return inner
                return lin_var(("expr", deep_repr(e)))     # value-changing (truncating) cast
            return self.lin(e.a, depth + 1)
        if e.k == "local":
            return lin_var(("local", self.name(e.a)))
        if e.k == "field":
            # (binop WithOverflow).0 -> the arithmetic value
            if e.a.k == "binop" and e.b == "0":
                return self.lin(E("binop", e.a.a.replace("WithOverflow", ""), e.a.b, e.a.c), depth + 1)
            # payload of Some(checked_sub(x, y)) / Some(checked_add(x, y)): exactly x -/+ y (the payload is
            # only read in the arm that matched Some)
            pl = self._callee_payload(e)
            if pl is not None:
                return pl
            # payload of a Some(..)/Ok(..) value built in this body (read only where that variant matched)
            if e.a.k == "local" and isinstance(e.b, str) and "." in e.b and depth < 20:
                var_, idx_ = e.b.rsplit(".", 1)
                if idx_.isdigit():
                    for d in def_sites(fn, e.a.a):
                        if d[1] == "assign" and d[2]["rv"]["k"] == "agg" and d[2]["rv"].get("variant") == var_ and int(idx_) < len(d[2]["rv"]["ops"]):
                            return self.lin(expr_of_operand(fn, d[2]["rv"]["ops"][int(idx_)]), depth + 1)
            ck = checked_arith(e.a)
            if ck is not None and e.b == "Some.0":
                l, r = self.lin(ck[1], depth + 1), self.lin(ck[2], depth + 1)
                if l is not None and r is not None:
                    return lin_add(l, r, -1 if ck[0] == "sub" else 1)
            # an integer field of a record parameter (`self.ciphertext` of `&Lengths`): a variable of its
            # own, translated at call sites to the field of the record the caller passes
            if e.a.k == "local" and 1 <= e.a.a <= fn.argc and isinstance(e.b, str) and "." not in e.b and not e.b.isdigit():
                return lin_var(("local", "%s.%s" % (self.name(e.a.a), e.b)))
            return lin_var(("field", deep_repr(e)))
        if e.k == "binop":
            op = e.a.replace("WithOverflow", "").replace("Unchecked", "")
            l = self.lin(e.b, depth + 1)
            r = self.lin(e.c, depth + 1)
            if l is None or r is None:
                return lin_var(("expr", deep_repr(e)))
            if op == "Add":
                return lin_add(l, r)
            if op == "Sub":
                return lin_add(l, r, -1)
            if op == "Mul":
                if lin_is_const(l):
                    return lin_scale(r, l[1])
                if lin_is_const(r):
                    return lin_scale(l, r[1])
            return lin_var(("expr", deep_repr(e)))
        if e.k == "call":
            c = e.a
            if c.name in ("len",) and len(c.args) == 1 and (c.path.startswith(("core::slice", "std::vec::Vec", "types::Bytes", "core::str", "std::string"))
                                                             or c.path.endswith("::len")):
                ll = Ctx(c.fn, self.view_info).len_of_operand(c.args[0]) if c.fn is not fn else self.len_of_operand(c.args[0])
                if ll is not None:
                    return ll
            if c.path in ("std::cmp::min", "std::cmp::Ord::min"):
                return lin_var(("expr", deep_repr(e)))
            return lin_var(("expr", deep_repr(e)))
        if e.k == "unop" and e.a == "PtrMetadata":
            x = e.b
            if x.k == "local":
                return self.length_of_local(x.a)
            if x.k == "call" and x.a.fn is fn and not x.a.dest["p"]:
                return self.length_of_local(x.a.dest["l"])
            if x.k == "field" and x.a.k == "call" and x.a.a.fn is fn and not x.a.a.dest["p"] and str(x.b) in ("0", "1"):
                tl = self.tuple_len(x.a.a.dest["l"], int(x.b), depth + 1)     # half of a split_at
                if tl is not None:
                    return tl
        return lin_var(("expr", deep_repr(e)))


def checked_arith(e):
    """('sub'|'add', x, y) if e is a call to an unsigned integer's checked_sub / checked_add."""
    if e is None or e.k != "call":
        return None
    p = e.a.path
    if p.startswith("core::num::<impl u") and p.endswith(("::checked_sub", "::checked_add")) and len(e.a.args) == 2:
        ax = call_arg_exprs(e.a)
        return ("sub" if p.endswith("sub") else "add", ax[0], ax[1])
    return None


def array_len_of_ty(ty):
    t = ty
    for _ in range(3):
        if t.get("k") in ("ref", "ptr"):
            t = t.get("inner", {})
        else:
            break
    if t.get("k") == "array":
        try:
            return int(t["n"])
        except (ValueError, KeyError):
            return None
    txt = ty.get("t", "")
    import re
    m = re.match(r"^&(?:mut )?\[u8; (\d+)\]$", txt)
    if m:
        return int(m.group(1))
    m = re.match(r"^\[u8; (\d+)\]$", txt)
    if m:
        return int(m.group(1))
    return None


FIXED_CONTAINERS = ("types::StackByteArray", "protected::HeapByteArray")


def container_len_of_ty(ty):
    """length of a fixed-length byte container by its type (type invariant: StackByteArray<N> wraps
    [u8; N]; HeapByteArray<N> is created only by default(), which resizes to N, and is not resizable)."""
    import re
    t = ty.get("t", "")
    m = re.match(r"^(?:&(?:mut )?)*(?:types::StackByteArray|protected::HeapByteArray)<(\w+)>$", t)
    if not m:
        return None
    n = m.group(1)
    if n.isdigit():
        return lin_const(int(n))
    return lin_var(("constparam", n))


def typenum_value(txt):
    """decode generic_array::typenum UInt<...> binary encodings"""
    import re
    bits = re.findall(r"B([01])>", txt)
    if not bits and "UTerm" in txt:
        return 0
    v = 0
    # innermost bit is most significant; the text lists bits from most to least significant
    for b in bits:
        v = v * 2 + int(b)
    return v if bits else None


# --------------------------------------------------------------------------------------------
# constraints: (lin, rel) meaning lin REL 0 with rel in {">=", "=="}
# --------------------------------------------------------------------------------------------

def ge(a, b):
    """a >= b"""
    return (lin_add(a, b, -1), ">=")


def eq(a, b):
    return (lin_add(a, b, -1), "==")


def negate(con):
    """negation of a >= constraint over integers: lin >= 0  ->  -lin - 1 >= 0.  (== handled by caller)"""
    lin, rel = con
    assert rel == ">="
    n = lin_scale(lin, -1)
    n[1] = n.get(1, Fraction(0)) - 1
    return (n, ">=")


def fm_unsat(cons, limit=4000):
    """Is the conjunction of constraints (lin >= 0 / lin == 0) unsatisfiable over the rationals?"""
    ineqs = []
    for lin, rel in cons:
        if rel == "==":
            ineqs.append(dict(lin))
            ineqs.append(lin_scale(lin, -1))
        else:
            ineqs.append(dict(lin))
    vars_ = set()
    for q in ineqs:
        vars_ |= set(lin_vars(q))
    for v in sorted(vars_, key=repr):
        pos = [q for q in ineqs if q.get(v, 0) > 0]
        neg = [q for q in ineqs if q.get(v, 0) < 0]
        rest = [q for q in ineqs if q.get(v, 0) == 0]
        new = rest
        for p in pos:
            for n in neg:
                a = p[v]
                b = -n[v]
                comb = lin_add(lin_scale(p, b), lin_scale(n, a))
                comb.pop(v, None)
                new.append(comb)
                if len(new) > limit:
                    return False
        ineqs = new
        # quick contradiction check
        for q in ineqs:
            if not lin_vars(q) and q.get(1, 0) < 0:
                return True
    for q in ineqs:
        if not lin_vars(q) and q.get(1, 0) < 0:
            return True
    return False


def entails(facts, goal):
    """facts: list of constraints; goal: constraint. True iff facts |= goal."""
    lin, rel = goal
    if rel == "==":
        return entails(facts, (lin, ">=")) and entails(facts, (lin_scale(lin, -1), ">="))
    return fm_unsat(list(facts) + [negate(goal)])


# --------------------------------------------------------------------------------------------
# facts
# --------------------------------------------------------------------------------------------

def cmp_to_constraints(op, l, r):
    """constraints for `l op r` over integers (list; [] if not expressible)"""
    if l is None or r is None:
        return []
    if op == "Ge":
        return [ge(l, r)]
    if op == "Gt":
        return [ge(l, lin_add(r, lin_const(1)))]
    if op == "Le":
        return [ge(r, l)]
    if op == "Lt":
        return [ge(r, lin_add(l, lin_const(1)))]
    if op == "Eq":
        return [eq(l, r)]
    return []


_summ_memo = {}


def _param_based(lin, names):
    for v in lin_vars(lin):
        if isinstance(v, tuple) and v[0] == "constparam":
            continue
        if isinstance(v, tuple) and v[0] in ("len", "local") and v[1] in names:
            continue
        if isinstance(v, tuple) and v[0] in ("local", "len") and isinstance(v[1], str) and v[1].count(".") == 1 and v[1].split(".")[0] in names:
            continue        # integer field / length of a slice field of a record parameter
        return False
    return True


def ok_summary(g, view_info, stack=()):
    """(constraints, payload): linear constraints over g's parameters that hold at every Ok-capable
    return of g (the Ok-postcondition of a validating helper) and, if every Ok exit returns the same
    linear function of the parameters, that payload."""
    from .expr import result_kind_of_ret
    if g.key in _summ_memo and _summ_memo[g.key][0] is g:
        return _summ_memo[g.key][1]
    if g.key in stack or len(stack) > 4 or g.locals[0].get("path") != "std::result::Result":
        return None
    if g.prog is not None and not getattr(g, "inlined", None):
        from .inline import inline
        g0 = g
        g = inline(g.prog, g, pick=lambda call, t: False)     # closures / combinators folded in
        if g is not g0:
            r = _ok_summary_body(g, view_info, stack)
            _summ_memo[g0.key] = (g0, r)
            return r
    return _ok_summary_body(g, view_info, stack)


def _ok_summary_body(g, view_info, stack):
    from .expr import result_kind_of_ret
    ctx = Ctx(g, view_info)
    names = {ctx.name(p): p for p in range(1, g.argc + 1)}
    econs = edge_constraints(g, ctx, stack + (g.key,))
    res = None
    payloads = []
    for b, kind, e in result_kind_of_ret(g):
        if kind == "err" or b not in g.reachable(0):
            continue
        # an exit whose value is computed (`cond.then(..).ok_or_else(e)`): it is Ok only under the
        # definitions that make it Ok, so the facts of those definitions' blocks hold as well
        combos = [[]]
        if kind == "expr":
            from .expr import ok_capable_combos
            combos = ok_capable_combos(g, e)
        cur = None
        for blocks_ in combos:
            cc = {}
            for bb_ in [b] + list(blocks_):
                for lin, rel in facts_at(g, bb_, econs):
                    if _param_based(lin, names):
                        cc[(tuple(sorted((repr(k), v) for k, v in lin.items())), rel)] = (lin, rel)
            cur = cc if cur is None else {k: v for k, v in cc.items() if k in cur}
        cur = cur or {}
        res = cur if res is None else {k: v for k, v in cur.items() if k in res}
        pl = None
        if kind == "ok":
            for st in g.blocks[b]["s"]:
                if st["k"] == "assign" and st["rv"]["k"] == "agg" and st["rv"].get("path") == "std::result::Result" and st["rv"].get("variant") == "Ok" and st["rv"]["ops"]:
                    pl = ctx.lin(expr_of_operand(g, st["rv"]["ops"][0]))
        payloads.append(pl if pl is not None and _param_based(pl, names) else None)
    payload = payloads[0] if payloads and all(p is not None and p == payloads[0] for p in payloads) else None
    out = (list((res or {}).values()), payload)
    _summ_memo[g.key] = (g, out)
    return out


def translate(lin, g, call, ctx):
    """rewrite a linear form over g's parameters into the caller's terms at `call`"""
    gctx = Ctx(g, ctx.view_info)
    names = {gctx.name(p): p for p in range(1, g.argc + 1)}
    out = lin_const(lin.get(1, 0))
    for v in lin_vars(lin):
        coef = lin[v]
        if isinstance(v, tuple) and v[0] == "constparam":
            out = lin_add(out, lin_scale(lin_var(v), coef))
            continue
        p = names.get(v[1]) if isinstance(v, tuple) and len(v) > 1 else None
        a = None
        if p is None and isinstance(v, tuple) and len(v) > 1 and isinstance(v[1], str) and "." in v[1]:
            # `param.field` of a record parameter (`Lengths { ciphertext, message }.check()`): the field of
            # the record the caller passes
            base_, fld = v[1].split(".", 1)
            p0 = names.get(base_)
            if p0 is not None and p0 <= len(call.args) and "." not in fld and call.args[p0 - 1].get("k") in ("copy", "move"):
                ty = g.locals[p0]
                while ty.get("k") == "ref" and isinstance(ty.get("inner"), dict):
                    ty = ty["inner"]
                adt = ADTS.get(ty.get("path") or "", {})
                vs_ = adt.get("variants", [])
                if len(vs_) == 1:
                    idx = [i for i, fd in enumerate(vs_[0]["fields"]) if fd["name"] == fld]
                    if idx:
                        a0 = call.args[p0 - 1]
                        a = {"k": "copy", "l": a0["l"], "p": list(a0["p"]) + [{"f": idx[0], "n": fld}]}
                        p = p0
        if p is None or p > len(call.args):
            return None
        if a is None:
            a = call.args[p - 1]
        if v[0] == "local":
            al = ctx.lin(expr_of_operand(ctx.fn, a))
        else:
            al = ctx.len_of_operand(a)
        if al is None:
            return None
        out = lin_add(out, lin_scale(al, coef))
    return out


def _bool_param_fact(lin, rel, g, call, ctx):
    """a summary fact `b >= 1` / `0 >= b` about a boolean parameter b, at a call site whose argument
    is a comparison: the comparison (or its negation) itself"""
    vs = lin_vars(lin)
    if rel != ">=" or len(vs) != 1 or not (isinstance(vs[0], tuple) and vs[0][0] == "local"):
        return None
    gctx = Ctx(g, ctx.view_info)
    ps = [p for p in range(1, g.argc + 1) if gctx.name(p) == vs[0][1] and g.locals[p].get("t") == "bool"]
    if not ps or ps[0] > len(call.args):
        return None
    coef, const = lin[vs[0]], lin.get(1, 0)
    truth = True if (coef == 1 and const == -1) else False if (coef == -1 and const == 0) else None
    if truth is None:
        return None
    e = expr_of_operand(ctx.fn, call.args[ps[0] - 1])
    neg_ = False
    while e is not None and e.k == "unop" and e.a == "Not":
        e = e.b
        neg_ = not neg_
    if e is None or e.k != "binop" or e.a not in NEG:
        return None
    op = e.a if truth != neg_ else NEG[e.a]
    return cmp_to_constraints(op, ctx.lin(e.b), ctx.lin(e.c))


def edge_constraints(fn, ctx, stack=()):
    """{(switch_bb, target_bb): [constraints]} from comparisons in switch conditions; the Ok edge of a
    call to a crate-local Result-returning helper carries the helper's Ok-postcondition."""
    out = {}
    prog = fn.prog
    if prog is not None:
        from .expr import decisive_edges
        for c in fn.calls():
            if not c.is_local or c.dest["p"] or fn.locals[c.dest["l"]].get("path") != "std::result::Result":
                continue
            gs = prog.callee_fns(c)
            if len(gs) != 1 or not gs[0].blocks:
                continue
            summ = ok_summary(gs[0], ctx.view_info, stack)
            if not summ or not summ[0]:
                continue
            tr = []
            for lin, rel in summ[0]:
                bc = _bool_param_fact(lin, rel, gs[0], c, ctx)
                if bc is not None:
                    tr += bc
                    continue
                t = translate(lin, gs[0], c, ctx)
                if t is not None:
                    tr.append((t, rel))
            if not tr:
                continue
            good, bad = decisive_edges(fn, c, ("res", "Ok", None), ("res", "Err", None))
            for e_ in good:
                out.setdefault(e_, []).extend(tr)
    for b in range(fn.n):
        t = fn.blocks[b]["t"]
        if t["k"] != "switch":
            continue
        e = expr_of_operand(fn, t["x"])
        arms = {v: tb for v, tb in t["arms"]}
        if e.k == "discr":
            ck = checked_arith(e.a)
            if ck is not None and ck[0] == "sub":
                l, r = ctx.lin(ck[1]), ctx.lin(ck[2])
                if l is not None and r is not None:
                    some = [ge(l, r)]
                    none = [ge(r, lin_add(l, lin_const(1)))]
                    for v, tb in arms.items():
                        out.setdefault((b, tb), []).extend(some if v == 1 else none if v == 0 else [])
                    if set(arms) == {0} and t["otherwise"] not in arms.values():
                        out.setdefault((b, t["otherwise"]), []).extend(some)
                    elif set(arms) == {1} and t["otherwise"] not in arms.values():
                        out.setdefault((b, t["otherwise"]), []).extend(none)
            continue
        if 0 not in arms:
            continue
        ft, tt = arms[0], t["otherwise"]
        if ft == tt:
            continue
        if e.k == "local" and e.b is fn and fn.locals[e.a].get("t") == "bool" and 1 <= e.a <= fn.argc:
            # a boolean parameter used as a guard (`fn ensure(ok: bool, ..)`): 0/1-valued
            v_ = lin_var(("local", ctx.name(e.a)))
            out.setdefault((b, tt), []).append(ge(v_, lin_const(1)))
            out.setdefault((b, ft), []).append(ge(lin_const(0), v_))
            continue
        neg_ = False
        if e.k == "unop" and e.a == "Not":
            e = e.b
            neg_ = True
        if e.k == "binop" and e.a in NEG:
            l = ctx.lin(e.b)
            r = ctx.lin(e.c)
            top, fop = e.a, NEG[e.a]
            if neg_:
                top, fop = fop, top
            out.setdefault((b, tt), []).extend(cmp_to_constraints(top, l, r))
            out.setdefault((b, ft), []).extend(cmp_to_constraints(fop, l, r))
        elif e.k == "call" and e.a.name == "contains" and len(e.a.args) == 2 and "ops::Range" in e.a.path:
            from .guards import range_bounds
            rb = range_bounds(fn, call_arg_exprs(e.a)[0])
            x = ctx.lin(call_arg_exprs(e.a)[1])
            if rb is not None and x is not None and not neg_:
                lo, hi = ctx.lin(rb[0]), ctx.lin(rb[1])
                if lo is not None:
                    out.setdefault((b, tt), []).append(ge(x, lo))
                if hi is not None:
                    out.setdefault((b, tt), []).append(ge(hi, x) if rb[2] else ge(hi, lin_add(x, lin_const(1))))
        elif e.k == "call" and e.a.name == "is_empty" and len(e.a.args) == 1:
            ll = ctx.len_of_operand(e.a.args[0])
            if ll is not None:
                tcs, fcs = [eq(ll, lin_const(0))], [ge(ll, lin_const(1))]
                if neg_:
                    tcs, fcs = fcs, tcs
                out.setdefault((b, tt), []).extend(tcs)
                out.setdefault((b, ft), []).extend(fcs)
    return out


def facts_at(fn, block, econs):
    out = []
    for (s, tgt), cs in econs.items():
        if cs and s in fn.dom.get(block, ()) and fn.edge_dominates((s, tgt), block):
            out += cs
    return out


def nonneg_facts(cons_or_lins):
    """every len(..)/unsigned variable is >= 0 and lens are <= isize::MAX"""
    vs = set()
    for lin in cons_or_lins:
        vs |= set(lin_vars(lin))
    out = []
    for v in vs:
        out.append((lin_var(v), ">="))
        if isinstance(v, tuple) and v[0] == "len":
            out.append(ge(lin_const(ISIZE_MAX), lin_var(v)))
        elif isinstance(v, tuple) and v[0] in ("local", "field", "expr", "constparam"):
            out.append(ge(lin_const(USIZE_MAX), lin_var(v)))
    return out
