#!/bin/bash
# usage: extract.sh <repo-dir> <config-name> <features> <out.json> <target-dir>
# Runs the fact extractor driver over <repo-dir> with the given cargo features.
set -u
REPO="$1"; CFG="$2"; FEATS="$3"; OUT="$4"; TGT="$5"
HERE="$(cd "$(dirname "$0")/.." && pwd)"
DRV="$HERE/driver/target/release/dryoc-facts"
[ -x "$DRV" ] || { echo "driver not built: $DRV" >&2; exit 3; }
SYSROOT="$(rustc +nightly --print sysroot)"
mkdir -p "$TGT" "$(dirname "$OUT")"
# force the wrapper to run on the primary crate (cargo would replay a cached unit otherwise)
rm -rf "$TGT"/debug/.fingerprint/dryoc-* 2>/dev/null
rm -f "$OUT"
FA=()
[ -n "$FEATS" ] && FA=(--features "$FEATS")
export CARGO_NET_OFFLINE=true
LD_LIBRARY_PATH="$SYSROOT/lib" \
RUSTFLAGS="-Zmir-opt-level=0 -Awarnings" \
RUSTC_WORKSPACE_WRAPPER="$DRV" \
DRYOC_FACTS_OUT="$OUT" DRYOC_FACTS_CONFIG="$CFG" \
CARGO_TARGET_DIR="$TGT" \
cargo +nightly check --offline --lib --manifest-path "$REPO/Cargo.toml" "${FA[@]}" > "$OUT.log" 2>&1
rc=$?
if [ $rc -ne 0 ]; then echo "build failed for config $CFG (see $OUT.log)" >&2; exit 2; fi
[ -s "$OUT" ] || { echo "fact file not written for $CFG" >&2; exit 4; }
exit 0
