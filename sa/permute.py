"""Metamorphic test generator for the checks: for every crate-private function (or inherent method) whose
name is unique in the crate and that has at least two non-receiver parameters, swap its first two
parameters in the signature and at every call site.  Behaviour is unchanged by construction; the variant
must compile (default features and nightly,serde,base64, tests included) to be kept.  Every kept variant is
a behaviour-preserving refactor: all checks must stay silent on it.

usage: python3 -m sa.permute --out /verif/refactors --jobs 8        (writes <out>/p-<fn>/patch.diff)
"""
import argparse
import os
import re
import shutil
import subprocess
import sys
import tempfile
from concurrent.futures import ThreadPoolExecutor

VERIF = os.path.dirname(os.path.dirname(os.path.abspath(__file__)))
REPO = os.environ.get("VERIF_REPO", "/repo")


def split_top(s):
    out, d, cur = [], 0, ""
    i = 0
    while i < len(s):
        ch = s[i]
        if ch in "([{<" and not (ch == "<" and (i > 0 and s[i - 1] in " =-")):
            d += 1
        elif ch in ")]}>" and not (ch == ">" and i > 0 and s[i - 1] in "-="):
            d -= 1
        if ch == "," and d == 0:
            out.append(cur)
            cur = ""
        else:
            cur += ch
        i += 1
    if cur.strip():
        out.append(cur)
    return out


def match_paren(text, k):
    """index just after the parenthesis closing the one opened at text[k-1] == '('"""
    depth, p = 1, k
    in_str = None
    while depth > 0 and p < len(text):
        ch = text[p]
        if in_str:
            if ch == "\\":
                p += 1
            elif ch == in_str:
                in_str = None
        elif ch == '"':
            in_str = ch
        elif ch == "'" and re.match(r"'(\\.|[^\\'])'", text[p:p + 4]):
            p += len(re.match(r"'(\\.|[^\\'])'", text[p:p + 4]).group(0)) - 1
        elif ch in "([{":
            depth += 1
        elif ch in ")]}":
            depth -= 1
        p += 1
    return p


def private_fns(src_root):
    """[(name, has_self, file)] for non-pub fns with a crate-unique name and >= 2 non-self params"""
    defs = {}
    for root, _, files in os.walk(src_root):
        for fn in files:
            if not fn.endswith(".rs"):
                continue
            p = os.path.join(root, fn)
            txt = open(p).read()
            cut = txt.find("#[cfg(test)]\nmod tests")
            body = txt if cut < 0 else txt[:cut]
            for m in re.finditer(r"(?m)^([ \t]*)((?:pub(?:\([a-z:]+\))? )?)(?:unsafe )?(?:const )?fn ([a-z_][a-z0-9_]*)\s*(<[^>(]*>)?\(", body):
                name = m.group(3)
                k = m.end()
                e = match_paren(body, k)
                params = [x.strip() for x in split_top(body[k:e - 1])]
                has_self = bool(params) and re.match(r"^(&\s*(mut\s+)?|mut\s+)?self\b", params[0]) is not None
                rest = params[1:] if has_self else params
                defs.setdefault(name, []).append((m.group(2).strip(), has_self, len(rest), p))
    allnames = {}
    for root, _, files in os.walk(src_root):
        for fn in files:
            if fn.endswith(".rs"):
                for m in re.finditer(r"\bfn ([a-z_][a-z0-9_]*)", open(os.path.join(root, fn)).read()):
                    allnames[m.group(1)] = allnames.get(m.group(1), 0) + 1
    out = []
    for name, ds in sorted(defs.items()):
        if len(ds) != 1 or allnames.get(name, 0) != 1:
            continue
        vis, has_self, n, p = ds[0]
        if vis == "pub" or n < 2:
            continue
        out.append((name, has_self, p))
    return out


def permute(root, name, has_self):
    changed = 0
    for r, _, files in os.walk(root):
        for fn in files:
            if not fn.endswith(".rs"):
                continue
            p = os.path.join(r, fn)
            txt = open(p).read()
            out, i = [], 0
            for m in re.finditer(r"\b%s\s*(::<[^>(]*>)?\(" % re.escape(name), txt):
                j, k = m.start(), m.end()
                if j < i:
                    continue
                pre = txt[max(0, j - 40):j]
                is_def = re.search(r"\bfn\s+$", pre) is not None
                if re.search(r"\bfn\s+\w*$", pre) and not is_def:
                    continue
                e = match_paren(txt, k)
                args = split_top(txt[k:e - 1])
                a = [x for x in args]
                recv_in_args = has_self and (is_def or not txt[:j].rstrip().endswith("."))
                base = 1 if recv_in_args else 0
                if len(a) < base + 2:
                    continue
                a[base], a[base + 1] = a[base + 1], a[base]
                out.append(txt[i:k] + ",".join(a))
                i = e - 1
                changed += 1
            out.append(txt[i:])
            new = "".join(out)
            if new != txt:
                open(p, "w").write(new)
    return changed


def rename(root, name):
    """rename a crate-private function consistently (definition, calls, paths, doc links)"""
    changed = 0
    new = "zz_" + name if not name.startswith("_") else "_zz" + name
    for r, _, files in os.walk(root):
        for fn in files:
            if not fn.endswith(".rs"):
                continue
            p = os.path.join(r, fn)
            txt = open(p).read()
            t2 = re.sub(r"(?<![A-Za-z0-9_])%s(?![A-Za-z0-9_])" % re.escape(name), new, txt)
            if t2 != txt:
                changed += len(re.findall(r"(?<![A-Za-z0-9_])%s(?![A-Za-z0-9_])" % re.escape(name), txt))
                open(p, "w").write(t2)
    return changed


def private_fn_names(src_root):
    """non-pub fns with a crate-unique name that is not also a field / local / module name"""
    counts, vis = {}, {}
    for root, _, files in os.walk(src_root):
        for fn in files:
            if not fn.endswith(".rs"):
                continue
            txt = open(os.path.join(root, fn)).read()
            cut = txt.find("#[cfg(test)]\nmod tests")
            body = txt if cut < 0 else txt[:cut]
            for m in re.finditer(r"(?m)^[ \t]*((?:pub(?:\([a-z:]+\))? )?)(?:unsafe )?(?:const )?fn ([a-z_][a-z0-9_]*)", body):
                counts[m.group(2)] = counts.get(m.group(2), 0) + 1
                vis[m.group(2)] = m.group(1).strip()
    out = []
    for n, c in sorted(counts.items()):
        if c == 1 and vis[n] != "pub" and len(n) >= 5 and n not in ("main", "drop", "deref", "default", "clone", "zeroize"):
            out.append(n)
    return out


FLIP = {"<": ">", "<=": ">=", ">": "<", ">=": "<=", "==": "==", "!=": "!="}
_SIMPLE = r"[A-Za-z_][A-Za-z0-9_]*(?:(?:\.|::)[A-Za-z_][A-Za-z0-9_]*|\(\)|\[[A-Za-z0-9_]+\])*|[0-9][0-9_a-zx]*"


def flip_file(path):
    """`if a OP b {` -> `if b OP' a {` for every comparison of two simple operands in the file"""
    txt = open(path).read()
    cut = txt.find("#[cfg(test)]\nmod tests")
    head, tail = (txt, "") if cut < 0 else (txt[:cut], txt[cut:])
    n = [0]

    def rep(m):
        n[0] += 1
        return "%s%s %s %s%s" % (m.group(1), m.group(4), FLIP[m.group(3)], m.group(2), m.group(5))
    head2 = re.sub(r"(\bif\s+)(%s)\s*(<=|>=|==|!=|<|>)\s*(%s)(\s*\{)" % (_SIMPLE, _SIMPLE), rep, head)
    if n[0]:
        open(path, "w").write(head2 + tail)
    return n[0]


def match_brace(text, k):
    """index just after the brace closing the one opened at text[k-1] == '{' (strings, chars and comments skipped)"""
    depth, p = 1, k
    n = len(text)
    while depth > 0 and p < n:
        ch = text[p]
        if ch == '"':
            p += 1
            while p < n and text[p] != '"':
                p += 2 if text[p] == "\\" else 1
        elif ch == "'" and re.match(r"'(\\.|[^\\'])'", text[p:p + 4]):
            p += len(re.match(r"'(\\.|[^\\'])'", text[p:p + 4]).group(0)) - 1
        elif text.startswith("//", p):
            while p < n and text[p] != "\n":
                p += 1
        elif ch == "{":
            depth += 1
        elif ch == "}":
            depth -= 1
        p += 1
    return p


def invert_file(path):
    """`if COND { A } else { B }` -> `if !(COND) { B } else { A }` for every plain if/else (no `if let`, no else-if
    chain, condition on one line) in the non-test part of the file; innermost first is not needed: one pass, no
    overlaps"""
    txt = open(path).read()
    cut = txt.find("#[cfg(test)]\nmod tests")
    head, tail = (txt, "") if cut < 0 else (txt[:cut], txt[cut:])
    out, i, n = [], 0, 0
    for m in re.finditer(r"(?<![A-Za-z0-9_])if ([^{};\n]+?) \{", head):
        if m.start() < i or m.group(1).startswith("let ") or " let " in m.group(1):
            continue
        pre = head[max(0, m.start() - 6):m.start()]
        if pre.rstrip().endswith("else"):
            continue
        a0 = m.end()
        a1 = match_brace(head, a0)
        m2 = re.match(r"\s*else\s*\{", head[a1:])
        if not m2:
            continue
        b0 = a1 + m2.end()
        b1 = match_brace(head, b0)
        if re.match(r"\s*else", head[b1:]):
            continue
        A, B = head[a0:a1 - 1], head[b0:b1 - 1]
        if re.search(r"(?<![A-Za-z0-9_])if [^{};\n]+? \{", A + B) and False:
            continue
        out.append(head[i:m.start()] + "if !(%s) {%s} else {%s}" % (m.group(1), B, A))
        i = b1
        n += 1
    out.append(head[i:])
    if n:
        open(path, "w").write("".join(out) + tail)
    return n


def build_ok(root, tgt):
    env = dict(os.environ, CARGO_NET_OFFLINE="true", CARGO_TARGET_DIR=tgt)
    for cmd in (["cargo", "check", "--offline", "--tests", "--quiet"],
                ["cargo", "+nightly", "check", "--offline", "--tests", "--quiet", "--features", "nightly,serde,base64"],
                ["cargo", "+nightly", "check", "--offline", "--tests", "--quiet", "--features", "nightly,simd_backend,serde,base64"]):
        r = subprocess.run(cmd, cwd=root, env=env, capture_output=True, text=True)
        if r.returncode != 0:
            return False
    return True


def one(args):
    name, has_self, outdir, slot = args
    mode = has_self if has_self in ("rename", "flip", "invert") else "swap"
    tmp = tempfile.mkdtemp(prefix="dryoc-perm-")
    root = os.path.join(tmp, "repo")
    try:
        shutil.copytree(REPO, root, ignore=lambda d_, n: [x for x in n if x in (".git", "target")])
        subprocess.run(["git", "init", "-q", "."], cwd=root)
        subprocess.run(["git", "add", "-A"], cwd=root, capture_output=True)
        subprocess.run(["git", "-c", "user.email=a@b", "-c", "user.name=x", "commit", "-qm", "base"], cwd=root, capture_output=True)
        if mode in ("flip", "invert"):
            n = (flip_file if mode == "flip" else invert_file)(os.path.join(root, name))
            if n < 1:
                return name, "no-call-site"
            n = 2
        else:
            n = rename(os.path.join(root, "src"), name) if mode == "rename" else permute(os.path.join(root, "src"), name, has_self)
        if n < 2:
            return name, "no-call-site"
        if not build_ok(root, os.path.join(VERIF, ".work", "target-perm-%d" % slot)):
            return name, "does-not-compile"
        d = os.path.join(outdir, {"rename": "n-", "flip": "f-", "invert": "i-"}.get(mode, "p-") + name.replace("src/", "").replace("/", "-").replace(".rs", "").replace("_", "-")[:40])
        os.makedirs(d, exist_ok=True)
        diff = subprocess.run(["git", "diff", "--", "src"], cwd=root, capture_output=True, text=True).stdout
        open(os.path.join(d, "patch.diff"), "w").write(diff)
        return name, "ok"
    finally:
        shutil.rmtree(tmp, ignore_errors=True)


def main():
    ap = argparse.ArgumentParser()
    ap.add_argument("--out", default=os.path.join(VERIF, "refactors"))
    ap.add_argument("--jobs", type=int, default=6)
    ap.add_argument("--list", action="store_true")
    ap.add_argument("--mode", default="swap", choices=["swap", "rename", "flip", "invert"])
    a = ap.parse_args()
    if a.mode in ("flip", "invert"):
        fns = []
        for r_, _, fs_ in os.walk(os.path.join(REPO, "src")):
            for f_ in fs_:
                if f_.endswith(".rs"):
                    fns.append((os.path.relpath(os.path.join(r_, f_), REPO), a.mode, None))
        fns.sort()
    else:
        fns = private_fns(os.path.join(REPO, "src")) if a.mode == "swap" else [(n, "rename", None) for n in private_fn_names(os.path.join(REPO, "src"))]
    if a.list:
        for n, hs, p in fns:
            print(n, hs, p)
        return 0
    work = [(n, hs, a.out, i % a.jobs) for i, (n, hs, p) in enumerate(fns)]
    # one slot = one target dir: run slots in parallel, the variants of a slot one after the other
    by_slot = {}
    for w in work:
        by_slot.setdefault(w[3], []).append(w)

    def run_slot(ws):
        return [one(w) for w in ws]
    with ThreadPoolExecutor(max_workers=a.jobs) as ex:
        for res in ex.map(run_slot, by_slot.values()):
            for name, st in res:
                print("%-50s %s" % (name, st))
    return 0


if __name__ == "__main__":
    sys.exit(main())
