"""Obligation bookkeeping, known findings, evidence and VIOLATION lines."""
import hashlib
import json
import os
import re
import time


def print(*a, **k):     # noqa: A001 - a reader that closes the pipe early must not change the verdict or the evidence
    import builtins
    import sys as _sys
    try:
        builtins.print(*a, **k)
        _sys.stdout.flush()
    except BrokenPipeError:
        try:
            _sys.stdout = open(os.devnull, "w")
        except OSError:
            pass



class Report:
    def __init__(self, pid, tier, ctx):
        self.pid = pid
        self.tier = tier
        self.ctx = ctx
        self.obligations = []     # dicts
        self.notes = []
        self.assumptions = []
        self.trusted = []
        self.samples = []
        self.explanation = ""
        self.not_decided = ""
        self.level = "other"
        self.extra = {}
        self.wall = 0.0
        self.controls = []
        self.tag = ""

    # ---- recording -----------------------------------------------------------------------------
    def ob(self, rule, instance, ok, detail="", loc=None, key=None):
        """One obligation = one (rule, instance) pair that was actually examined on this run."""
        if self.tag:
            instance = "%s%s" % (instance, self.tag)
            if key:
                key = key + self.tag
        o = {"rule": rule, "instance": instance, "ok": bool(ok), "detail": detail}
        if loc:
            o["loc"] = loc
        o["key"] = key or ("%s|%s" % (rule, instance))
        self.obligations.append(o)
        return bool(ok)

    def violation(self, rule, instance, detail, loc=None, key=None):
        return self.ob(rule, instance, False, detail, loc, key)

    def floor(self, what, count, minimum):
        """Fail closed when a rule matches fewer instances than were confirmed by hand."""
        ok = count >= minimum
        self.ob("FLOOR", what, ok,
                "%d instance(s) analysed, floor %d%s" % (count, minimum, "" if ok else
                                                          " — the rule would pass vacuously; failing closed"))
        return ok

    def note(self, t):
        self.notes.append(t)

    def assume(self, t):
        if t not in self.assumptions:
            self.assumptions.append(t)

    def trust(self, t):
        if t not in self.trusted:
            self.trusted.append(t)

    def sample(self, s):
        if len(self.samples) < 40:
            self.samples.append(s)

    # ---- finishing -----------------------------------------------------------------------------
    def finish(self, write=True, replay=None):
        known = load_known(os.path.join(self.ctx.verif, "known_findings.txt"))
        viol = [o for o in self.obligations if not o["ok"]]
        new = []
        printed_known = set()
        for o in viol:
            k = (self.pid, o["key"])
            if k in known:
                if k not in printed_known:
                    print("KNOWN-FINDING: property=%s key=%s %s" % (self.pid, o["key"], known[k]))
                    printed_known.add(k)
                o["known_finding"] = True
            else:
                new.append(o)
        n_ob = len(self.obligations)
        n_ok = sum(1 for o in self.obligations if o["ok"])
        print("[%s] tier=%s obligations=%d discharged=%d violations=%d known=%d  (%.1fs; facts: %s)" % (
            self.pid, self.tier, n_ob, n_ok, len(new), len(viol) - len(new), self.wall,
            ", ".join("%s=%s" % (c, how) for c, how, _ in self.ctx.extractions) or "none"))
        by_rule = {}
        for o in self.obligations:
            r = by_rule.setdefault(o["rule"], [0, 0])
            r[0] += 1
            r[1] += 1 if o["ok"] else 0
        for r, (n, k) in sorted(by_rule.items()):
            print("   rule %-14s %3d/%-3d discharged" % (r, k, n))
        rdir = os.path.join(self.ctx.verif, "evidence", "replay")
        rc = 0
        seen_keys = set()
        for o in new:
            if o["key"] in seen_keys:
                continue
            seen_keys.add(o["key"])
            rc = 1
            h = hashlib.sha256(o["key"].encode()).hexdigest()[:10]
            rp = os.path.join(rdir, "%s-%s.json" % (self.pid, h))
            if write:
                os.makedirs(rdir, exist_ok=True)
                with open(rp, "w") as fh:
                    json.dump({"property": self.pid, "obligation": o, "tier": self.tier,
                               "digest": self.ctx.digest,
                               "how_to_replay": "./check %s --replay %s" % (self.pid, rp)}, fh, indent=1)
            print("  %s: %s" % (o.get("loc", "?"), o["rule"]))
            print("      instance: %s" % o["instance"])
            print("      %s" % o["detail"])
            print("VIOLATION property=%s replay=%s" % (self.pid, rp))
        if replay:
            try:
                want = json.load(open(replay))["obligation"]["key"]
            except Exception as e:  # noqa
                print("cannot read replay file: %s" % e)
                return 2
            hit = [o for o in self.obligations if o["key"] == want]
            if not hit:
                print("REPLAY: the instance %r no longer exists on this tree" % want)
            for o in hit:
                print("REPLAY: %s -> %s: %s" % (want, "holds" if o["ok"] else "VIOLATED", o["detail"]))
        if write:
            self.write_evidence(n_ob, n_ok, len(new), len(viol) - len(new))
        return rc

    def write_evidence(self, n_ob, n_ok, n_new, n_known):
        level = self.level
        if level == "proof" and (n_ok != n_ob or n_ob == 0):
            level = "other"
        samples = list(self.samples)
        if not samples:
            samples = [{"rule": o["rule"], "instance": o["instance"], "ok": o["ok"],
                        "detail": o["detail"][:300], "loc": o.get("loc")}
                       for o in self.obligations[:25]]
        cov = {
            "explanation": self.explanation + (" NOT DECIDED by this check: " + self.not_decided
                                               if self.not_decided else ""),
            "obligations": n_ob,
            "discharged": n_ok,
            "checker_cmd": "./check %s --tier %s" % (self.pid, self.tier),
            "trusted_base": self.trusted,
            "samples": samples,
            "rule": "one obligation per (rule, instance) pair examined on the MIR/impl table of "
                    "/repo's current tree; distinct = distinct keys; non-trivial = obligations other than FLOOR counters",
            "evaluations": n_ob,
            "distinct_nontrivial": len({o["key"] for o in self.obligations if o["rule"] != "FLOOR"}),
            "exhaustive": True,
            "configurations": [{"config": c, "how": how, "seconds": s} for c, how, s in self.ctx.extractions],
            "source_digest": self.ctx.digest,
            "per_rule": _per_rule(self.obligations),
            "violations_new": n_new,
            "known_findings": n_known,
            "notes": self.notes,
            "not_decided": self.not_decided,
        }
        if self.controls:
            cov["controls"] = self.controls
        cov.update(self.extra)
        ev = {
            "property_id": self.pid,
            "tier": self.tier,
            "seed": int(os.environ.get("VERIF_SEED", "0") or 0),
            "level": level,
            "coverage": cov,
            "assumptions": self.assumptions,
            "wall_s": round(self.wall, 2),
            "violations": n_new,
        }
        d = os.path.join(self.ctx.verif, "evidence")
        os.makedirs(d, exist_ok=True)
        tmp = os.path.join(d, ".%s.json.tmp" % self.pid)
        with open(tmp, "w") as fh:
            json.dump(ev, fh, indent=1)
        os.replace(tmp, os.path.join(d, "%s.json" % self.pid))


def _per_rule(obs):
    out = {}
    for o in obs:
        r = out.setdefault(o["rule"], {"n": 0, "ok": 0})
        r["n"] += 1
        r["ok"] += 1 if o["ok"] else 0
    return out


def load_known(path):
    """finding: property=<id> key=<key> <text>   (exact key match; `fixed:` lines suppress nothing)"""
    out = {}
    try:
        with open(path) as fh:
            for line in fh:
                line = line.strip()
                if not line.startswith("finding:"):
                    continue
                m = re.match(r"finding:\s+property=(\S+)\s+key=(.+?)\s+::\s+(.*)$", line)
                if m:
                    out[(m.group(1), m.group(2))] = m.group(3)
    except OSError:
        pass
    return out
