"""MIR-level inliner over the driver's fact files.

A helper extracted from a function (or folded back into it) does not change what the function does,
so no rule may depend on where the crate draws its private function boundaries.  Rules that reason
about one function's control/data flow therefore run on an *inlined view*: every call whose callee
resolves to exactly one crate-local, non-public function with a body (and that the rule does not
name as one of its atoms) is replaced by the callee's blocks, with

  * the callee's locals renumbered behind the caller's,
  * `param_i = use(arg_i)` assignments in the calling block,
  * `dest = use(move ret)` + goto <call target> for each callee Return,
  * callee unwind/resume edges redirected to the call's unwind block,
  * callee promoted constants re-indexed behind the caller's.

Inlining is bounded (depth) and never recursive.  The result is an ordinary core.Fn, so every engine
(CFG, dominators, slices, expression trees, guards, length algebra) works on it unchanged.  The
per-block origin (callee path, file) is kept for diagnostics.
"""
import copy

from .core import Fn

MAX_DEPTH = 4
MAX_BLOCKS = 4000


def _map_place(p, lo):
    p["l"] += lo
    for pe in p["p"]:
        if isinstance(pe, dict) and "idx" in pe:
            pe["idx"] += lo


def _map_operand(o, lo, po):
    if o.get("k") in ("copy", "move"):
        _map_place(o, lo)
    elif o.get("k") == "const" and "promoted_idx" in o:
        o["promoted_idx"] += po


def _map_rvalue(rv, lo, po):
    k = rv["k"]
    if k in ("use", "repeat", "cast", "unop"):
        _map_operand(rv["x"], lo, po)
    elif k in ("ref", "rawptr", "discr"):
        _map_place(rv["place"], lo)
    elif k == "binop":
        _map_operand(rv["l"], lo, po)
        _map_operand(rv["r"], lo, po)
    elif k == "agg":
        for o in rv["ops"]:
            _map_operand(o, lo, po)


def _map_block(blk, lo, bo, po):
    for s in blk["s"]:
        if s["k"] == "assign":
            _map_place(s["place"], lo)
            _map_rvalue(s["rv"], lo, po)
        elif s["k"] == "setdiscr":
            _map_place(s["place"], lo)
    t = blk["t"]
    k = t["k"]
    if k == "goto":
        t["t"] += bo
    elif k == "switch":
        _map_operand(t["x"], lo, po)
        t["arms"] = [[v, tb + bo] for v, tb in t["arms"]]
        t["otherwise"] += bo
    elif k == "drop":
        _map_place(t["place"], lo)
        t["t"] += bo
        if t.get("unwind") is not None:
            t["unwind"] += bo
    elif k == "call":
        if "indirect" in t["f"]:
            _map_operand(t["f"]["indirect"], lo, po)
        for a in t["args"]:
            _map_operand(a, lo, po)
        _map_place(t["dest"], lo)
        if t.get("t") is not None:
            t["t"] += bo
        if t.get("unwind") is not None:
            t["unwind"] += bo
    elif k == "assert":
        _map_operand(t["cond"], lo, po)
        t["t"] += bo
        if t.get("unwind") is not None:
            t["unwind"] += bo


def default_pick(prog, root, keep=(), cross=None):
    """Inline crate-local non-public callees (private and pub(crate) free functions / inherent or
    trait methods) defined in the same source file as the root that resolve uniquely, except the ones
    a rule names in `keep` (its atoms: predicates on the callee Fn or path prefixes/suffixes)."""
    def pick(call, g):
        if g.vis == "pub" or g.kind == "closure":
            return False
        if g.file != root.file and not (cross is not None and cross(g)):
            return False     # crate-internal API of another module (a primitive), not a local helper
        for k in keep:
            if callable(k):
                if k(g):
                    return False
            elif k == g.path or g.path.endswith("::" + k) or g.name == k:
                return False
        return True
    return pick


def inline(prog, f, pick=None, keep=(), depth=MAX_DEPTH, cross=None):
    """Return an inlined view of `f` (a fresh core.Fn; `f` itself if nothing was inlined)."""
    if pick is None:
        pick = default_pick(prog, f, keep, cross)
    j = f.j
    blocks = copy.deepcopy(j["blocks"])
    locals_ = list(j["locals"])
    names = list(j.get("names", []))
    promoted = list(j.get("promoted", []))
    next_prom = 1 + max([p["idx"] for p in promoted] + [-1])
    stack_of = {b: (f.key,) for b in range(len(blocks))}     # inline stack per block
    origin = {}
    work = list(range(len(blocks)))
    inlined = []
    while work:
        b = work.pop(0)
        t = blocks[b]["t"]
        if t["k"] != "call" or len(blocks) > MAX_BLOCKS:
            continue
        fj = t["f"]
        key = None
        if "r_key" in fj:
            if fj.get("r_local"):
                key = fj["r_key"]
        elif fj.get("local") and "key" in fj:
            key = fj["key"]
        g = prog.by_key.get(key) if key else None
        if g is None or not g.blocks or g.key in stack_of[b] or len(stack_of[b]) > depth:
            continue
        if len(t["args"]) != g.argc:
            continue
        from .core import Call
        if not pick(Call(f, b, t), g):
            continue
        lo = len(locals_)
        bo = len(blocks)
        po = next_prom
        locals_.extend(g.j["locals"])
        for nm in g.j.get("names", []):
            nm2 = copy.deepcopy(nm)
            _map_place(nm2["place"], lo)
            nm2["arg"] = None
            names.append(nm2)
        for pj in g.j.get("promoted", []):
            pj2 = dict(pj)
            pj2["idx"] = pj["idx"] + po
            promoted.append(pj2)
            next_prom = max(next_prom, pj2["idx"] + 1)
        gblocks = copy.deepcopy(g.j["blocks"])
        call_target = t.get("t")
        call_unwind = t.get("unwind")
        dest = t["dest"]
        ln = t.get("ln")
        for i, blk in enumerate(gblocks):
            _map_block(blk, lo, bo, po)
            tt = blk["t"]
            if tt["k"] == "return":
                blk["s"].append({"k": "assign", "place": copy.deepcopy(dest),
                                 "rv": {"k": "use", "x": {"k": "move", "l": lo, "p": []}}, "ln": tt.get("ln", ln)})
                if call_target is None:
                    blk["t"] = {"k": "unreachable"}
                else:
                    blk["t"] = {"k": "goto", "t": call_target}
            elif tt["k"] == "resume":
                if call_unwind is not None:
                    blk["t"] = {"k": "goto", "t": call_unwind}
            elif tt["k"] in ("call", "drop", "assert") and tt.get("unwind") is None and call_unwind is not None and not blk["cleanup"]:
                tt["unwind"] = call_unwind
            blk["from"] = g.path
            blk["file"] = g.file
            blocks.append(blk)
            nb = bo + i
            stack_of[nb] = stack_of[b] + (g.key,)
            origin[nb] = g
            work.append(nb)
        # the calling block: bind the parameters, jump into the callee
        for i, a in enumerate(t["args"]):
            blocks[b]["s"].append({"k": "assign", "place": {"l": lo + 1 + i, "p": []},
                                   "rv": {"k": "use", "x": copy.deepcopy(a)}, "ln": ln, "bind": True})
        blocks[b]["t"] = {"k": "goto", "t": bo, "ln": ln, "inlined_call": g.path}
        inlined.append(g.path)
    if not inlined:
        return f
    j2 = dict(j)
    j2["blocks"] = blocks
    j2["locals"] = locals_
    j2["names"] = names
    j2["promoted"] = promoted
    f2 = Fn(prog, j2)
    f2.inlined = inlined
    f2.origin = origin
    f2.base = f
    return f2
