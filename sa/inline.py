"""MIR-level inliner over the driver's fact files.

A helper extracted from a function (or folded back into it) does not change what the function does,
so no rule may depend on where the crate draws its private function boundaries.  Rules that reason
about one function's control/data flow therefore run on an *inlined view*: every call whose callee
resolves to exactly one crate-local, non-public function with a body (and that the rule does not
name as one of its atoms) is replaced by the callee's blocks, with

  * the callee's locals renumbered behind the caller's,
  * `param_i = use(arg_i)` assignments in the calling block,
  * `dest = use(move ret)` + goto <call target> for each callee Return,
  * callee unwind/resume edges redirected to the call's unwind block,
  * callee promoted constants re-indexed behind the caller's.

Inlining is bounded (depth) and never recursive.  The result is an ordinary core.Fn, so every engine
(CFG, dominators, slices, expression trees, guards, length algebra) works on it unchanged.  The
per-block origin (callee path, file) is kept for diagnostics.
"""
import copy

from .core import Fn

MAX_DEPTH = 4
MAX_BLOCKS = 4000


def _map_place(p, lo):
    p["l"] += lo
    for pe in p["p"]:
        if isinstance(pe, dict) and "idx" in pe:
            pe["idx"] += lo


def _map_operand(o, lo, po):
    if o.get("k") in ("copy", "move"):
        _map_place(o, lo)
    elif o.get("k") == "const" and "promoted_idx" in o:
        o["promoted_idx"] += po


def _map_rvalue(rv, lo, po):
    k = rv["k"]
    if k in ("use", "repeat", "cast", "unop"):
        _map_operand(rv["x"], lo, po)
    elif k in ("ref", "rawptr", "discr"):
        _map_place(rv["place"], lo)
    elif k == "binop":
        _map_operand(rv["l"], lo, po)
        _map_operand(rv["r"], lo, po)
    elif k == "agg":
        for o in rv["ops"]:
            _map_operand(o, lo, po)


def _map_block(blk, lo, bo, po):
    for s in blk["s"]:
        if s["k"] == "assign":
            _map_place(s["place"], lo)
            _map_rvalue(s["rv"], lo, po)
        elif s["k"] == "setdiscr":
            _map_place(s["place"], lo)
    t = blk["t"]
    k = t["k"]
    if k == "goto":
        t["t"] += bo
    elif k == "switch":
        _map_operand(t["x"], lo, po)
        t["arms"] = [[v, tb + bo] for v, tb in t["arms"]]
        t["otherwise"] += bo
    elif k == "drop":
        _map_place(t["place"], lo)
        t["t"] += bo
        if t.get("unwind") is not None:
            t["unwind"] += bo
    elif k == "call":
        if "indirect" in t["f"]:
            _map_operand(t["f"]["indirect"], lo, po)
        for a in t["args"]:
            _map_operand(a, lo, po)
        _map_place(t["dest"], lo)
        if t.get("t") is not None:
            t["t"] += bo
        if t.get("unwind") is not None:
            t["unwind"] += bo
    elif k == "assert":
        _map_operand(t["cond"], lo, po)
        t["t"] += bo
        if t.get("unwind") is not None:
            t["unwind"] += bo


# modules that are primitives / infrastructure in their own right: never folded into a user
PRIMITIVE_MODULES = ("argon2::", "blake2b::", "poly1305::", "sha512::", "siphash24::", "scalarmult_curve25519::", "utils::",
                     "rng::", "error::", "types::", "protected::", "bytes_serde::")


def _subst_consts(o, cbind):
    """replace `const N` operands of a generic body by the literal bound at the call site (in place)"""
    if isinstance(o, dict):
        if o.get("k") == "const" and o.get("tyconst") in cbind and "v" not in o:
            o["v"] = cbind[o["tyconst"]]
            return
        for v in o.values():
            _subst_consts(v, cbind)
    elif isinstance(o, list):
        for v in o:
            _subst_consts(v, cbind)


def default_pick(prog, root, keep=(), cross=None):
    """Inline crate-local non-public callees (private and pub(crate) free functions / inherent or
    trait methods) defined in the same source file as the root that resolve uniquely, except the ones
    a rule names in `keep` (its atoms: predicates on the callee Fn or path prefixes/suffixes)."""
    def pick(call, g):
        if g.vis == "pub" or g.kind == "closure":
            return False
        if g.file != root.file and not (cross is not None and cross(g)):
            # a helper that lives in another file is still this file's helper if nobody else uses it
            # (a private module split off the file); anything shared is a crate-internal API
            # a non-public function of a sibling module (same directory) is an implementation detail
            # shared inside that part of the crate; primitives and infrastructure modules are not
            import os as _os
            top = lambda fn_: fn_.path.lstrip("<&mut ").split("::")[0]
            same_module_tree = top(g) == top(root) and top(g) != "classic"
            siblings = _os.path.dirname(g.file) == _os.path.dirname(root.file) and not g.path.lstrip("<").startswith(PRIMITIVE_MODULES)
            nested = _os.path.dirname(g.file) == root.file[:-3] or _os.path.dirname(root.file) == g.file[:-3]
            # private helpers gathered in a sub-module tree next to the root (`classic/internal/kx_session.rs`
            # for `classic/crypto_kx.rs`): still that part of the crate's implementation detail
            rd = _os.path.dirname(root.file)
            under = rd.count("/") >= 1 and _os.path.dirname(g.file).startswith(rd + "/") and not g.path.lstrip("<").startswith(PRIMITIVE_MODULES)
            if not (same_module_tree or siblings or nested or under):
                return False
        for k in keep:
            if callable(k):
                if k(g):
                    return False
            elif k == g.path or g.path.endswith("::" + k) or g.name == k:
                return False
        return True
    return pick


# std combinators taking a closure are expanded into the control flow they stand for, with the closure
# body inlined, so that a check written as `opt.filter(|p| !p.is_small_order())` or
# `x.and_then(|v| validate(v))` is as visible to the engines as the equivalent `match`:
#   path -> (adt, variant that runs the closure, how the payload is passed, closure branch, other branch)
COMBINATORS = {
    "std::option::Option::<T>::filter": ("opt", "Some", "ref", "keep_if", "none"),
    "std::option::Option::<T>::and_then": ("opt", "Some", "val", "direct", "none"),
    "std::option::Option::<T>::map": ("opt", "Some", "val", "wrap:opt:Some", "none"),
    "std::option::Option::<T>::ok_or_else": ("opt", "None", "nil", "wrap:res:Err", "wrap_payload:res:Ok"),
    "std::option::Option::<T>::unwrap_or_else": ("opt", "None", "nil", "direct", "payload"),
    "std::option::Option::<T>::is_some_and": ("opt", "Some", "val", "direct", "false"),
    "std::option::Option::<T>::or_else": ("opt", "None", "nil", "direct", "same"),
    "std::result::Result::<T, E>::and_then": ("res", "Ok", "val", "direct", "forward:res:Err"),
    "std::result::Result::<T, E>::map": ("res", "Ok", "val", "wrap:res:Ok", "forward:res:Err"),
    "std::result::Result::<T, E>::map_err": ("res", "Err", "val", "wrap:res:Err", "forward:res:Ok"),
    "std::result::Result::<T, E>::or_else": ("res", "Err", "val", "direct", "forward:res:Ok"),
    "std::result::Result::<T, E>::unwrap_or_else": ("res", "Err", "val", "direct", "payload"),
    "std::result::Result::<T, E>::is_ok_and": ("res", "Ok", "val", "direct", "false"),
    "std::result::Result::<T, E>::is_err_and": ("res", "Err", "val", "direct", "false"),
    # bool::then(f): true -> Some(f()), false -> None
    "std::bool::<impl bool>::then": ("bool", "true", "nil", "wrap:opt:Some", "none"),
    "core::bool::<impl bool>::then": ("bool", "true", "nil", "wrap:opt:Some", "none"),
    # three-argument form: (scrutinee, default, closure)
    "std::option::Option::<T>::map_or": ("opt", "Some", "val", "direct", "default"),
    "std::result::Result::<T, E>::map_or": ("res", "Ok", "val", "direct", "default"),
    # no closure: (scrutinee, default)
    "std::option::Option::<T>::unwrap_or": ("opt", "None", "dflt", "default", "payload"),
    "std::result::Result::<T, E>::unwrap_or": ("res", "Err", "dflt", "default", "payload"),
}
ADT = {"opt": ("std::option::Option", ["None", "Some"]), "res": ("std::result::Result", ["Ok", "Err"])}


def _expand_combinator(prog, t, locals_, blocks, b, file_):
    """Rewrite the call block b (a std combinator applied to a closure literal) into explicit control
    flow ending in a synthetic direct call of the closure body.  Returns the list of new block indices
    (the closure-call block among them) or None if the call is not an expandable combinator."""
    fj = t["f"]
    spec = COMBINATORS.get(fj.get("path"))
    if spec is None or t.get("t") is None:
        return None
    adt, run_variant, passing, cbranch, obranch = spec
    want_args = 3 if obranch == "default" else 2
    if len(t["args"]) != want_args:
        return None
    scr = t["args"][0]
    dflt = t["args"][1] if (obranch == "default" or passing == "dflt") else None
    clo = None if passing == "dflt" else t["args"][-1]
    g = None
    fitem = None
    if clo is not None:
        if clo.get("k") == "const" or (clo.get("k") in ("copy", "move") and _closure_of(locals_, blocks, clo["l"]) is None):
            # a function item used as the callable (`.map_err(Error::from)`, a `fn` handed through a helper)
            fitem = _fn_item_of(locals_, blocks, clo)
            if fitem is None:
                return None
            if prog.by_key.get(fitem["fn_key"]) is None:
                # a function of another crate (`opt.map_or(0, Vec::len)`): the combinator is expanded all
                # the same, the callable stays a call
                g = _ExtFn.of(fitem)
                if g is None:
                    return None
            else:
                g = prog.by_key[fitem["fn_key"]]
                if not g.blocks:
                    return None
        else:
            if clo.get("k") not in ("copy", "move") or clo["p"]:
                return None
            cl = _closure_of(locals_, blocks, clo["l"])
            g = prog.by_key.get(locals_[cl].get("key")) if cl is not None else None
            if g is None or not g.blocks:
                return None
    path, variants = ADT[adt] if adt != "bool" else ("bool", ["false", "true"])
    other_variant = [v for v in variants if v != run_variant][0]
    want_argc = (1 if passing == "nil" else 2) - (1 if fitem is not None else 0)
    if g is not None and g.argc != want_argc:
        return None
    ln = t.get("ln")
    dest, target, unwind = t["dest"], t["t"], t.get("unwind")
    new = []

    def nl(ty):
        locals_.append(ty)
        return len(locals_) - 1

    def nb(stmts, term):
        blocks.append({"s": stmts, "t": term, "cleanup": False, "from": "<%s>" % fj.get("path", "").split("::")[-1], "file": file_})
        new.append(len(blocks) - 1)
        return len(blocks) - 1

    def assign(place, rv):
        return {"k": "assign", "place": place, "rv": rv, "ln": ln}

    def pl(l, proj=None):
        return {"l": l, "p": list(proj or [])}

    def payload(l, variant, kind="move"):
        vi = variants.index(variant)
        return {"k": kind, "l": l, "p": [{"variant": variant, "vi": vi}, {"f": 0, "n": "0"}]}

    def agg(p_, variant, ops):
        return {"k": "agg", "agg": "adt", "path": p_, "variant": variant, "fields": ["0"] if ops else [], "ops": ops}

    scr_ty = locals_[scr["l"]] if scr.get("k") in ("copy", "move") and not scr.get("p") else {"t": "?", "k": "other"}
    s_l = nl(scr_ty)
    d_l = nl({"t": "isize", "k": "prim"})
    # closure receiver: by value, or by reference if the body takes `&self` / `&mut self`
    recv_ty = g.locals[1] if g is not None and fitem is None and len(g.locals) > 1 else {"t": "?"}
    pre = []
    recv = None
    if g is None or fitem is not None:
        pass
    elif recv_ty.get("t", "").startswith("&"):
        r_l = nl(recv_ty)
        pre.append(assign(pl(r_l), {"k": "ref", "mut": recv_ty["t"].startswith("&mut"), "place": pl(clo["l"])}))
        recv = {"k": "move", "l": r_l, "p": []}
    else:
        recv = _jcopy(clo)
    # --- the branch that does not run the closure
    if obranch == "none":
        o_st = [assign(_jcopy(dest), agg("std::option::Option", "None", []))]
    elif obranch.startswith("forward:") or obranch.startswith("wrap_payload:"):
        _, k_, v_ = obranch.split(":")
        o_st = [assign(_jcopy(dest), agg(ADT[k_][0], v_, [payload(s_l, other_variant)]))]
    elif obranch == "payload":
        o_st = [assign(_jcopy(dest), {"k": "use", "x": payload(s_l, other_variant)})]
    elif obranch == "false":
        o_st = [assign(_jcopy(dest), {"k": "use", "x": {"k": "const", "ty": "bool", "v": 0}})]
    elif obranch == "default":
        o_st = [assign(_jcopy(dest), {"k": "use", "x": _jcopy(dflt)})]
    else:   # same
        o_st = [assign(_jcopy(dest), {"k": "use", "x": {"k": "move", "l": s_l, "p": []}})]
    b_other = nb(o_st, {"k": "goto", "t": target})
    # --- the branch that runs the closure
    args = [recv] if fitem is None else []
    c_st = list(pre)
    pidx = 2 if fitem is None else 1      # index of the payload parameter in the callee
    if g is None:
        pass
    elif passing == "val":
        a_l = nl(g.locals[pidx])
        c_st.append(assign(pl(a_l), {"k": "use", "x": payload(s_l, run_variant)}))
        args.append({"k": "move", "l": a_l, "p": []})
    elif passing == "ref":
        a_l = nl(g.locals[pidx])
        c_st.append(assign(pl(a_l), {"k": "ref", "mut": False, "place": pl(s_l, [{"variant": run_variant, "vi": variants.index(run_variant)}, {"f": 0, "n": "0"}])}))
        args.append({"k": "move", "l": a_l, "p": []})
    callee = {"key": g.key, "local": True, "path": g.path, "full": g.path, "name": g.name if fitem is not None else "{closure}",
              "closure_call": fitem is None} if g is not None else None
    if isinstance(g, _ExtFn):
        callee = {"path": g.path, "full": g.path, "name": g.name}
    if cbranch == "default":
        b_call = nb([assign(_jcopy(dest), {"k": "use", "x": _jcopy(dflt)})], {"k": "goto", "t": target})
    elif cbranch == "direct":
        b_call = nb(c_st, {"k": "call", "f": callee, "args": args, "dest": _jcopy(dest), "t": target, "unwind": unwind, "ln": ln})
    elif cbranch.startswith("wrap:"):
        _, k_, v_ = cbranch.split(":")
        y_l = nl(g.locals[0])
        b_wrap = nb([assign(_jcopy(dest), agg(ADT[k_][0], v_, [{"k": "move", "l": y_l, "p": []}]))], {"k": "goto", "t": target})
        b_call = nb(c_st, {"k": "call", "f": callee, "args": args, "dest": pl(y_l), "t": b_wrap, "unwind": unwind, "ln": ln})
    else:   # keep_if
        r2 = nl({"t": "bool", "k": "prim"})
        b_keep = nb([assign(_jcopy(dest), {"k": "use", "x": {"k": "move", "l": s_l, "p": []}})], {"k": "goto", "t": target})
        b_drop = nb([assign(_jcopy(dest), agg("std::option::Option", "None", []))], {"k": "goto", "t": target})
        b_sw = nb([], {"k": "switch", "x": {"k": "move", "l": r2, "p": []}, "arms": [[0, b_drop]], "otherwise": b_keep, "ln": ln})
        b_call = nb(c_st, {"k": "call", "f": callee, "args": args, "dest": pl(r2), "t": b_sw, "unwind": unwind, "ln": ln})
    # --- the dispatching block (replaces the combinator call)
    blk = blocks[b]
    if isinstance(blocks, _Blocks):
        blocks.touch(b)
    blk["s"].append(assign(pl(s_l), {"k": "use", "x": _jcopy(scr)}))
    if adt == "bool":
        blk["t"] = {"k": "switch", "x": {"k": "copy", "l": s_l, "p": []}, "arms": [[0, b_other]], "otherwise": b_call, "ln": ln,
                    "expanded": fj.get("path")}
        return new
    blk["s"].append(assign(pl(d_l), {"k": "discr", "place": pl(s_l)}))
    vi_run = variants.index(run_variant)
    blk["t"] = {"k": "switch", "x": {"k": "move", "l": d_l, "p": []}, "arms": [[vi_run, b_call]], "otherwise": b_other, "ln": ln,
                "expanded": fj.get("path")}
    return new


class _ExtFn:
    """signature of a function item of another crate, read off its type text
    `for<'a> fn(&'a std::vec::Vec<u8>) -> usize {std::vec::Vec::<u8>::len}`"""
    def __init__(self, path, key, params, ret):
        self.path, self.key, self.name = path, key, path.split("::")[-1]
        self.locals = [{"t": ret, "k": "other"}] + [{"t": p_, "k": "other"} for p_ in params]
        self.argc = len(params)
        self.blocks = None

    @staticmethod
    def of(fitem):
        import re
        ty = fitem.get("ty", "")
        m = re.match(r"^(?:for<[^>]*> )?(?:unsafe )?(?:extern \"[^\"]*\" )?fn\((.*)\)(?: -> (.*?))? \{.*\}$", ty)
        if not m or "fn" not in fitem:
            return None
        params, depth, cur = [], 0, ""
        for ch in m.group(1):
            if ch in "<([":
                depth += 1
            elif ch in ">)]":
                depth -= 1
            if ch == "," and depth == 0:
                params.append(cur.strip())
                cur = ""
            else:
                cur += ch
        if cur.strip():
            params.append(cur.strip())
        params = [re.sub(r"'\w+ ", "", p_) for p_ in params]
        return _ExtFn(fitem["fn"], fitem.get("fn_key"), params, (m.group(2) or "()").strip())


FN_CALLS = ("std::ops::FnOnce::call_once", "std::ops::FnMut::call_mut", "std::ops::Fn::call")


class _Blocks(list):
    """block list with an index of whole-local definitions, maintained incrementally: the inliner only
    appends blocks, appends statements to a block and replaces a block's terminator, and reports the
    block it changed with touch(b)"""
    def __init__(self, it):
        super().__init__(it)
        self._idx = {}
        self._rec = []          # per indexed block: [statements indexed, dest local of its call terminator]
        self._dirty = set()

    def touch(self, b=None):
        if b is None:
            self._idx, self._rec, self._dirty = {}, [], set()
        else:
            self._dirty.add(b)

    def _index_block(self, i):
        blk = self[i]
        idx = self._idx
        if i < len(self._rec):
            n0, d0 = self._rec[i]
        else:
            n0, d0 = 0, None
            self._rec.append([0, None])
        ss = blk["s"]
        for k in range(n0, len(ss)):
            st = ss[k]
            if st["k"] == "assign" and not st["place"]["p"]:
                idx.setdefault(st["place"]["l"], []).append(st)
        t = blk["t"]
        d1 = t["dest"]["l"] if t["k"] == "call" and not t["dest"]["p"] else None
        if d1 != d0:
            if d0 is not None:
                idx[d0].remove(None)
            if d1 is not None:
                idx.setdefault(d1, []).append(None)
        self._rec[i] = [len(ss), d1]

    def defs(self):
        if self._dirty:
            for b in sorted(self._dirty):
                if b < len(self._rec):
                    self._index_block(b)
            self._dirty = set()
        for i in range(len(self._rec), len(self)):
            self._index_block(i)
        return self._idx


def _jcopy(x):
    """copy of a JSON-like tree (dict / list / scalars), much cheaper than copy.deepcopy"""
    if type(x) is dict:
        return {k: _jcopy(v) for k, v in x.items()}
    if type(x) is list:
        return [_jcopy(v) for v in x]
    return x


def _single_def_stmt(blocks, l):
    if isinstance(blocks, _Blocks):
        d = blocks.defs().get(l, [])
        return d[0] if len(d) == 1 and d[0] is not None else None
    found = None
    for blk in blocks:
        for st in blk["s"]:
            if st["k"] == "assign" and st["place"]["l"] == l and not st["place"]["p"]:
                if found is not None:
                    return None
                found = st
        t = blk["t"]
        if t["k"] == "call" and t["dest"]["l"] == l and not t["dest"]["p"]:
            return None
    return found


def _closure_of(locals_, blocks, l, depth=0):
    """the closure literal local a value local stands for (through moves and borrows), or None"""
    if depth > 8:
        return None
    if locals_[l].get("k") == "closure" and locals_[l].get("key"):
        return l
    st = _single_def_stmt(blocks, l)
    if st is None:
        return None
    rv = st["rv"]
    if rv["k"] == "use" and rv["x"].get("k") in ("copy", "move") and all(pe == "deref" for pe in rv["x"]["p"]):
        return _closure_of(locals_, blocks, rv["x"]["l"], depth + 1)
    if rv["k"] == "use" and rv["x"].get("k") in ("copy", "move"):
        cap = _captured_operand(locals_, blocks, rv["x"])          # moved out of an enclosing closure's environment
        if cap is not None and cap.get("k") in ("copy", "move") and all(pe == "deref" for pe in cap["p"]):
            return _closure_of(locals_, blocks, cap["l"], depth + 1)
    if rv["k"] in ("ref", "rawptr") and all(pe == "deref" for pe in rv["place"]["p"]):
        return _closure_of(locals_, blocks, rv["place"]["l"], depth + 1)
    return None


def _captured_operand(locals_, blocks, o, depth=0):
    """`(env.i)` where env stands for a closure literal of this view: the operand captured as field i"""
    if depth > 8 or o.get("k") not in ("copy", "move"):
        return None
    flds = [pe for pe in o["p"] if pe != "deref"]
    if len(flds) != 1 or not isinstance(flds[0], dict) or "f" not in flds[0]:
        return None
    l = o["l"]
    for _ in range(8):
        st = _single_def_stmt(blocks, l)
        if st is None:
            return None
        rv = st["rv"]
        if rv["k"] == "agg" and rv.get("agg") == "closure":
            i = flds[0]["f"]
            return rv["ops"][i] if i < len(rv["ops"]) else None
        if rv["k"] == "use" and rv["x"].get("k") in ("copy", "move") and all(pe == "deref" for pe in rv["x"]["p"]):
            l = rv["x"]["l"]
        elif rv["k"] in ("ref", "rawptr") and all(pe == "deref" for pe in rv["place"]["p"]):
            l = rv["place"]["l"]
        else:
            return None
    return None


def _fn_item_of(locals_, blocks, o, depth=0):
    """the function item constant an operand stands for (through moves), or None"""
    if depth > 8:
        return None
    if o.get("k") == "const":
        return o if "fn_key" in o else None
    if o.get("k") in ("copy", "move") and all(pe == "deref" for pe in o["p"]):
        st = _single_def_stmt(blocks, o["l"])
        if st is None:
            return None
        rv = st["rv"]
        if rv["k"] == "cast":        # fn item reified into a function pointer
            return _fn_item_of(locals_, blocks, rv["x"], depth + 1)
        if rv["k"] == "use":
            if rv["x"].get("k") in ("copy", "move") and [pe for pe in rv["x"]["p"] if pe != "deref"]:
                cap = _captured_operand(locals_, blocks, rv["x"])
                return _fn_item_of(locals_, blocks, cap, depth + 1) if cap is not None else None
            return _fn_item_of(locals_, blocks, rv["x"], depth + 1)
        if rv["k"] in ("ref", "rawptr") and all(pe == "deref" for pe in rv["place"]["p"]):
            return _fn_item_of(locals_, blocks, {"k": "copy", "l": rv["place"]["l"], "p": []}, depth + 1)
    return None


def _resolve_closure_call(prog, t, locals_, blocks):
    """rewrite `FnOnce::call_once(closure_value, (a, b, ..))` into a direct call of the closure body
    with the arguments untupled; returns True if rewritten"""
    recv, tup = t["args"]
    if tup.get("k") not in ("copy", "move") or tup["p"]:
        return False
    st = _single_def_stmt(blocks, tup["l"])
    if st is None or st["rv"]["k"] != "agg" or st["rv"].get("agg") != "tuple":
        return False
    ops = st["rv"]["ops"]
    # the callable may itself be a captured variable of an enclosing (folded-in) closure: `(env.i)`
    for _ in range(4):
        cap = _captured_operand(locals_, blocks, recv)
        if cap is None:
            break
        recv = cap
    if recv.get("k") in ("copy", "move") and [pe for pe in recv["p"] if pe != "deref"]:
        return False      # some other projection: not a callable we can name
    # a function item handed around as a value: call it directly
    fitem = _fn_item_of(locals_, blocks, recv)
    if fitem is not None:
        tj = {"key": fitem["fn_key"], "path": fitem["fn"].split("::<")[0], "full": fitem["fn"], "name": fitem["fn"].split("::")[-1]}
        g0 = prog.by_key.get(fitem["fn_key"])
        if g0 is not None:
            tj["local"] = True
            tj["path"] = g0.path
            if g0.argc != len(ops):
                return False
        t["f"] = tj
        t["args"] = [{"k": "move", "l": tup["l"], "p": [{"f": i, "n": str(i)}]} for i in range(len(ops))]
        return True
    if recv.get("k") not in ("copy", "move"):
        return False
    cl = _closure_of(locals_, blocks, recv["l"])
    if cl is None:
        return False
    g = prog.by_key.get(locals_[cl].get("key"))
    if g is None or not g.blocks:
        return False
    if g.argc != 1 + len(ops):
        return False
    # receiver as the body expects it: by value for FnOnce closures, by reference otherwise
    want_ref = g.locals[1].get("t", "").startswith("&")
    have_ref = locals_[recv["l"]].get("t", "").startswith("&") or locals_[recv["l"]].get("k") == "ref"
    args = [_jcopy(recv)]
    if want_ref and not have_ref:
        # cannot take a reference without a new statement here; bind by value (the engines only follow
        # the data flow, which is the same)
        pass
    for i in range(len(ops)):
        args.append({"k": "move", "l": tup["l"], "p": [{"f": i, "n": str(i)}]})
    t["f"] = {"key": g.key, "local": True, "path": g.path, "full": g.path, "name": "{closure}", "closure_call": True}
    t["args"] = args
    return True


VALUE_COMBINATORS = ("std::option::Option::<T>::unwrap_or", "std::result::Result::<T, E>::unwrap_or")


def inline(prog, f, pick=None, keep=(), depth=MAX_DEPTH, cross=None, value_combinators=False):
    """Return an inlined view of `f` (a fresh core.Fn; `f` itself if nothing was inlined).
    Combinators taking a closure are always expanded; the closure-less value selectors
    (`unwrap_or`, `map_or`) only on request - most rules prefer to see through them as adapters."""
    if pick is None:
        pick = default_pick(prog, f, keep, cross)
    j = f.j
    # cheap pre-check: anything to fold in at all?
    from .core import Call
    maybe = False
    for b_, blk_ in enumerate(j["blocks"]):
        t_ = blk_["t"]
        if t_["k"] != "call":
            continue
        fj_ = t_["f"]
        if fj_.get("path") in COMBINATORS or fj_.get("path") in FN_CALLS or "indirect" in fj_:
            maybe = True
            break
        key_ = fj_.get("r_key") if ("r_key" in fj_ and fj_.get("r_local")) else (fj_.get("key") if fj_.get("local") and "r_key" not in fj_ else None)
        g_ = prog.by_key.get(key_) if key_ else None
        if g_ is not None and g_.blocks and g_.key != f.key and len(t_["args"]) == g_.argc and pick(Call(f, b_, t_), g_):
            maybe = True
            break
    if not maybe:
        return f
    blocks = _Blocks(_jcopy(j["blocks"]))
    locals_ = list(j["locals"])
    names = list(j.get("names", []))
    promoted = list(j.get("promoted", []))
    next_prom = 1 + max([p["idx"] for p in promoted] + [-1])
    stack_of = {b: (f.key,) for b in range(len(blocks))}     # inline stack per block
    origin = {}
    work = list(range(len(blocks)))
    inlined = []
    while work:
        b = work.pop(0)
        t = blocks[b]["t"]
        if t["k"] != "call" or len(blocks) > MAX_BLOCKS:
            continue
        fj = t["f"]
        if "indirect" in fj and len(stack_of[b]) <= depth:
            # call through a function pointer that is a known function item of this view
            fi = _fn_item_of(locals_, blocks, fj["indirect"])
            if fi is not None:
                g0 = prog.by_key.get(fi["fn_key"])
                tj = {"key": fi["fn_key"], "path": (g0.path if g0 is not None else fi["fn"].split("::<")[0]), "full": fi["fn"], "name": fi["fn"].split("::")[-1]}
                if g0 is not None:
                    tj["local"] = True
                t["f"] = tj
                fj = tj
        if fj.get("path") in FN_CALLS and len(t["args"]) == 2 and len(stack_of[b]) <= depth:
            # `f(a, b)` on a value that is a closure literal of this view (possibly handed through the
            # parameters of folded-in helpers): call the closure body directly
            if _resolve_closure_call(prog, t, locals_, blocks):
                fj = t["f"]
        if fj.get("path") in COMBINATORS and len(stack_of[b]) <= depth and (value_combinators or fj.get("path") not in VALUE_COMBINATORS):
            newb = _expand_combinator(prog, t, locals_, blocks, b, blocks[b].get("file", f.file))
            if newb:
                for nb_ in newb:
                    stack_of[nb_] = stack_of[b]
                    if b in origin:
                        origin[nb_] = origin[b]
                    work.append(nb_)
                inlined.append("<%s>" % fj["path"].split("::")[-1])
                continue
        key = None
        if "r_key" in fj:
            if fj.get("r_local"):
                key = fj["r_key"]
        elif fj.get("local") and "key" in fj:
            key = fj["key"]
        g = prog.by_key.get(key) if key else None
        if g is None or not g.blocks or g.key in stack_of[b] or len(stack_of[b]) > depth:
            continue
        if len(t["args"]) != g.argc:
            continue
        from .core import Call
        c_ = Call(f, b, t)
        c_.ctx_locals = locals_
        if not fj.get("closure_call") and not pick(c_, g):
            continue
        lo = len(locals_)
        bo = len(blocks)
        po = next_prom
        # const generic arguments fixed at this call site (`split_array::<16>(..)`) become literals
        cbind = {}
        try:
            for pn, (txt, sub) in (prog.bind_for(Call(f, b, t), g, {}) or {}).items():
                if not sub and str(txt).isdigit():
                    cbind[pn] = int(txt)
        except Exception:
            cbind = {}
        if cbind:
            glocals = []
            for lt in g.j["locals"]:
                tt = lt.get("t", "")
                if any(("; %s]" % pn) in tt or ("<%s>" % pn) in tt for pn in cbind):
                    lt = dict(lt)
                    for pn, val in cbind.items():
                        lt["t"] = lt["t"].replace("; %s]" % pn, "; %d]" % val).replace("<%s>" % pn, "<%d>" % val)
                    if lt.get("k") == "array" and lt.get("n") in cbind:
                        lt["n"] = str(cbind[lt["n"]])
                    if isinstance(lt.get("inner"), dict) and lt["inner"].get("n") in cbind:
                        lt["inner"] = dict(lt["inner"], n=str(cbind[lt["inner"]["n"]]), t=lt["inner"].get("t", "").replace("; %s]" % lt["inner"]["n"], "; %d]" % cbind[lt["inner"]["n"]]))
                glocals.append(lt)
            locals_.extend(glocals)
        else:
            locals_.extend(g.j["locals"])
        for nm in g.j.get("names", []):
            nm2 = _jcopy(nm)
            _map_place(nm2["place"], lo)
            nm2["arg"] = None
            names.append(nm2)
        for pj in g.j.get("promoted", []):
            pj2 = dict(pj)
            pj2["idx"] = pj["idx"] + po
            promoted.append(pj2)
            next_prom = max(next_prom, pj2["idx"] + 1)
        gblocks = _jcopy(g.j["blocks"])
        if cbind:
            _subst_consts(gblocks, cbind)
        call_target = t.get("t")
        call_unwind = t.get("unwind")
        dest = t["dest"]
        ln = t.get("ln")
        for i, blk in enumerate(gblocks):
            _map_block(blk, lo, bo, po)
            tt = blk["t"]
            if tt["k"] == "return":
                blk["s"].append({"k": "assign", "place": _jcopy(dest),
                                 "rv": {"k": "use", "x": {"k": "move", "l": lo, "p": []}}, "ln": tt.get("ln", ln)})
                if call_target is None:
                    blk["t"] = {"k": "unreachable"}
                else:
                    blk["t"] = {"k": "goto", "t": call_target}
            elif tt["k"] == "resume":
                if call_unwind is not None:
                    blk["t"] = {"k": "goto", "t": call_unwind}
            elif tt["k"] in ("call", "drop", "assert") and tt.get("unwind") is None and call_unwind is not None and not blk["cleanup"]:
                tt["unwind"] = call_unwind
            blk["from"] = g.path
            blk["file"] = g.file
            blocks.append(blk)
            nb = bo + i
            stack_of[nb] = stack_of[b] + (g.key,)
            origin[nb] = g
            work.append(nb)
        # the calling block: bind the parameters, jump into the callee
        for i, a in enumerate(t["args"]):
            blocks[b]["s"].append({"k": "assign", "place": {"l": lo + 1 + i, "p": []},
                                   "rv": {"k": "use", "x": _jcopy(a)}, "ln": ln, "bind": True})
        blocks.touch(b)
        blocks[b]["t"] = {"k": "goto", "t": bo, "ln": ln, "inlined_call": g.path}
        inlined.append(g.path)
    if not inlined:
        return f
    j2 = dict(j)
    j2["blocks"] = list(blocks)
    j2["locals"] = locals_
    j2["names"] = names
    j2["promoted"] = promoted
    f2 = Fn(prog, j2)
    f2.inlined = inlined
    f2.origin = origin
    f2.base = f
    return f2
