"""Path-property engines built on core + expr: AUTH (authenticated Ok exits), CLEAN (no dirty
output on Err), MUSTCALL (cut check), PROV/FORBID (slices), REACH."""
from collections import defaultdict

from .core import (Call, def_sites, strip_reborrow, is_mut_ref_ty, operand_locals, AnchorError)
from .expr import (E, expr_of_operand, expr_of_local, atoms_of, evaluate, decisive_edges,
                   result_kind_of_ret, call_arg_exprs)

OK = ("res", "Ok", None)
ERR = ("res", "Err", None)
CT_T = ("choice", True)
CT_F = ("choice", False)
SOME = ("opt", "Some", None)
NONE = ("opt", "None", None)


def returns_result(fn):
    return fn.locals[0].get("path") == "std::result::Result"


def returns_option(fn):
    return fn.locals[0].get("path") == "std::option::Option"


# --------------------------------------------------------------------------------------------
# AUTH
# --------------------------------------------------------------------------------------------

class AuthResult:
    def __init__(self, fn):
        self.fn = fn
        self.atoms = []          # (Call, kind) that act as authenticators here
        self.good_edges = []
        self.bad_exits = []      # (bb, path) Ok exits reachable without an authenticating edge
        self.ok_exits = 0
        self.unrecognised = []   # atoms whose polarity could not be determined

    @property
    def authenticated(self):
        return bool(self.atoms) and not self.bad_exits and not self.unrecognised and self.ok_exits > 0


def auth_check(prog, fn, prim_atoms, auth_fns, success=(CT_T, CT_F)):
    """prim_atoms: Calls in fn that are primitive checks (e.g. accepted ct_eq comparisons), with
    abstract success/failure values `success`.  auth_fns: set of fn keys whose Ok return implies
    the obligation.  Returns AuthResult."""
    res = AuthResult(fn)
    cut = []
    for a in prim_atoms:
        good, bad = decisive_edges(fn, a, success[0], success[1])
        if not good:
            res.unrecognised.append(a)
            continue
        res.atoms.append((a, "prim"))
        cut += good
    call_atoms = []
    for c in fn.calls():
        tg = prog.callee_fns(c)
        if tg and all(t.key in auth_fns for t in tg):
            call_atoms.append(c)
    for a in call_atoms:
        good, bad = decisive_edges(fn, a, OK, ERR)
        res.atoms.append((a, "call"))
        cut += good
    res.good_edges = cut
    reach = fn.reachable(0, cut_edges=cut)
    for b, kind, e in result_kind_of_ret(fn):
        if kind == "err":
            continue
        if b not in fn.reachable(0):
            continue
        res.ok_exits += 1
        if kind == "expr":
            # Ok only if an authenticating call returned Ok?
            done = False
            for a in atoms_of(e):
                if any(a is x or (a.bb == x.bb) for x in call_atoms):
                    v = evaluate(e, {(a.fn.key, a.bb): ERR})
                    if v == ERR or (isinstance(v, tuple) and v[0] == "res" and v[1] == "Err"):
                        done = True
                        break
            if done:
                continue
        if b in reach:
            res.bad_exits.append((b, fn.path_between(0, b, cut_edges=cut)))
    return res


def auth_fixpoint(prog, candidates, prim_atoms_of, success=(CT_T, CT_F)):
    """Least fixpoint: a function is authenticated if every Ok exit is behind a primitive check or
    the Ok edge of an already-authenticated callee.  candidates: iterable of Fn.
    Returns (auth_keys, results)."""
    auth = set()
    results = {}
    changed = True
    cands = list(candidates)
    while changed:
        changed = False
        for f in cands:
            if f.key in auth:
                continue
            r = auth_check(prog, f, prim_atoms_of(f), auth, success)
            results[f.key] = r
            if r.authenticated:
                auth.add(f.key)
                changed = True
    # final pass so that results reflect the final set
    for f in cands:
        results[f.key] = auth_check(prog, f, prim_atoms_of(f), auth, success)
    return auth, results


# --------------------------------------------------------------------------------------------
# Aliases of a `&mut` buffer parameter (derived mutable views)
# --------------------------------------------------------------------------------------------

# functions that only re-slice / re-type a buffer (return a view derived from their first argument)
RESLICE = {
    "std::ops::IndexMut::index_mut", "std::ops::Index::index",
    "core::slice::<impl [T]>::split_at_mut", "core::slice::<impl [T]>::split_at",
    "std::ops::DerefMut::deref_mut", "std::ops::Deref::deref",
    "std::convert::AsMut::as_mut", "std::convert::AsRef::as_ref",
    "core::slice::<impl [T]>::as_mut_ptr", "core::slice::<impl [T]>::as_ptr",
    "core::slice::<impl [T]>::len", "core::slice::<impl [T]>::is_empty",
    "std::vec::Vec::<T, A>::as_mut_slice", "std::vec::Vec::<T, A>::as_slice",
    "std::vec::Vec::<T, A>::len", "std::vec::Vec::<T, A>::is_empty",
    "std::vec::Vec::<T, A>::as_mut_ptr", "std::vec::Vec::<T, A>::as_ptr",
    "types::MutByteArray::as_mut_array", "types::ByteArray::as_array",
    "types::MutBytes::as_mut_slice", "types::Bytes::as_slice", "types::Bytes::len",
    "types::Bytes::is_empty",
    "generic_array::GenericArray::<T, N>::from_mut_slice", "generic_array::GenericArray::<T, N>::from_slice",
    "core::slice::<impl [T]>::first_mut", "core::slice::<impl [T]>::last_mut",
    "core::slice::<impl [T]>::iter_mut", "core::slice::<impl [T]>::iter",
    "core::slice::<impl [T]>::chunks_exact_mut", "core::slice::<impl [T]>::chunks_mut",
    "std::convert::TryFrom::try_from", "std::convert::TryInto::try_into",
    "std::convert::From::from", "std::convert::Into::into",
    "std::result::Result::<T, E>::unwrap", "std::result::Result::<T, E>::expect",
    "std::option::Option::<T>::unwrap", "std::option::Option::<T>::expect",
    "std::option::Option::<T>::as_ref", "std::option::Option::<T>::as_mut",
    "types::MutByteArray::as_mut_array", "types::ByteArray::as_array",
}

ZEROERS = {
    "zeroize::Zeroize::zeroize",
}
FILL = "core::slice::<impl [T]>::fill"


def views_of(fn, roots):
    """Locals that are (possibly narrowed) views of the storage reachable through `roots`: closure
    under reborrow/move/cast/field projection and the RESLICE calls.  Returns {local: narrowed?}."""
    views = {r: False for r in roots}
    changed = True
    calls = fn.calls()
    assigns = list(fn.assigns())
    while changed:
        changed = False
        for b, i, s in assigns:
            dst = s["place"]
            if dst["p"]:
                continue
            rv = s["rv"]
            src = None
            narrowed = False
            if rv["k"] == "use" and rv["x"].get("k") in ("copy", "move"):
                src = rv["x"]
            elif rv["k"] in ("ref", "rawptr"):
                src = rv["place"]
            elif rv["k"] == "cast" and rv["x"].get("k") in ("copy", "move"):
                src = rv["x"]
            elif rv["k"] == "agg" and rv.get("agg") in ("closure", "tuple"):
                # a closure environment / tuple holding a view carries it (its fields are read back as
                # `(env.i)` in the folded-in closure body)
                held = [o for o in rv["ops"] if o.get("k") in ("copy", "move") and o["l"] in views and not o["p"]]
                if held and dst["l"] not in views:
                    views[dst["l"]] = any(views[o["l"]] for o in held)
                    changed = True
                continue
            if src is None or src["l"] not in views:
                continue
            for pe in src["p"]:
                if pe != "deref" and not (isinstance(pe, dict) and ("f" in pe or "variant" in pe)):
                    narrowed = True
            # a reference to a *local* root (not through deref) is a view only for refs
            nv = views[src["l"]] or narrowed
            if dst["l"] not in views:
                views[dst["l"]] = nv
                changed = True
            elif views[dst["l"]] and not nv:
                pass
        for c in calls:
            if c.path in RESLICE or c.rpath in RESLICE or (c.rkey in fn.prog.reslicers if fn.prog is not None else False):
                if c.args and c.args[0].get("k") in ("copy", "move") and c.args[0]["l"] in views:
                    if c.dest["l"] not in views and not c.dest["p"]:
                        nar = (c.rkey in fn.prog.narrowing_reslicers if (fn.prog is not None and c.rkey in fn.prog.reslicers) else True) and c.path not in (
                            "std::ops::DerefMut::deref_mut", "std::ops::Deref::deref",
                            "std::convert::AsMut::as_mut", "std::convert::AsRef::as_ref",
                            "types::MutBytes::as_mut_slice", "types::Bytes::as_slice",
                            "std::vec::Vec::<T, A>::as_mut_slice", "std::vec::Vec::<T, A>::as_slice")
                        views[c.dest["l"]] = views[c.args[0]["l"]] or nar
                        changed = True
    return views


# --------------------------------------------------------------------------------------------
# CLEAN
# --------------------------------------------------------------------------------------------

class CleanSummary:
    __slots__ = ("writes", "dirty_on_err", "events", "violations")

    def __init__(self):
        self.writes = False
        self.dirty_on_err = False
        self.events = []
        self.violations = []


class Clean:
    """For a function F and an output parameter P (a `&mut` buffer or scalar): is there a path on
    which P is written (and not zeroed afterwards) that ends in an Err exit?"""

    def __init__(self, prog, pure_extra=()):
        self.prog = prog
        self.memo = {}
        self.stack = set()
        self.pure = set(RESLICE) | set(pure_extra)

    def summary(self, fn, param):
        key = (fn.key, param)
        if key in self.memo:
            return self.memo[key]
        if key in self.stack:
            s = CleanSummary()
            s.writes = True
            s.dirty_on_err = True
            return s
        self.stack.add(key)
        # analysed with private helpers, closures of std combinators and callable values folded in (cleanup
        # written as `.map_err(|e| { out.zeroize(); e })` or `on_failure(res, || out.zeroize())` is cleanup)
        if fn.prog is not None and not getattr(fn, "inlined", None) and fn.kind != "closure":
            from .inline import inline
            fn = inline(fn.prog, fn)
        s = self._analyse(fn, param)
        self.stack.discard(key)
        self.memo[key] = s
        return s

    def _analyse(self, fn, param):
        prog = self.prog
        s = CleanSummary()
        views = views_of(fn, [param])
        events = []   # (bb, kind, atom, text)
        zero_blocks = set()
        for b, i, st in fn.assigns():
            pl = st["place"]
            if pl["l"] in views and "deref" in pl["p"]:
                events.append((b, "store", None, "store through `%s` at %s:%s" % (
                    fn.local_name(pl["l"]), fn.file, _ln(st))))
        for c in fn.calls():
            hit = [i for i, a in enumerate(c.args)
                   if a.get("k") in ("copy", "move") and a["l"] in views
                   and is_mut_ref_ty(fn.locals[a["l"]])]
            if not hit:
                continue
            if c.path in self.pure or c.rpath in self.pure or c.rkey in prog.reslicers:
                continue
            if c.path in ZEROERS or (c.path == FILL and _const_arg(c, 1) == 0):
                # zeroing of the whole buffer (not a narrowed view)?  narrowed views count as a
                # zero event only for that view; we accept whole-buffer zeroing only.
                if not views[c.args[hit[0]]["l"]]:
                    zero_blocks.add(c.bb)
                    continue
                events.append((c.bb, "store", None, "partial zeroing %s at %s" % (c.path, c.loc())))
                continue
            tg = prog.callee_fns(c)
            if tg:
                w = False
                d = False
                for t in tg:
                    for i in hit:
                        if i + 1 > t.argc:
                            continue
                        cs = self.summary(t, i + 1)
                        w = w or cs.writes
                        d = d or cs.dirty_on_err
                if d or (w and not all(returns_result(t) for t in tg)):
                    events.append((c.bb, "calld" if d else "store", c,
                                   "call %s at %s (%s)" % (c.rpath, c.loc(),
                                                           "dirty on Err" if d else "writes")))
                elif w:
                    events.append((c.bb, "callw", c, "call %s at %s (writes on Ok only)" % (c.rpath, c.loc())))
            else:
                events.append((c.bb, "store", None, "external writer %s at %s" % (c.path, c.loc())))
        s.events = events
        s.writes = bool(events)
        if not returns_result(fn) and not returns_option(fn):
            s.dirty_on_err = False
            return s
        exits = [(b, k, e) for (b, k, e) in result_kind_of_ret(fn) if k != "ok"]
        for (eb, kind, atom, text) in events:
            cut_edges = []
            if kind == "callw":
                g, bad = decisive_edges(fn, atom, OK, ERR)
                cut_edges = bad
            after = fn.reachable_from_after(eb, cut_blocks=zero_blocks, cut_edges=cut_edges)
            for (xb, xk, xe) in exits:
                if xb not in after and not (xb == eb and kind != "store"):
                    # the other order: the failing value was produced first (`let res = open(..); buf.rotate_left(n);
                    # res`) and the buffer is written while that value is on its way to the return
                    if xk == "err" and xb != eb and eb in fn.reachable_from_after(xb, cut_blocks=zero_blocks):
                        rets0_ = [b_ for b_ in range(fn.n) if fn.blocks[b_]["t"]["k"] == "return"]
                        if any(r_ in fn.reachable_from_after(eb, cut_blocks=zero_blocks) for r_ in rets0_):
                            s.violations.append((eb, xb, text, "the Err value produced at %s is returned after this write with no zeroing in between" % fn.loc(xb)))
                    continue
                if xb == eb and xb not in after:
                    # tail call `_0 = g(buf)`: Err exit is the callee's own Err
                    if kind == "callw":
                        continue
                    if kind == "calld":
                        s.violations.append((eb, xb, text, "callee leaves the buffer dirty on its own Err return"))
                        continue
                    continue
                if xk == "expr":
                    # exit whose Err-ness depends on call atoms: Err only if some atom A is Err.
                    # If A is a call that happens after/at the event and is itself clean-on-Err and
                    # unrelated to the buffer, the exit is still dirty.  If A is the event's own
                    # atom (callw), paths where A is Err never carried the write.
                    ats = atoms_of(xe)
                    if kind == "callw" and any(a.bb == atom.bb for a in ats):
                        v = evaluate(xe, {(fn.key, atom.bb): OK})
                        if isinstance(v, tuple) and v[0] == "res" and v[1] == "Ok":
                            continue
                    # could this expr be Err at all?
                    v = evaluate(xe, {})
                    if isinstance(v, tuple) and v[0] in ("res", "opt") and v[1] in ("Ok", "Some"):
                        continue
                    # exits of the form `_0 = r` where r is the result of a call A: Err only if A
                    # is Err; search only paths consistent with A = Err (good edges of A cut).
                    extra = []
                    for a in ats:
                        vv = evaluate(xe, {(fn.key, a.bb): OK})
                        if isinstance(vv, tuple) and vv[0] == "res" and vv[1] == "Ok":
                            g, bad = decisive_edges(fn, a, OK, ERR)
                            extra += g
                    if extra:
                        after2 = fn.reachable_from_after(eb, cut_blocks=zero_blocks,
                                                         cut_edges=list(cut_edges) + extra)
                        if xb not in after2:
                            continue
                # the Err value defined at xb must also reach a return without passing a zeroing (cleanup
                # that runs after the failing call returned, e.g. `if res.is_err() { out.zeroize() }`)
                rets_ = [b_ for b_ in range(fn.n) if fn.blocks[b_]["t"]["k"] == "return"]
                if fn.blocks[xb]["t"]["k"] != "return" and xb not in zero_blocks and \
                        not any(r_ in fn.reachable_from_after(xb, cut_blocks=zero_blocks) for r_ in rets_):
                    continue
                s.violations.append((eb, xb, text, "Err exit at %s reachable after the write with no zeroing in between" % fn.loc(xb)))
        s.dirty_on_err = bool(s.violations)
        return s


def _ln(st):
    ln = st.get("ln")
    if isinstance(ln, list):
        return ln[0]
    return ln


def _const_arg(c, i):
    if i < len(c.args) and c.args[i].get("k") == "const":
        return c.args[i].get("v")
    return None


# --------------------------------------------------------------------------------------------
# MUSTCALL / PROV / FORBID
# --------------------------------------------------------------------------------------------

def must_pass(fn, through_blocks, sink_block):
    """Every path entry -> sink passes through one of `through_blocks` (strictly before sink)."""
    tb = set(through_blocks) - {sink_block}
    if sink_block not in fn.reachable(0):
        return True
    return sink_block not in fn.reachable(0, cut_blocks=tb)


def arg_derives_from(fn, call, argi, source_locals):
    """Does argument argi of `call` lie in the forward slice of any of source_locals?"""
    a = call.args[argi]
    ls = operand_locals(a)
    if not ls:
        return False
    back = fn.backward_slice(ls)
    return bool(back & set(source_locals))


def arg_backslice(fn, call, argi):
    a = call.args[argi]
    ls = operand_locals(a)
    return fn.backward_slice(ls) if ls else set()


def calls_matching(fn, pred):
    return [c for c in fn.calls() if pred(c)]


def callee_is(c, *paths):
    return c.path in paths or c.rpath in paths


# --------------------------------------------------------------------------------------------
# REACH: call-graph reachability to a sink predicate, with witness chain
# --------------------------------------------------------------------------------------------

def reach_sinks_ctx(prog, roots, sink_calls_of):
    """Context-sensitive variant: generic parameters bound at call sites narrow trait fan-out."""
    out = []

    def visit(fn, binding, chain):
        for site, text in sink_calls_of(fn):
            out.append((list(chain), fn, text, site))
    prog.reach_ctx(roots, visit)
    return out


def reach_sinks(prog, roots, sink_calls_of, stop=lambda f: False):
    """sink_calls_of(fn) -> list of (Call|bb, text).  Returns list of (chain, fn, text, site)."""
    seen = prog.reach_fns(roots, stop)
    out = []
    for k in seen:
        f = prog.by_key[k]
        for site, text in sink_calls_of(f):
            out.append((prog.chain(seen, k), f, text, site))
    return out
