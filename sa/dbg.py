"""Interactive helper: python3 -i -m sa.dbg [repo]  (gives ctx, prog)"""
import sys
from .run import Ctx
from .inline import inline
from .rules import common as cm
repo = sys.argv[1] if len(sys.argv) > 1 else "/repo"
ctx = Ctx("quick", repo=repo)
prog = ctx.prog(sys.argv[2] if len(sys.argv) > 2 else "full")


def show(f, blocks=None):
    from .expr import deep_repr
    for b in range(f.n):
        if blocks is not None and b not in blocks:
            continue
        blk = f.blocks[b]
        print("bb%d%s %s" % (b, " (cleanup)" if blk["cleanup"] else "", blk.get("from", "")))
        for s in blk["s"]:
            if s["k"] == "assign":
                print("    ", s["place"], "=", s["rv"])
        t = blk["t"]
        if t["k"] == "call":
            print("    call", t["f"].get("r_path") or t["f"].get("path"), t["args"], "->", t["dest"], "t", t.get("t"))
        else:
            print("    ", {k: v for k, v in t.items() if k != "ln"})
