"""Run the checks against the seeded changes kept under /verif/seeded/<id>/.

Each seeded change is applied to a scratch copy of /repo's current tree (never to /repo itself), all
(or the named) checks are run against the copy with --no-evidence, and the scratch copy is removed.

usage: python3 -m sa.seeded [seed-id ...] [--props C02,C17] [--jobs N]
"""
import argparse
import json
import os
import shutil
import subprocess
import sys
import tempfile
from concurrent.futures import ThreadPoolExecutor
import queue

VERIF = os.path.dirname(os.path.dirname(os.path.abspath(__file__)))
REPO = os.environ.get("VERIF_REPO", "/repo")
ALL = ["C%02d" % i for i in range(1, 21) if i != 13]
DIR = "seeded"
SLOTS = queue.Queue()


def run_seed(args):
    sid, props = args
    d = os.path.join(VERIF, DIR, sid)
    patch = os.path.join(d, "patch.diff")
    meta = {}
    try:
        meta = json.load(open(os.path.join(d, "meta.json")))
    except Exception:
        pass
    tmp = tempfile.mkdtemp(prefix="dryoc-seed-")
    scratch = os.path.join(tmp, "repo")
    out = {"seed": sid, "breaks": meta.get("property"), "results": {}}
    slot = SLOTS.get()
    try:
        shutil.copytree(REPO, scratch, ignore=lambda d_, n: [x for x in n if x in (".git", "target")])
        r = subprocess.run(["patch", "-p1", "-s", "-i", patch], cwd=scratch, capture_output=True, text=True)
        if r.returncode != 0:
            out["error"] = "patch does not apply: " + (r.stdout + r.stderr)[-300:]
            return out
        env = dict(os.environ)
        env["VERIF_TARGET_DIR"] = os.path.join(VERIF, ".work", "target-ctl-%d" % (slot + int(os.environ.get("VERIF_SLOT_BASE", "0"))))
        for pid in props:
            r = subprocess.run([sys.executable, "-m", "sa.run", pid, "--repo", scratch, "--no-evidence"],
                               cwd=VERIF, env=env, capture_output=True, text=True)
            txt = r.stdout + r.stderr
            if os.environ.get("SEEDED_DEBUG"):
                open(os.path.join(os.environ["SEEDED_DEBUG"], "%s-%s.txt" % (sid, pid)), "w").write("slot %d\n" % slot + txt)
            if "does not build" in txt:
                out["results"][pid] = "nobuild"
            elif r.returncode == 1 and "VIOLATION" in txt:
                rules = sorted({l.split(":")[-1].strip() for l in txt.splitlines() if l.startswith("  ") and ": " in l and not l.startswith("      ")})
                inst = [l.strip()[len("instance: "):] for l in txt.splitlines() if l.strip().startswith("instance: ")]
                out["results"][pid] = "FIRED %s %s" % (rules[:3], inst[:1])
            elif r.returncode == 0:
                out["results"][pid] = "silent"
            else:
                out["results"][pid] = "error rc=%d %s" % (r.returncode, txt[-200:])
    finally:
        SLOTS.put(slot)
        shutil.rmtree(tmp, ignore_errors=True)
    return out


def main():
    ap = argparse.ArgumentParser()
    ap.add_argument("seeds", nargs="*")
    ap.add_argument("--props", default="")
    ap.add_argument("--jobs", type=int, default=4)
    ap.add_argument("--own", action="store_true", help="only run the check of the property the seed breaks")
    ap.add_argument("--dir", default="seeded", help="seeded (must fire) or refactors (behaviour-preserving: must stay silent)")
    a = ap.parse_args()
    global DIR
    DIR = a.dir
    sd = os.path.join(VERIF, a.dir)
    seeds = a.seeds or sorted(x for x in os.listdir(sd) if os.path.isdir(os.path.join(sd, x)))
    for i in range(a.jobs):
        SLOTS.put(i)
    jobs = []
    for s in seeds:
        props = [p.strip().upper() for p in a.props.split(",") if p.strip()] or ALL
        if a.own:
            try:
                props = [json.load(open(os.path.join(sd, s, "meta.json")))["property"]]
            except Exception:
                pass
        jobs.append((s, props))
    with ThreadPoolExecutor(max_workers=a.jobs) as ex:
        res = list(ex.map(run_seed, jobs))
    for r in res:
        fired = [p for p, v in r["results"].items() if v.startswith("FIRED")]
        own = r["results"].get(r.get("breaks") or "", "")
        print("%-34s breaks=%-4s own-check=%-7s fired-by=%s%s" % (
            r["seed"], r.get("breaks"), "FIRED" if own.startswith("FIRED") else (own or "-")[:7], ",".join(fired) or "none",
            "  ERROR " + r["error"] if r.get("error") else ""))
        for p in fired:
            print("      %s: %s" % (p, r["results"][p][6:200]))
        for p, v in r["results"].items():
            if not v.startswith("FIRED") and v != "silent":
                print("      %s: %s" % (p, v[:160]))
    return 0


if __name__ == "__main__":
    sys.exit(main())
