"""Discovery tool (not a check): mechanical single-site mutants of the non-primitive source files.
For each mutant: does it compile, does the repository's default test suite still pass, and do all
checks stay silent?  Survivors (tests pass AND no check fires) are listed for manual triage: each is
either an equivalent mutant, outside the stated properties, or a gap in the checks.

usage: python3 -m sa.mutate --jobs 12 [--files src/dryocbox.rs ...] [--limit N]   -> .work/mutants/report.tsv
"""
import argparse
import os
import re
import shutil
import subprocess
import sys
import tempfile
from concurrent.futures import ThreadPoolExecutor
from queue import Queue

VERIF = os.path.dirname(os.path.dirname(os.path.abspath(__file__)))
REPO = os.environ.get("VERIF_REPO", "/repo")
PROPS = ["C01", "C02", "C03", "C04", "C05", "C06", "C07", "C08", "C09", "C10", "C11", "C12", "C14", "C15", "C16", "C17", "C18", "C19", "C20"]

DEFAULT_FILES = [
    "src/classic/crypto_box.rs", "src/classic/crypto_box_impl.rs", "src/classic/crypto_secretbox.rs",
    "src/classic/crypto_secretbox_impl.rs", "src/classic/crypto_secretstream_xchacha20poly1305.rs",
    "src/classic/crypto_sign.rs", "src/classic/crypto_sign_ed25519.rs", "src/classic/crypto_kx.rs",
    "src/classic/crypto_kdf.rs", "src/classic/crypto_pwhash.rs", "src/classic/crypto_auth.rs",
    "src/classic/crypto_onetimeauth.rs", "src/classic/crypto_generichash.rs", "src/classic/generichash_blake2b.rs",
    "src/dryocbox.rs", "src/dryocsecretbox.rs", "src/dryocstream.rs", "src/sign.rs", "src/kx.rs", "src/kdf.rs",
    "src/pwhash.rs", "src/generichash.rs", "src/auth.rs", "src/onetimeauth.rs", "src/keypair.rs", "src/precalc.rs",
    "src/rng.rs", "src/scalarmult_curve25519.rs", "src/types.rs", "src/argon2.rs",
    "src/protected.rs", "src/bytes_serde.rs", "src/poly1305/poly1305_soft.rs", "src/blake2b/blake2b_soft.rs",
]

NIGHTLY_FILES = ("src/protected.rs", "src/bytes_serde.rs")
REL = {"<=": "<", ">=": ">", "==": "!=", "!=": "=="}
REL1 = {"<": "<=", ">": ">="}


SIBLINGS = {}


def load_siblings():
    """CRYPTO_X_FOO -> another CRYPTO_X_* usize constant with a different value (next in name order)"""
    txt = open(os.path.join(REPO, "src", "constants.rs")).read()
    vals = {}
    for m in re.finditer(r"pub const (CRYPTO_[A-Z0-9_]+): usize =\s*([^;]+);", txt):
        vals[m.group(1)] = m.group(2).strip()
    for _ in range(4):      # resolve aliases
        for k, v in list(vals.items()):
            if v in vals:
                vals[k] = vals[v]
    names = sorted(vals)
    for n in names:
        fam = "_".join(n.split("_")[:2])
        cands = [x for x in names if x.startswith(fam + "_") and x != n and vals[x] != vals[n] and vals[x] != n and "MAX" not in x and "MAX" not in n]
        if cands:
            later = [x for x in cands if x > n]
            SIBLINGS[n] = (later or cands)[0]


def sites(path, ops=None):
    """[(line number, description, new line)]"""
    out = []
    lines = open(path).read().split("\n")
    in_test = False
    for i, ln in enumerate(lines):
        if ln.startswith("#[cfg(test)]"):
            in_test = True
        if in_test:
            break
        st = ln.strip()
        if not st or st.startswith("//") or st.startswith("#[") or st.startswith("*") or st.startswith("use "):
            continue
        if ops and "lit" in ops:
            # an integer literal off by one (API layer only: arithmetic inside a primitive is value-level)
            if any(x in path for x in ("/poly1305/", "/blake2b/", "argon2.rs", "siphash", "sha512.rs", "scalarmult")):
                break
            if re.match(r"^\s*(pub(\([a-z]+\))? )?(type|const|static) ", ln) or "assert" in ln or "=>" in ln and "=> {" not in ln:
                continue
            for m in re.finditer(r"(?<![\w\.\"#])(\d+)(usize|u8|u32|u64)?(?![\w\.\"])", ln):
                v = int(m.group(1))
                if v > 4096 or ln[:m.start()].count('"') % 2 == 1:
                    continue
                out.append((i, "lit %d->%d" % (v, v + 1), ln[:m.start(1)] + str(v + 1) + ln[m.end(1):]))
            continue
        if ops and "swap" in ops:
            # two consecutive argument lines of a multi-line call exchanged
            nxt = lines[i + 1] if i + 1 < len(lines) else ""
            arg = r"^\s+[\w&\.\(\)\[\]:\* ]+,\s*$"
            if re.match(arg, ln) and re.match(arg, nxt) and ln.strip() != nxt.strip() and "=>" not in ln and ":" not in ln.replace("::", "") and ":" not in nxt.replace("::", ""):
                out.append((i, "swap-lines " + st[:30] + " <-> " + nxt.strip()[:30], (nxt + "\n" + ln, 2)))
            # adjacent arguments of a single-line call exchanged
            for m in re.finditer(r"\b([a-z_][a-z0-9_]*)\(", ln):
                if m.group(1) in ("if", "while", "match", "for", "fn", "format", "Some", "Ok", "Err") or re.search(r"\bfn\s+$", ln[:m.start()]):
                    continue
                k = m.end()
                from .permute import match_paren, split_top
                e = match_paren(ln, k)
                if e > len(ln) or ln[e - 1] != ")":
                    continue
                args = split_top(ln[k:e - 1])
                if len(args) < 2 or len(args) > 6:
                    continue
                for j in range(len(args) - 1):
                    if args[j].strip() == args[j + 1].strip():
                        continue
                    a2 = list(args)
                    a2[j], a2[j + 1] = " " + a2[j + 1].strip() if j else a2[j + 1].strip(), " " + a2[j].strip()
                    out.append((i, "swap-args %s #%d" % (m.group(1), j), ln[:k] + ",".join(a2) + ln[e - 1:]))
            continue
        if ops and "more" in ops:
            if re.match(r"^\s*(pub(\([a-z]+\))? )?(type|const|static) ", ln):
                continue
            # a validating call on its own line: `check(..)?;`
            if re.match(r"^\s*[\w:\.]+\([^;]*\)\?;\s*$", ln) and "let " not in ln:
                out.append((i, "delq " + st[:50], re.match(r"^\s*", ln).group(0) + "// (mutant: checked call removed)"))
            # a public constant replaced by a sibling constant of the same family
            for m in re.finditer(r"\bCRYPTO_[A-Z0-9_]+\b", ln):
                if re.match(r"^\s*CRYPTO_[A-Z0-9_]+,?\s*$", ln) or "<" + m.group(0) in ln or "{ " + m.group(0) in ln or "; " + m.group(0) + "]" in ln:
                    break       # an argument of an error message / a type argument
                sib = SIBLINGS.get(m.group(0))
                if sib:
                    out.append((i, "const %s->%s" % (m.group(0)[7:], sib[7:]), ln[:m.start()] + sib + ln[m.end():]))
            # `[..n]` <-> `[n..]`
            for m in re.finditer(r"\[\.\.([A-Za-z_][\w:]*)\]", ln):
                out.append((i, "range ..n->n..", ln[:m.start()] + "[" + m.group(1) + "..]" + ln[m.end():]))
            for m in re.finditer(r"\[([A-Za-z_][\w:]*)\.\.\]", ln):
                out.append((i, "range n..->..n", ln[:m.start()] + "[.." + m.group(1) + "]" + ln[m.end():]))
            continue
        # relational operators in conditions
        if re.search(r"\b(if|while)\b", ln) or re.search(r"\)\s*(<=|>=|==|!=|<|>)\s", ln):
            for m in re.finditer(r"\s(<=|>=|==|!=)\s", ln):
                out.append((i, "rel %s->%s" % (m.group(1), REL[m.group(1)]), ln[:m.start(1)] + REL[m.group(1)] + ln[m.end(1):]))
            for m in re.finditer(r"[\w\)\]]\s(<|>)\s[\w\(]", ln):
                if "->" in ln or "<" in ln and ">" in ln and "::<" in ln:
                    continue
                out.append((i, "rel %s->%s" % (m.group(1), REL1[m.group(1)]), ln[:m.start(1)] + REL1[m.group(1)] + ln[m.end(1):]))
            for m in re.finditer(r"\s(&&|\|\|)\s", ln):
                other = "||" if m.group(1) == "&&" else "&&"
                out.append((i, "bool %s->%s" % (m.group(1), other), ln[:m.start(1)] + other + ln[m.end(1):]))
        # statement deletion: effectful calls on their own line
        if re.match(r"^\s*[\w\.\[\]\(\)&\*: ]+\.(zeroize|update|fill|copy_from_slice|resize|extend_from_slice|clear|rotate_left|rotate_right|"
                    r"apply_keystream|seek|truncate|push)\(.*\);\s*$", ln) and "let " not in ln:
            out.append((i, "del " + st[:50], re.match(r"^\s*", ln).group(0) + "// (mutant: statement removed)"))
        # +1 / -1
        for m in re.finditer(r"\s([+-])\s1\b(?!\d)", ln):
            if "=>" in ln:
                continue
            out.append((i, "const %s1 removed" % m.group(1), ln[:m.start()] + ln[m.end():]))
    return out


def run_one(task):
    fn, lineno, desc, newline, slot, tgt_pool = task
    span = 1
    if isinstance(newline, tuple):
        newline, span = newline
    tmp = tempfile.mkdtemp(prefix="dryoc-mut-")
    root = os.path.join(tmp, "repo")
    res = {"file": fn, "line": lineno + 1, "desc": desc}
    try:
        shutil.copytree(REPO, root, ignore=lambda d_, n: [x for x in n if x in (".git", "target")])
        p = os.path.join(root, fn)
        lines = open(p).read().split("\n")
        lines[lineno:lineno + span] = newline.split("\n")
        open(p, "w").write("\n".join(lines))
        env = dict(os.environ, CARGO_NET_OFFLINE="true", CARGO_TARGET_DIR=os.path.join(VERIF, ".work", "target-mut-%d" % slot))
        cmd = ["cargo", "test", "--offline", "--quiet", "--lib", "--tests"]
        if fn in NIGHTLY_FILES:
            cmd = ["cargo", "+nightly", "test", "--offline", "--quiet", "--lib", "--tests", "--features", "nightly,serde,base64"]
        r = subprocess.run(cmd, cwd=root, env=env, capture_output=True, text=True)
        if r.returncode != 0:
            txt = r.stdout + r.stderr
            res["tests"] = "nobuild" if ("error[" in txt or "error:" in txt and "test failed" not in txt) else "killed"
            return res
        r2 = subprocess.run(["cargo", "+nightly", "check", "--offline", "--quiet", "--features", "nightly,serde,base64"], cwd=root, env=env, capture_output=True, text=True)
        if r2.returncode != 0:
            res["tests"] = "nobuild"
            return res
        res["tests"] = "pass"
        env2 = dict(os.environ, VERIF_TARGET_DIR=os.path.join(VERIF, ".work", "target-ctl-%d" % slot))
        fired = []
        for pid in PROPS:
            rr = subprocess.run([sys.executable, "-m", "sa.run", pid, "--repo", root, "--no-evidence"], cwd=VERIF, env=env2, capture_output=True, text=True)
            if rr.returncode != 0:
                rules = sorted({l.split(":")[-1].strip() for l in rr.stdout.splitlines() if l.startswith("  ") and ": " in l and not l.startswith("      ")})
                fired.append("%s%s" % (pid, rules[:2]))
        res["fired"] = fired
        return res
    finally:
        shutil.rmtree(tmp, ignore_errors=True)


def main():
    ap = argparse.ArgumentParser()
    ap.add_argument("--jobs", type=int, default=10)
    ap.add_argument("--files", nargs="*")
    ap.add_argument("--limit", type=int, default=0)
    ap.add_argument("--retry", default="")
    ap.add_argument("--ops", default="", help="'more' = second operator set only (checked-call removal, sibling constants, range flips)")
    ap.add_argument("--out", default=os.path.join(VERIF, ".work", "mutants", "report.tsv"))
    a = ap.parse_args()
    files = a.files or DEFAULT_FILES
    load_siblings()
    tasks = []
    for fn in files:
        p = os.path.join(REPO, fn)
        if not os.path.exists(p):
            continue
        for (i, d, nl) in sites(p, a.ops):
            tasks.append([fn, i, d, nl])
    if a.retry:
        # only the survivors of an earlier report (after the checks were strengthened)
        keep = set()
        for l in open(a.retry):
            r = l.rstrip("\n").split("\t")
            if len(r) >= 4 and r[3] == "pass" and (len(r) < 5 or not r[4]) and "zeroize" not in r[2] and "derive #" not in r[2]:
                keep.add((r[0], int(r[1]) - 1, r[2]))
        tasks = [t_ for t_ in tasks if (t_[0], t_[1], t_[2]) in keep]
    if a.limit:
        tasks = tasks[::max(1, len(tasks) // a.limit)][:a.limit]
    print("%d mutants" % len(tasks))
    os.makedirs(os.path.dirname(a.out), exist_ok=True)
    slots = Queue()
    for i in range(a.jobs):
        slots.put(i)

    def wrapped(t):
        s = slots.get()
        try:
            return run_one(t + [s, None])
        finally:
            slots.put(s)
    with open(a.out, "w") as fh, ThreadPoolExecutor(max_workers=a.jobs) as ex:
        for r in ex.map(wrapped, tasks):
            line = "%s\t%d\t%s\t%s\t%s" % (r["file"], r["line"], r["desc"], r.get("tests"), ",".join(r.get("fired", [])))
            fh.write(line + "\n")
            fh.flush()
    rows = [l.rstrip("\n").split("\t") for l in open(a.out)]
    k = {"nobuild": 0, "killed": 0, "caught": 0, "survived": 0}
    for r in rows:
        if r[3] in ("nobuild", "killed"):
            k[r[3]] += 1
        elif r[4]:
            k["caught"] += 1
        else:
            k["survived"] += 1
    print(k)
    return 0


if __name__ == "__main__":
    sys.exit(main())
