"""Entry point: python3 -m sa.run <ID> [--tier quick|thorough] [--replay file]"""
import argparse
import fcntl
import hashlib
import importlib
import json
import os
import subprocess
import sys
import time

from .core import Program, AnchorError

VERIF = os.path.dirname(os.path.dirname(os.path.abspath(__file__)))
REPO = os.environ.get("VERIF_REPO", "/repo")
WORK = os.path.join(VERIF, ".work")
DRIVER = os.path.join(VERIF, "driver", "target", "release", "dryoc-facts")

CONFIGS = {
    "default": "",
    "full": "nightly,serde,base64",
    "simd": "nightly,simd_backend,serde,base64",
    "serde": "serde",
    "base64": "base64",
    "nightly": "nightly",
}


def source_digest(repo):
    h = hashlib.sha256()
    files = []
    for root, dirs, fs in os.walk(repo):
        dirs[:] = [d for d in dirs if d not in (".git", "target")]
        for f in fs:
            if f.endswith((".rs", ".toml", ".lock")):
                files.append(os.path.join(root, f))
    for p in sorted(files):
        h.update(os.path.relpath(p, repo).encode())
        with open(p, "rb") as fh:
            h.update(fh.read())
    try:
        with open(DRIVER, "rb") as fh:
            h.update(hashlib.sha256(fh.read()).digest())
    except OSError:
        h.update(b"nodriver")
    return h.hexdigest()[:20]


class BuildFailed(Exception):
    def __init__(self, config, log):
        Exception.__init__(self, "configuration %s does not build (log: %s)" % (config, log))
        self.config = config
        self.log = log


class Ctx:
    def __init__(self, tier, repo=REPO, use_cache=True):
        self.tier = tier
        self.repo = repo
        self.use_cache = use_cache and os.environ.get("VERIF_NO_CACHE") != "1"
        self.digest = source_digest(repo)
        self._progs = {}
        self.extractions = []   # (config, 'fresh'|'cache', seconds)
        self.verif = VERIF

    def facts_path(self, config):
        return os.path.join(WORK, "facts", "%s-%s.json" % (self.digest, config))

    def prog(self, config="full"):
        config = getattr(self, "alias", {}).get(config, config)
        if config in self._progs:
            return self._progs[config]
        out = self.facts_path(config)
        os.makedirs(os.path.dirname(out), exist_ok=True)
        t0 = time.time()
        os.makedirs(WORK, exist_ok=True)
        lock = open(os.path.join(WORK, "extract-%s-%s.lock" % (config, self.digest)), "w")
        fcntl.flock(lock, fcntl.LOCK_EX)
        try:
            if self.use_cache and os.path.exists(out) and os.path.getsize(out) > 0:
                self.extractions.append((config, "cache", 0.0))
            else:
                tgt = os.environ.get("VERIF_TARGET_DIR") or os.path.join(WORK, "target")
                start = time.time()
                r = subprocess.run([os.path.join(VERIF, "sa", "extract.sh"), self.repo, config,
                                    CONFIGS[config], out, tgt], capture_output=True, text=True)
                if r.returncode != 0:
                    raise BuildFailed(config, out + ".log")
                if not os.path.exists(out) or os.path.getmtime(out) < start - 1:
                    raise BuildFailed(config, out + ".log")
                self.extractions.append((config, "fresh", round(time.time() - t0, 1)))
                self._gc_facts(keep=out)
        finally:
            fcntl.flock(lock, fcntl.LOCK_UN)
            lock.close()
        p = Program(out)
        self._progs[config] = p
        return p

    def _gc_facts(self, keep):
        d = os.path.join(WORK, "facts")
        try:
            ents = sorted((os.path.getmtime(os.path.join(d, f)), f) for f in os.listdir(d))
        except OSError:
            return
        # keep the 120 most recent files (parallel control / seeded runs keep many trees in flight)
        for _, f in ents[:-120]:
            try:
                os.remove(os.path.join(d, f))
            except OSError:
                pass
        # lock files of extractions that finished long ago (one per source digest and configuration)
        try:
            now = time.time()
            for f in os.listdir(WORK):
                if f.startswith("extract-") and f.endswith(".lock"):
                    fp = os.path.join(WORK, f)
                    if now - os.path.getmtime(fp) > 6 * 3600:
                        os.remove(fp)
        except OSError:
            pass


def main(argv=None):
    ap = argparse.ArgumentParser()
    ap.add_argument("id")
    ap.add_argument("--tier", default=os.environ.get("VERIF_TIER", "quick"))
    ap.add_argument("--replay", default=None)
    ap.add_argument("--repo", default=REPO)
    ap.add_argument("--no-evidence", action="store_true")
    args = ap.parse_args(argv)
    pid = args.id.upper()
    tier = args.tier if args.tier in ("quick", "thorough") else "quick"
    from . import report
    t0 = time.time()
    ctx = Ctx(tier, repo=args.repo, use_cache=(tier == "quick"))
    rep = report.Report(pid, tier, ctx)
    try:
        mod = importlib.import_module("sa.rules.%s" % pid.lower())
    except ImportError as e:
        print("no rule module for %s: %s" % (pid, e))
        return 2
    try:
        mod.run(ctx, rep)
    except BuildFailed as e:
        rep.violation("BUILD", "configuration:%s" % e.config,
                      "the %s feature configuration of /repo does not build; every clause decided on "
                      "it fails closed" % e.config, loc=e.log)
    except AnchorError as e:
        rep.violation("ANCHOR", "anchor:%s" % str(e)[:80],
                      "a public-API/external anchor is missing: %s (fail closed)" % e)
    except Exception as e:  # noqa: a rule that cannot analyse the tree does not pass it
        import traceback
        tb = traceback.extract_tb(e.__traceback__)[-1]
        rep.violation("ANALYSIS", "rule crashed:%s" % type(e).__name__,
                      "the rule could not analyse this tree (%s: %s at %s:%d) - failing closed" % (
                          type(e).__name__, str(e)[:120], os.path.basename(tb.filename), tb.lineno))
    if tier == "thorough" and hasattr(mod, "thorough"):
        try:
            mod.thorough(ctx, rep)
        except BuildFailed as e:
            rep.violation("BUILD", "configuration:%s" % e.config,
                          "the %s feature configuration of /repo does not build" % e.config, loc=e.log)
        except AnchorError as e:
            rep.violation("ANCHOR", "anchor:%s" % str(e)[:80], "anchor missing: %s" % e)
    if tier == "thorough" and not getattr(mod, "MULTI_CONFIG", False) and pid not in ("C18", "C20"):
        # rules written against the `full` configuration are re-run on the SIMD configuration
        # (nightly,simd_backend,serde,base64): same source, other cfg branches and BLAKE2b backend
        try:
            ctx.alias = {"full": "simd"}
            rep.tag = "[simd]"
            mod.run(ctx, rep)
        except BuildFailed as e:
            rep.violation("BUILD", "configuration:%s" % e.config, "the %s configuration does not build" % e.config, loc=e.log)
        except AnchorError as e:
            rep.violation("ANCHOR", "anchor[simd]:%s" % str(e)[:80], "anchor missing in the simd configuration: %s" % e)
        finally:
            ctx.alias = {}
            rep.tag = ""
    if tier == "thorough" and os.environ.get("VERIF_SKIP_CONTROLS") != "1" and args.repo == REPO:
        # controls: seeded breaks on a scratch copy must make this property's rules fire; behaviour-
        # preserving refactors must stay silent.  Evidence about the checker, not part of the verdict.
        try:
            from . import control
            cs = [c for c in control.load_controls() if c["property"] == pid]
            rs = control.run_many(cs, jobs=min(8, max(1, len(cs))))
            for r in rs:
                rep.controls.append({"name": r["name"], "status": r["status"], "seconds": r.get("seconds"),
                                     "expect": r.get("expect", ""), "detail": r.get("detail", "")[:200]})
            fired = sum(1 for r in rs if r["status"] == "fired")
            silent = sum(1 for r in rs if r["status"] == "silent")
            other = [r for r in rs if r["status"] not in ("fired", "silent")]
            print("   controls: %d fired, %d silent (behaviour-preserving), %d other %s" % (
                fired, silent, len(other), [(r["name"], r["status"]) for r in other]))
            rep.extra["controls_summary"] = {"fired": fired, "silent": silent, "other": [(r["name"], r["status"]) for r in other]}
        except Exception as e:  # noqa
            rep.note("controls could not be run: %s" % e)
    rep.wall = time.time() - t0
    return rep.finish(write=not args.no_evidence, replay=args.replay)


if __name__ == "__main__":
    sys.exit(main())
