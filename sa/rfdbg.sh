#!/bin/bash
# usage: sa/rfdbg.sh <refactor-id | seed-id> <PROP>...   -- apply a refactor to a scratch copy and show failing obligations
R="$1"; shift
D=/tmp/rfdbg-$R
if [ ! -d $D ]; then mkdir -p $D && cp -r /repo/src /repo/Cargo.toml /repo/Cargo.lock $D/ && [ -d /repo/tests ] && cp -r /repo/tests $D/; [ -d /repo/benches ] && cp -r /repo/benches $D/; P=/verif/refactors/$R/patch.diff; [ -f $P ] || P=/verif/seeded/$R/patch.diff; (cd $D && patch -p1 -s < $P); fi
cd /verif
for p in "$@"; do VERIF_TARGET_DIR=/verif/.work/target-ctl-9 python3 -m sa.run $p --repo $D --no-evidence 2>&1 | grep -E "^  src|^      |^C[0-9]+ " | grep -v "^      instance" | cut -c1-600; done
