"""Regenerates the seeded-change matrix in DESIGN.md (between the SEEDED-MATRIX markers) by running every
check against every seeded change:  python3 -m sa.matrix [--jobs N]"""
import json
import os
import re
import sys
from concurrent.futures import ThreadPoolExecutor

from . import seeded

VERIF = os.path.dirname(os.path.dirname(os.path.abspath(__file__)))


def main():
    jobs = 8
    if "--jobs" in sys.argv:
        jobs = int(sys.argv[sys.argv.index("--jobs") + 1])
    sd = os.path.join(VERIF, "seeded")
    seeds = sorted(x for x in os.listdir(sd) if os.path.isdir(os.path.join(sd, x)))
    for i in range(jobs):
        seeded.SLOTS.put(i)
    with ThreadPoolExecutor(max_workers=jobs) as ex:
        res = list(ex.map(seeded.run_seed, [(s, seeded.ALL) for s in seeds]))
    first = json.load(open(os.path.join(sd, "first_run.json")))
    rows = ["| seeded change | breaks | needs, to manifest | when it arrived | caught now by |", "|---|---|---|---|---|"]
    missed = 0
    for r in res:
        meta = json.load(open(os.path.join(sd, r["seed"], "meta.json")))
        fired = []
        for p, v in sorted(r["results"].items()):
            if v.startswith("FIRED"):
                m = re.match(r"FIRED (\[.*?\])", v)
                fired.append("%s %s" % (p, m.group(1) if m else ""))
        own = r["results"].get(meta["property"], "")
        if not own.startswith("FIRED"):
            missed += 1
        rows.append("| %s | %s | %s | %s | %s |" % (r["seed"], meta["property"], meta.get("needs_to_manifest", "")[:160].replace("|", "/"),
                                               first.get(r["seed"], "?"), "; ".join(fired) or "**nothing**"))
    table = "\n".join(rows) + "\n\n%d seeded changes, %d not caught by the check of the property they break.\n" % (len(res), missed)
    p = os.path.join(VERIF, "DESIGN.md")
    s = open(p).read()
    b, e = "<!-- SEEDED-MATRIX-BEGIN -->", "<!-- SEEDED-MATRIX-END -->"
    if b in s and e in s:
        s = s[:s.index(b) + len(b)] + "\n" + table + s[s.index(e):]
        open(p, "w").write(s)
    print(table)


if __name__ == "__main__":
    main()
