"""Analysis core over the fact files written by /verif/driver.

Everything here works on the resolved, type-checked program (MIR + resolved callees).  No rule in
this package looks at source text, line numbers, local names or block numbers to take a decision;
spans are used only to print diagnostics.
"""
import json
import re
from collections import defaultdict, deque


# --------------------------------------------------------------------------------------------
# Program model
# --------------------------------------------------------------------------------------------

def full_range_index(c):
    """`x[..]`: an Index/IndexMut call whose range operand is RangeFull (the whole view, not a narrowing)"""
    if c.path not in ("std::ops::Index::index", "std::ops::IndexMut::index_mut") or len(c.args) != 2:
        return False
    a = c.args[1]
    if a.get("k") == "const":
        return "RangeFull" in str(a.get("ty", "")) or "RangeFull" in str(a.get("txt", ""))
    if a.get("k") in ("copy", "move") and not a["p"]:
        return "RangeFull" in c.fn.locals[a["l"]].get("t", "")
    return False


class Call:
    __slots__ = ("fn", "bb", "f", "args", "dest", "target", "ln", "ctx_locals")

    def __init__(self, fn, bb, term):
        self.ctx_locals = None      # locals of the view under construction (set by the inliner)
        self.fn = fn
        self.bb = bb
        self.f = term["f"]
        self.args = term["args"]
        self.dest = term["dest"]
        self.target = term["t"]
        self.ln = term.get("ln")

    # declared callee path (trait method path for trait calls), e.g. subtle::ConstantTimeEq::ct_eq
    @property
    def path(self):
        return self.f.get("path", "<indirect>")

    # resolved callee path if the instance resolved, else declared
    @property
    def rpath(self):
        return self.f.get("r_path") or self.f.get("path", "<indirect>")

    @property
    def key(self):
        return self.f.get("key")

    @property
    def rkey(self):
        return self.f.get("r_key") or self.f.get("key")

    @property
    def full(self):
        return self.f.get("r_full") or self.f.get("full") or "<indirect>"

    @property
    def name(self):
        return self.f.get("name", "")

    @property
    def is_local(self):
        return bool(self.f.get("r_local") if "r_key" in self.f else self.f.get("local"))

    def line(self):
        ln = self.ln
        if isinstance(ln, list):
            return ln[0]
        return ln

    def loc(self):
        return "%s:%s" % (self.fn.blocks[self.bb].get("file", self.fn.file), self.line())

    def __repr__(self):
        return "<call %s @%s bb%d>" % (self.full[:80], self.loc(), self.bb)


def line_of(ln):
    if isinstance(ln, list):
        return ln[0]
    return ln


def from_expansion(ln):
    return isinstance(ln, list) and ln[1]


class _All:
    def __contains__(self, x):
        return True


_ALL = _All()


class Fn:
    def __init__(self, prog, j):
        self.prog = prog
        self.j = j
        self.key = j["key"]
        self.path = j["path"]
        self.kind = j["kind"]
        self.vis = j["vis"]
        self.name = j.get("name", "{closure}")
        self.file = j["span"]["file"]
        self.lo = j["span"]["lo"]
        self.hi = j["body_span"]["hi"]
        self.argc = j["argc"]
        self.locals = j["locals"]
        self.blocks = j["blocks"]
        self.impl_key = j.get("impl")
        self.parent = j.get("parent")
        self.n = len(self.blocks)
        self._succ = None
        self._pred = None
        self._dom = None
        self._calls = None
        self._deriv = None
        self.argnames = {}
        self.varnames = defaultdict(list)
        self._promoted = {}
        for nm in j.get("names", []):
            if not nm["place"]["p"]:
                self.varnames[nm["place"]["l"]].append(nm["name"])
            if nm["arg"] is not None and not nm["place"]["p"]:
                self.argnames[nm["place"]["l"]] = nm["name"]

    def __repr__(self):
        return "<fn %s>" % self.path

    def promoted(self, idx):
        """Mini-Fn for a promoted constant body of this function."""
        if idx in self._promoted:
            return self._promoted[idx]
        for pj in self.j.get("promoted", []):
            if pj["idx"] == idx:
                j = {"key": "%s::{promoted#%d}" % (self.key, idx), "path": "%s::{promoted#%d}" % (self.path, idx),
                     "kind": "promoted", "vis": "n/a", "span": self.j["span"], "body_span": self.j["body_span"],
                     "argc": 0, "locals": pj["locals"], "blocks": pj["blocks"], "names": []}
                self._promoted[idx] = Fn(self.prog, j)
                return self._promoted[idx]
        self._promoted[idx] = None
        return None

    def loc(self, bb=None):
        if bb is None:
            return "%s:%d" % (self.file, self.lo)
        t = self.blocks[bb]["t"]
        ln = t.get("ln")
        if ln is None and self.blocks[bb]["s"]:
            ln = self.blocks[bb]["s"][-1].get("ln")
        return "%s:%s" % (self.blocks[bb].get("file", self.file), line_of(ln) if ln is not None else self.lo)

    def local_name(self, l):
        if l in self.varnames:
            return self.varnames[l][0]
        return "_%d" % l

    def arg_local(self, name):
        for l, n in self.argnames.items():
            if n == name:
                return l
        return None

    def local_ty(self, l):
        return self.locals[l]

    # ---- CFG -------------------------------------------------------------------------------
    def term(self, b):
        return self.blocks[b]["t"]

    def succ_of(self, b, unwind=False):
        t = self.blocks[b]["t"]
        k = t["k"]
        out = []
        if k == "goto":
            out.append(t["t"])
        elif k == "switch":
            for _, tb in t["arms"]:
                out.append(tb)
            out.append(t["otherwise"])
        elif k in ("call", "drop", "assert"):
            if t.get("t") is not None:
                out.append(t["t"])
            if unwind and t.get("unwind") is not None:
                out.append(t["unwind"])
        return out

    @property
    def succ(self):
        if self._succ is None:
            self._succ = [list(dict.fromkeys(self.succ_of(b))) for b in range(self.n)]
        return self._succ

    @property
    def pred(self):
        if self._pred is None:
            p = [[] for _ in range(self.n)]
            for b in range(self.n):
                for s in self.succ[b]:
                    p[s].append(b)
            self._pred = p
        return self._pred

    def edges(self):
        for b in range(self.n):
            for s in self.succ[b]:
                yield (b, s)

    # ---- feasibility: values with several definitions tested by a later switch ------------------
    @property
    def merges(self):
        """Infeasible-path pruning table.  For locals with several whole definitions (a
        `let r = match .. {..}` merge, the return place of an inlined helper, the result of an expanded
        combinator) and a later switch whose discriminant is a pure function of them (`match r`, `r?`,
        `if r.is_err()`), the arm taken is determined by which definitions executed last.  Returns
        (locals, switches): locals = [(X, {def_block: def_index})], switches = {switch_block:
        (indices into locals, {tuple of def indices: target})}; reachability tracks the last definition
        per X and follows only the matching arm.  A switch is entered in the table only if no definition
        of an involved local can execute between the point where it is read and the switch."""
        if getattr(self, "_merges", None) is not None:
            return self._merges
        self._merges = ([], {})
        try:
            from .expr import expr_of_operand, evaluate, switch_target, UNK
        except ImportError:
            return self._merges
        import itertools
        locs = []
        index = {}
        switches = {}
        for sb in range(self.n):
            t = self.blocks[sb]["t"]
            if t["k"] != "switch":
                continue
            e = expr_of_operand(self, t["x"])
            phi = {"seen": {}, "choice": {}}
            evaluate(e, {"__phi__": phi})
            # choosing a definition may expose further multi-definition locals: iterate to a fixpoint
            if not phi["seen"]:
                v0 = evaluate(e, {})
                tgt0 = switch_target(t, v0) if v0 is not UNK else None
                if tgt0 is not None:
                    switches[sb] = ((), {(): tgt0})      # switch on a constant: one live arm
                continue
            keys = []
            for _ in range(3):
                keys = sorted(k for k in phi["seen"] if k[0] == self.key)
                if len(keys) != len(phi["seen"]) or not keys or len(keys) > 5:
                    keys = []
                    break
                before = dict(phi["seen"])
                for combo in itertools.product(*[range(phi["seen"][k]) for k in keys]):
                    phi["choice"] = dict(zip(keys, combo))
                    evaluate(e, {"__phi__": phi})
                if phi["seen"] == before:
                    break
            if not keys:
                continue
            n_comb = 1
            for k in keys:
                n_comb *= phi["seen"][k]
            if n_comb > 96:
                continue
            arms = {}
            for combo in itertools.product(*[range(phi["seen"][k]) for k in keys]):
                phi2 = {"seen": {}, "choice": dict(zip(keys, combo))}
                v = evaluate(e, {"__phi__": phi2})
                tgt = switch_target(t, v) if v is not UNK else None
                if tgt is not None:
                    arms[combo] = tgt
            if not arms:
                continue
            # drop the locals the outcome does not depend on (e.g. a payload evaluated on the way)
            keep_ix = []
            for i in range(len(keys)):
                groups = {}
                for combo, tgt in arms.items():
                    groups.setdefault(combo[:i] + combo[i + 1:], set()).add(tgt)
                full = all(len([c for c in arms if c[:i] + c[i + 1:] == rest]) == phi["seen"][keys[i]] for rest in groups)
                if not (full and all(len(ts) == 1 for ts in groups.values())):
                    keep_ix.append(i)
            if not keep_ix:
                continue
            if len(keep_ix) < len(keys):
                arms = {tuple(c[i] for i in keep_ix): tgt for c, tgt in arms.items()}
                keys = [keys[i] for i in keep_ix]
            ok = True
            for k in keys:
                x = k[1]
                ds = def_sites(self, x)
                rb = self._read_block(t["x"], x)
                if rb is None and t["x"].get("k") in ("copy", "move") and t["x"]["l"] == x and not t["x"]["p"]:
                    rb = sb         # the switch reads the merged local itself (`if flag`)
                if rb is None:
                    ok = False
                    break
                defblocks = {d[0] for d in ds}
                between = self._plain_reach_after(rb, cut={rb}) if rb != sb else set()
                if any(d in between and sb in self._plain_reach(d, cut={rb}) for d in defblocks):
                    ok = False
                    break
            if not ok:
                continue
            idxs = []
            for k in keys:
                x = k[1]
                if x not in index:
                    index[x] = len(locs)
                    locs.append((x, {d[0]: i for i, d in enumerate(def_sites(self, x))}))
                idxs.append(index[x])
            switches[sb] = (tuple(idxs), arms)
        self._merges = (locs, switches)
        return self._merges

    @property
    def live_blocks(self):
        """blocks reachable from the entry along feasible edges (cached); while it is being computed
        every block counts as live"""
        lb = getattr(self, "_live", None)
        if lb is None:
            self._live = _ALL
            try:
                self._live = self.reachable(0)
            except Exception:
                self._live = _ALL
                raise
            lb = self._live
        return lb

    def _read_block(self, operand, x, depth=0):
        """block in which the value chain feeding `operand` reads local x"""
        if operand.get("k") not in ("copy", "move") or depth > 8:
            return None
        l = operand["l"]
        if l == x:
            return None if depth == 0 else -1
        ds = def_sites(self, l)
        if not ds or len(ds) > 4:
            return None
        found = []
        for b, kind, payload in ds:
            ops = []
            if kind == "call":
                ops = list(payload.args)
            else:
                rv = payload["rv"]
                if rv["k"] in ("ref", "rawptr", "discr"):
                    ops = [dict(rv["place"], k="copy")]
                else:
                    ops = rvalue_operands(rv)
            hit = None
            for o in ops:
                if o.get("k") in ("copy", "move") and o["l"] == x:
                    hit = b
            if hit is None:
                for o in ops:
                    r = self._read_block(o, x, depth + 1)
                    if r is not None and r != -1:
                        hit = r
                        break
            if hit is not None:
                found.append(hit)
        # x must be read at one place only on the way to the operand
        return found[0] if len(set(found)) == 1 else None

    def _plain_reach(self, start, cut=()):
        seen = {start}
        q = deque([start])
        while q:
            b = q.popleft()
            for s_ in self.succ[b]:
                if s_ not in seen and s_ not in cut:
                    seen.add(s_)
                    q.append(s_)
        return seen

    def _plain_reach_after(self, b, cut=()):
        out = set()
        for s_ in self.succ[b]:
            if s_ not in cut:
                out |= self._plain_reach(s_, cut)
        return out

    def _step(self, b, st):
        """(state after leaving b, feasible successors of b in that state)"""
        locs, switches = self.merges
        if not locs and not switches:
            return st, self.succ[b]
        st2 = st
        for i, (x, dm) in enumerate(locs):
            if b in dm:
                st2 = st2[:i] + (dm[b],) + st2[i + 1:]
        succ = self.succ[b]
        if b in switches:
            idxs, arms = switches[b]
            combo = tuple(st2[i] for i in idxs)
            # definitions not executed on this path are unconstrained: prune when every combination
            # consistent with what is known agrees on the arm
            cands = {tgt for c_, tgt in arms.items() if all(k_ is None or k_ == x_ for k_, x_ in zip(combo, c_))}
            full = len([c_ for c_ in arms if all(k_ is None or k_ == x_ for k_, x_ in zip(combo, c_))])
            need = 1
            for i_, k_ in zip(idxs, combo):
                if k_ is None:
                    need *= len(locs[i_][1])
            if len(cands) == 1 and full == need and (not combo or any(k_ is not None for k_ in combo)):
                succ = [s_ for s_ in succ if s_ in cands]
        return st2, succ

    def reachable(self, start=0, cut_blocks=(), cut_edges=(), _state=None):
        """Blocks reachable from `start` along normal (non-unwind) feasible edges (see `merges`),
        never entering a block in cut_blocks and never taking an edge in cut_edges."""
        cut_blocks = set(cut_blocks)
        cut_edges = set(cut_edges)
        if start in cut_blocks:
            return set()
        ms = self.merges[0] or self.merges[1]
        if not ms:
            seen = {start}
            q = deque([start])
            while q:
                b = q.popleft()
                for s in self.succ[b]:
                    if s in seen or s in cut_blocks or (b, s) in cut_edges:
                        continue
                    seen.add(s)
                    q.append(s)
            return seen
        st0 = _state if _state is not None else (None,) * len(self.merges[0])
        seen = {(start, st0)}
        q = deque([(start, st0)])
        while q:
            b, st = q.popleft()
            st2, succ = self._step(b, st)
            for s in succ:
                if s in cut_blocks or (b, s) in cut_edges or (s, st2) in seen:
                    continue
                seen.add((s, st2))
                q.append((s, st2))
        return {b for b, _ in seen}

    def reachable_from_after(self, b, cut_blocks=(), cut_edges=()):
        """Blocks reachable from the *end* of block b (b itself only if on a cycle)."""
        out = set()
        cut_edges = set(cut_edges)
        st2, succ = self._step(b, (None,) * len(self.merges[0]))
        for s in succ:
            if (b, s) in cut_edges:
                continue
            out |= self.reachable(s, cut_blocks, cut_edges, _state=st2 if (self.merges[0] or self.merges[1]) else None)
        return out

    def path_between(self, src, dst, cut_blocks=(), cut_edges=()):
        cut_blocks = set(cut_blocks)
        cut_edges = set(cut_edges)
        st0 = (None,) * len(self.merges[0])
        prev = {(src, st0): None}
        q = deque([(src, st0)])
        end = None
        while q:
            b, st = q.popleft()
            if b == dst:
                end = (b, st)
                break
            st2, succ = self._step(b, st)
            for s in succ:
                if (s, st2) in prev or s in cut_blocks or (b, s) in cut_edges:
                    continue
                prev[(s, st2)] = (b, st)
                q.append((s, st2))
        if end is None:
            return None
        out = []
        cur = end
        while cur is not None:
            out.append(cur[0])
            cur = prev[cur]
        return out[::-1]

    @property
    def dom(self):
        """dom[b] = set of blocks dominating b (normal, feasible edges only)."""
        if self._dom is None:
            reach = self.reachable(0)
            if self.merges[0] or self.merges[1]:
                # with infeasible-path pruning: must-pass-through over the (block, merge state) product
                # graph; D(n) = {block(n)} | meet of D over the predecessors of n, and a block's
                # dominators are those common to all its product nodes
                st0 = (None,) * len(self.merges[0])
                nodes = {(0, st0): 0}
                order = [(0, st0)]
                preds = {0: []}
                i = 0
                while i < len(order):
                    b, st = order[i]
                    st2, succ = self._step(b, st)
                    for s_ in succ:
                        k = (s_, st2)
                        if k not in nodes:
                            nodes[k] = len(order)
                            order.append(k)
                            preds[nodes[k]] = []
                        preds[nodes[k]].append(i)
                    i += 1
                allb = frozenset(reach)
                D = [allb] * len(order)
                D[0] = frozenset([0])
                changed = True
                while changed:
                    changed = False
                    for n in range(1, len(order)):
                        new = None
                        for p_ in preds[n]:
                            new = D[p_] if new is None else (new & D[p_])
                        new = (new or frozenset()) | {order[n][0]}
                        if new != D[n]:
                            D[n] = new
                            changed = True
                dom = {}
                for n, (b, st) in enumerate(order):
                    dom[b] = set(D[n]) if b not in dom else (dom[b] & D[n])
                self._dom = dom
                return self._dom
            allb = set(reach)
            dom = {b: set(allb) for b in reach}
            dom[0] = {0}
            order = sorted(reach)
            changed = True
            while changed:
                changed = False
                for b in order:
                    if b == 0:
                        continue
                    ps = [p for p in self.pred[b] if p in reach]
                    new = set(allb)
                    for p in ps:
                        new &= dom[p]
                    new.add(b)
                    if new != dom[b]:
                        dom[b] = new
                        changed = True
            self._dom = dom
        return self._dom

    def edge_dominates(self, edge, b):
        """Every path entry -> b takes `edge` (u, v)."""
        u, v = edge
        if b not in self.reachable(0):
            return True
        return b not in self.reachable(0, cut_edges=[edge])

    # ---- statements and calls ------------------------------------------------------------------
    def calls(self):
        if self._calls is None:
            cs = []
            for b in range(self.n):
                t = self.blocks[b]["t"]
                if t["k"] == "call":
                    cs.append(Call(self, b, t))
            self._calls = cs
        return self._calls

    def call_at(self, b):
        t = self.blocks[b]["t"]
        if t["k"] == "call":
            return Call(self, b, t)
        return None

    def normal_blocks(self):
        return [b for b in range(self.n) if not self.blocks[b]["cleanup"]]

    def assigns(self):
        for b in range(self.n):
            for i, s in enumerate(self.blocks[b]["s"]):
                if s["k"] == "assign":
                    yield b, i, s

    # ---- flow-insensitive derivation ("may depend on") graph over locals -----------------------
    @property
    def deriv(self):
        """deriv[x] = set of locals that x may directly derive from (one step).  Assignments: the
        base local of the destination derives from every local mentioned on the right.  Calls: the
        destination derives from every argument; every argument that is (or derives by reborrow
        from) a `&mut` derives from every other argument (out-parameter convention)."""
        if self._deriv is None:
            d = defaultdict(set)
            for b, i, s in self.assigns():
                dst = s["place"]["l"]
                for l in rvalue_locals(s["rv"]):
                    d[dst].add(l)
                for pe in s["place"]["p"]:
                    if isinstance(pe, dict) and "idx" in pe:
                        d[dst].add(pe["idx"])
            for c in self.calls():
                al = [operand_locals(a) for a in c.args]
                flat = set()
                for a in al:
                    flat |= a
                d[c.dest["l"]] |= flat
                if "indirect" in c.f:
                    d[c.dest["l"]] |= operand_locals(c.f["indirect"])
                for i, a in enumerate(c.args):
                    if a.get("k") in ("copy", "move"):
                        ty = self.locals[a["l"]]
                        if is_mut_ref_ty(ty) and not a["p"]:
                            others = set()
                            for j, b2 in enumerate(al):
                                if j != i:
                                    others |= b2
                            d[a["l"]] |= others
            self._deriv = d
        return self._deriv

    def backward_slice(self, locals_):
        """All locals the given locals may derive from (reflexive, transitive); reference locals
        are linked to their referents in both directions so that writes through a `&mut` reach the
        underlying storage."""
        g = self._alias_closed_deriv()
        seen = set(locals_)
        q = deque(locals_)
        while q:
            x = q.popleft()
            for y in g.get(x, ()):
                if y not in seen:
                    seen.add(y)
                    q.append(y)
        return seen

    def forward_slice(self, locals_):
        g = self._alias_closed_deriv()
        rev = defaultdict(set)
        for x, ys in g.items():
            for y in ys:
                rev[y].add(x)
        seen = set(locals_)
        q = deque(locals_)
        while q:
            x = q.popleft()
            for y in rev.get(x, ()):
                if y not in seen:
                    seen.add(y)
                    q.append(y)
        return seen

    def _alias_closed_deriv(self):
        if getattr(self, "_acd", None) is None:
            g = defaultdict(set)
            for x, ys in self.deriv.items():
                g[x] |= ys
            # a `&mut` temp that derives from storage S and is then written through (out-param)
            # makes S derive from what the temp derives from: link mutable reborrows both ways.
            for b, i, s in self.assigns():
                rv = s["rv"]
                if rv["k"] in ("ref", "rawptr") and rv.get("mut"):
                    g[rv["place"]["l"]].add(s["place"]["l"])
                elif rv["k"] in ("use", "cast") and rv["x"].get("k") in ("copy", "move") and not s["place"]["p"]:
                    # moves / unsize coercions of `&mut` references keep pointing at the same storage
                    if is_mut_ref_ty(self.locals[s["place"]["l"]]) and ty_has_mut_ref(self.locals[rv["x"]["l"]]):
                        g[rv["x"]["l"]].add(s["place"]["l"])
                if rv["k"] == "use" and rv["x"].get("k") in ("copy", "move") and not s["place"]["p"] and len(rv["x"]["p"]) == 1 and \
                        isinstance(rv["x"]["p"][0], dict) and "f" in rv["x"]["p"][0] and is_mut_ref_ty(self.locals[s["place"]["l"]]):
                    # a `&mut` unpacked from a tuple / closure environment it was packed into (`call_once(f, (out,))`
                    # with the closure folded in) still points at the same storage
                    ds = def_sites(self, rv["x"]["l"])
                    if len(ds) == 1 and ds[0][1] == "assign" and ds[0][2]["rv"]["k"] == "agg" and not ds[0][2]["place"]["p"]:
                        ops = ds[0][2]["rv"].get("ops") or []
                        fi = rv["x"]["p"][0]["f"]
                        if isinstance(fi, int) and fi < len(ops) and isinstance(ops[fi], dict) and ops[fi].get("k") in ("copy", "move") \
                                and not ops[fi].get("p") and is_mut_ref_ty(self.locals[ops[fi]["l"]]):
                            g[ops[fi]["l"]].add(s["place"]["l"])
            # results of calls returning `&mut` (deref_mut, index_mut, as_mut_slice, split_at_mut..):
            for c in self.calls():
                dty = self.locals[c.dest["l"]]
                if ty_has_mut_ref(dty):
                    for a in c.args:
                        # (mutable iterators and adapters over them carry the `&mut` onwards)
                        if a.get("k") in ("copy", "move") and (is_mut_ref_ty(self.locals[a["l"]]) or any(
                                m in self.locals[a["l"]].get("t", "") for m in MUT_ITERS)):
                            g[a["l"]].add(c.dest["l"])
            self._acd = g
        return self._acd


def is_mut_ref_ty(ty):
    return ty.get("k") in ("ref", "ptr") and ty.get("mut")


MUT_ITERS = ("IterMut<", "ChunksMut<", "ChunksExactMut<", "RChunksMut<", "SplitMut<")


def ty_has_mut_ref(ty):
    t = ty.get("t", "")
    return "&mut " in t or "*mut " in t or any(m in t for m in MUT_ITERS)


def operand_locals(o):
    if o.get("k") in ("copy", "move"):
        out = {o["l"]}
        for pe in o["p"]:
            if isinstance(pe, dict) and "idx" in pe:
                out.add(pe["idx"])
        return out
    return set()


def place_locals(p):
    out = {p["l"]}
    for pe in p["p"]:
        if isinstance(pe, dict) and "idx" in pe:
            out.add(pe["idx"])
    return out


def rvalue_locals(rv):
    k = rv["k"]
    if k in ("use", "repeat", "cast", "unop"):
        return operand_locals(rv["x"])
    if k in ("ref", "rawptr", "discr"):
        return place_locals(rv["place"])
    if k == "binop":
        return operand_locals(rv["l"]) | operand_locals(rv["r"])
    if k == "agg":
        out = set()
        for o in rv["ops"]:
            out |= operand_locals(o)
        return out
    return set()


def rvalue_operands(rv):
    k = rv["k"]
    if k in ("use", "repeat", "cast", "unop"):
        return [rv["x"]]
    if k == "binop":
        return [rv["l"], rv["r"]]
    if k == "agg":
        return list(rv["ops"])
    return []


def const_val(o):
    if o.get("k") == "const":
        return o.get("v")
    return None


class Program:
    def __init__(self, path):
        with open(path) as fh:
            j = json.load(fh)
        self.j = j
        self.config = j.get("config")
        self.fns = [Fn(self, f) for f in j["fns"]]
        self.by_key = {f.key: f for f in self.fns}
        self.by_path = defaultdict(list)
        for f in self.fns:
            self.by_path[f.path].append(f)
        self.impls = j["impls"]
        self.impl_by_key = {i["key"]: i for i in self.impls}
        self.consts = {c["path"]: c for c in j["consts"]}
        self.adts = {a["path"]: a for a in j["adts"]}
        try:
            from . import expr as _expr
            _expr.ADTS.update(self.adts)
        except ImportError:
            pass
        self._callers = None
        self._callees = None
        self._children = None
        self._reslicers = None

    @property
    def reslicers(self):
        """Keys of crate-local functions that only return a (sub-)view of their first reference
        parameter: reference-typed result, no stores through parameters, and every call in the body is
        itself a pure view function.  Views pass through them (e.g. `state_counter(&mut nonce)`)."""
        if self._reslicers is None:
            from .engines import RESLICE
            res = set()
            changed = True
            while changed:
                changed = False
                for f in self.fns:
                    if f.key in res or f.kind == "closure" or f.argc < 1:
                        continue
                    rt = f.locals[0]
                    if rt.get("k") != "ref":
                        continue
                    if f.locals[1].get("k") != "ref":
                        continue
                    ok = True
                    for b, i, st in f.assigns():
                        if "deref" in st["place"]["p"] and st["place"]["l"] != 0:
                            ok = False
                            break
                    if ok:
                        for c in f.calls():
                            if f.blocks[c.bb]["cleanup"]:
                                continue
                            if c.path in RESLICE or c.rpath in RESLICE:
                                continue
                            if (c.rkey or "") in res:
                                continue
                            if c.path.startswith("core::panicking") or c.path.startswith("std::fmt") or c.path.startswith("core::fmt"):
                                continue
                            ok = False
                            break
                    if ok:
                        res.add(f.key)
                        changed = True
            self._reslicers = res
            NARROW = {"std::ops::IndexMut::index_mut", "std::ops::Index::index",
                      "core::slice::<impl [T]>::split_at_mut", "core::slice::<impl [T]>::split_at",
                      "core::slice::<impl [T]>::first_mut", "core::slice::<impl [T]>::last_mut"}
            nar = set()
            changed = True
            while changed:
                changed = False
                for k in res:
                    if k in nar:
                        continue
                    f = self.by_key[k]
                    for c in f.calls():
                        if f.blocks[c.bb]["cleanup"]:
                            continue
                        if ((c.path in NARROW or c.rpath in NARROW) and not full_range_index(c)) or (c.rkey in nar):
                            nar.add(k)
                            changed = True
                            break
            self._narrowing_reslicers = nar
        return self._reslicers

    @property
    def narrowing_reslicers(self):
        self.reslicers
        return self._narrowing_reslicers

    # closures belong to their parent function (rules treat a method and its closures as a unit)
    def children(self, fn):
        if self._children is None:
            ch = defaultdict(list)
            for f in self.fns:
                if f.kind == "closure" and f.parent in self.by_key:
                    ch[f.parent].append(f)
            self._children = ch
        out = []
        stack = [fn]
        while stack:
            x = stack.pop()
            for c in self._children.get(x.key, ()):
                out.append(c)
                stack.append(c)
        return out

    def unit(self, fn):
        return [fn] + self.children(fn)

    def find(self, suffix):
        """Functions whose def path equals or ends with ::suffix."""
        out = []
        for f in self.fns:
            if f.path == suffix or f.path.endswith("::" + suffix):
                out.append(f)
        return out

    def find1(self, suffix):
        r = self.find(suffix)
        if len(r) != 1:
            raise AnchorError("expected exactly one function %r, found %d" % (suffix, len(r)))
        return r[0]

    def fn_impl(self, fn):
        if fn.impl_key:
            return self.impl_by_key.get(fn.impl_key)
        return None

    # ---- call graph ---------------------------------------------------------------------------
    def callee_fns(self, call):
        """Crate-local function bodies a call may reach.  Resolved instance if any; unresolved
        trait-method calls on type parameters fan out to every crate-local impl of that method."""
        f = call.f
        if "r_key" in f:
            if f.get("r_local"):
                t = self.by_key.get(f["r_key"])
                return [t] if t else []
            return []
        if "key" in f:
            if f.get("local"):
                t = self.by_key.get(f["key"])
                if t is not None:
                    return [t]
            if f.get("trait"):
                cands = self.trait_method_impls(f["trait"], f.get("name"))
                return self.filter_by_bounds(call, cands)
        return []

    # ---- bound-aware fan-out ------------------------------------------------------------------
    MARKERS = ("std::marker::", "core::marker::")

    def _impl_index(self):
        if not hasattr(self, "_implements"):
            impls = defaultdict(set)
            blanket = defaultdict(list)
            for imp in self.impls:
                tr = imp.get("trait")
                if not tr:
                    continue
                st = imp["self_ty"]
                if st.get("k") == "param":
                    blanket[tr].append(imp)
                else:
                    impls[type_head(st["t"])].add(tr)
            self._implements = impls
            self._blanket = blanket
        return self._implements, self._blanket

    def type_implements(self, head, trait, depth=0):
        """Does the (crate-local or external) type constructor `head` implement `trait`, as far as
        the crate's impl table can tell?  Unknown cases answer True (over-approximate fan-out)."""
        if trait.startswith(self.MARKERS) or trait in ("std::any::Any",):
            return True
        impls, blanket = self._impl_index()
        if trait in impls.get(head, ()):
            return True
        local_trait = not trait.startswith(("std::", "core::", "alloc::")) and trait.split("::")[0] in self._local_mods()
        local_type = head.split("::")[0] in self._local_mods()
        for imp in blanket.get(trait, ()):
            if depth > 2:
                return True
            pname = imp["self_ty"].get("name")
            ok = True
            for lhs, b in parse_preds(imp.get("preds", [])):
                if lhs == pname and b != trait:
                    if not self.type_implements(head, b, depth + 1):
                        ok = False
                        break
            if ok:
                return True
        if local_trait:
            return False        # every impl of a crate-local trait is in the table
        if local_type:
            # external trait on a local type: orphan rule => the impl would be in this crate,
            # except for std blanket impls (From<T> for T, Into, Borrow, ToOwned, ...)
            if trait.split("<")[0] in ("std::convert::From", "std::convert::Into", "std::convert::TryFrom",
                                       "std::convert::TryInto", "std::borrow::Borrow", "std::borrow::BorrowMut",
                                       "std::borrow::ToOwned", "std::string::ToString"):
                return True
            return False
        return True

    def _local_mods(self):
        if not hasattr(self, "_lm"):
            self._lm = set(f.path.split("::")[0].lstrip("<") for f in self.fns if "::" in f.path and not f.path.startswith("<"))
            self._lm |= set(a.split("::")[0] for a in self.adts)
        return self._lm

    def filter_by_bounds(self, call, cands):
        f = call.f
        self_ty = f.get("self_ty")
        if not self_ty or not cands:
            return cands
        caller = call.fn
        gens = set(caller.j.get("generics", []))
        # closures inherit their parent's generics
        par = caller
        while par is not None and par.kind == "closure":
            par = self.by_key.get(par.parent)
            if par is not None:
                gens |= set(par.j.get("generics", []))
        preds = list(caller.j.get("preds", []))
        if par is not None and par is not caller:
            preds += par.j.get("preds", [])
        out = []
        if self_ty in gens:
            bounds = [b for lhs, b in parse_preds(preds) if lhs == self_ty and b != f["trait"]]
            for c in cands:
                imp = self.fn_impl(c)
                if imp is None or imp["self_ty"].get("k") == "param":
                    out.append(c)
                    continue
                head = type_head(imp["self_ty"]["t"])
                if all(self.type_implements(head, b) for b in bounds):
                    out.append(c)
            return out
        # structured self type mentioning parameters: unify heads and arguments
        want = parse_ty(self_ty)
        for c in cands:
            imp = self.fn_impl(c)
            if imp is None or imp["self_ty"].get("k") == "param":
                out.append(c)
                continue
            have = parse_ty(imp["self_ty"]["t"])
            if unify_ty(want, have, gens, set(imp.get("generics", []))):
                out.append(c)
        return out

    def trait_method_impls(self, trait, name):
        if not hasattr(self, "_tmi"):
            idx = defaultdict(list)
            for imp in self.impls:
                tr = imp.get("trait")
                if not tr:
                    continue
                for it in imp["items"]:
                    fn = self.by_key.get(it["key"])
                    if fn is not None:
                        idx[(tr, it["name"])].append(fn)
            # default methods in local traits
            self._tmi = idx
        return list(self._tmi.get((trait, name), ()))

    def build_callgraph(self):
        if self._callees is not None:
            return
        callees = defaultdict(set)
        callers = defaultdict(set)
        for f in self.fns:
            for c in f.calls():
                for t in self.callee_fns(c):
                    callees[f.key].add(t.key)
                    callers[t.key].add(f.key)
            # closures created in f are "called" by f (conservative: treat creation as a call edge)
            for b, i, s in f.assigns():
                rv = s["rv"]
                if rv["k"] == "agg" and rv.get("agg") == "closure":
                    k = rv.get("key")
                    if k in self.by_key:
                        callees[f.key].add(k)
                        callers[k].add(f.key)
            # fn items passed as values (e.g. map_err(Error::from))
            for c in f.calls():
                for a in c.args:
                    if a.get("k") == "const" and a.get("fn_key") in self.by_key:
                        callees[f.key].add(a["fn_key"])
                        callers[a["fn_key"]].add(f.key)
        self._callees = callees
        self._callers = callers

    def callees(self, fn):
        self.build_callgraph()
        return [self.by_key[k] for k in self._callees.get(fn.key, ())]

    def callers(self, fn):
        self.build_callgraph()
        return [self.by_key[k] for k in self._callers.get(fn.key, ())]

    def reach_fns(self, roots, stop=lambda f: False):
        """Functions reachable in the call graph from roots (inclusive).  `stop(f)` = do not
        descend into f (f itself is included)."""
        self.build_callgraph()
        seen = {}
        q = deque()
        for r in roots:
            if r.key not in seen:
                seen[r.key] = None
                q.append(r)
        while q:
            f = q.popleft()
            if stop(f):
                continue
            for k in self._callees.get(f.key, ()):
                if k not in seen:
                    seen[k] = f.key
                    q.append(self.by_key[k])
        return seen

    # ---- context-sensitive (generic-binding aware) reachability -----------------------------------
    def fn_type_params(self, fn):
        return [g for g in fn.j.get("generics", []) if not g.startswith("'")]

    def callee_fns_ctx(self, call, binding):
        """Like callee_fns, but an unresolved trait call whose Self type is a generic parameter of the
        caller bound (in this calling context) to a concrete type resolves to the impls for that type."""
        f = call.f
        if "r_key" in f or not f.get("trait") or not binding:
            return self.callee_fns(call)
        self_ty = f.get("self_ty")
        if not self_ty:
            return self.callee_fns(call)
        st = subst_ty(parse_ty(self_ty), binding)
        gens = set(self.fn_type_params(call.fn))
        if mentions(st, gens - set(binding)):
            return self.callee_fns(call)
        cands = self.trait_method_impls(f["trait"], f.get("name"))
        out = []
        for c in cands:
            imp = self.fn_impl(c)
            if imp is None:
                out.append(c)
                continue
            if imp["self_ty"].get("k") == "param":
                # blanket impl: applies if the concrete type satisfies the blanket's bounds
                head = type_head(ty_text(st))
                pname = imp["self_ty"].get("name")
                if all(self.type_implements(head, b) for lhs, b in parse_preds(imp.get("preds", [])) if lhs == pname and b != f["trait"]):
                    out.append(c)
                continue
            have = parse_ty(imp["self_ty"]["t"])
            if unify_ty(st, have, set(), set(imp.get("generics", []))):
                out.append(c)
        if not out:
            # never narrow to nothing: fall back to the context-insensitive answer
            return self.callee_fns(call)
        return out

    def bind_for(self, call, callee, binding):
        """Binding of the callee's type parameters induced by the generic arguments at this call site
        (after substituting the caller's own binding); only fully concrete arguments are bound."""
        targs = call.f.get("targs")
        if targs is None:
            return {}
        params = self.fn_type_params(callee)
        # for trait-method calls resolved to an impl method, generic args are those of the trait
        # method (Self first); use the resolved instance's arguments when available
        rfull = call.f.get("r_full")
        gens = set(self.fn_type_params(call.fn))
        out = {}
        if "r_key" in call.f and call.f.get("r_key") != call.f.get("key"):
            # resolved through a trait: recover impl parameters by unifying the impl self type
            imp = self.fn_impl(callee)
            st = call.f.get("self_ty")
            if imp is not None and st:
                want = subst_ty(parse_ty(st), binding)
                have = parse_ty(imp["self_ty"]["t"])
                collect_bindings(have, want, set(imp.get("generics", [])), out)
            own = [p for p in params if p not in (imp.get("generics", []) if imp else [])]
            rest = targs[1:] if st else targs
            for pn, ta in zip(own, rest[len(rest) - len(own):] if own else []):
                out[pn] = subst_ty(parse_ty(ta), binding)
        else:
            if len(params) != len(targs):
                return {}
            for pn, ta in zip(params, targs):
                out[pn] = subst_ty(parse_ty(ta), binding)
        return {k: v for k, v in out.items() if not mentions(v, gens - set(binding)) and not mentions(v, set(params))}

    def reach_ctx(self, roots, visit, max_states=20000, stop=None):
        """Context-sensitive DFS over (function, binding).  visit(fn, binding, chain) is called once
        per state.  Closures/fn items referenced by a function are entered with the same binding."""
        self.build_callgraph()
        seen = set()
        stack = [(r, {}, (r.path,)) for r in roots]
        n = 0
        while stack:
            fn, binding, chain = stack.pop()
            key = (fn.key, tuple(sorted((k, ty_text(v)) for k, v in binding.items())))
            if key in seen:
                continue
            seen.add(key)
            n += 1
            if n > max_states:
                raise AnchorError("context-sensitive reachability exceeded %d states" % max_states)
            visit(fn, binding, chain)
            if stop is not None and stop(fn):
                continue
            for c in fn.calls():
                for t in self.callee_fns_ctx(c, binding):
                    nb = self.bind_for(c, t, binding)
                    stack.append((t, nb, chain + (t.path,)))
                for a in c.args:
                    if a.get("k") == "const" and a.get("fn_key") in self.by_key:
                        t = self.by_key[a["fn_key"]]
                        stack.append((t, {}, chain + (t.path,)))
            for ch in self._children_of(fn):
                stack.append((ch, dict(binding), chain + (ch.path,)))
        return seen

    def _children_of(self, fn):
        self.children(fn)
        return self._children.get(fn.key, ())

    def chain(self, seen, key):
        out = []
        while key is not None:
            out.append(self.by_key[key].path)
            key = seen[key]
        return out[::-1]


def type_head(t):
    t = t.strip()
    while t.startswith("&"):
        t = t[1:].strip()
        if t.startswith("mut "):
            t = t[4:].strip()
    if t.startswith("["):
        return "[array]" if ";" in t else "[slice]"
    i = t.find("<")
    return t if i < 0 else t[:i]


def parse_preds(preds):
    out = []
    for p in preds:
        m = re.match(r"^([A-Za-z_][A-Za-z0-9_]*): ([A-Za-z_][A-Za-z0-9_:]*)", p)
        if m:
            out.append((m.group(1), m.group(2)))
    return out


def split_args(s):
    out, depth, cur = [], 0, ""
    for ch in s:
        if ch in "<[(":
            depth += 1
        elif ch in ">])":
            depth -= 1
        if ch == "," and depth == 0:
            out.append(cur.strip())
            cur = ""
        else:
            cur += ch
    if cur.strip():
        out.append(cur.strip())
    return out


def split_semi(s):
    depth = 0
    for i, ch in enumerate(s):
        if ch in "<[(":
            depth += 1
        elif ch in ">])":
            depth -= 1
        elif ch == ";" and depth == 0:
            return [s[:i], s[i + 1:]]
    return [s]


def ty_text(t):
    if not t[1]:
        return t[0]
    if t[0] == "[array]":
        return "[%s; %s]" % (ty_text(t[1][0]), ty_text(t[1][1]))
    if t[0] == "[slice]":
        return "[%s]" % ty_text(t[1][0])
    return "%s<%s>" % (t[0], ", ".join(ty_text(a) for a in t[1]))


def subst_ty(t, binding):
    if not t[1] and t[0] in binding:
        return binding[t[0]]
    return (t[0], [subst_ty(a, binding) for a in t[1]])


def mentions(t, names):
    if not t[1]:
        return t[0] in names
    return any(mentions(a, names) for a in t[1])


def parse_ty(t):
    """('head', [args]) for `path<args>`; leaves are ('text', [])."""
    t = t.strip()
    while t.startswith("&"):
        t = t[1:].strip()
        if t.startswith("mut "):
            t = t[4:].strip()
    if t.startswith("[") and t.endswith("]"):
        inner = t[1:-1]
        parts = split_semi(inner)
        if len(parts) == 2:
            return ("[array]", [parse_ty(parts[0]), (parts[1].strip(), [])])
        return ("[slice]", [parse_ty(inner)])
    i = t.find("<")
    if i < 0 or not t.endswith(">") or t.startswith("("):
        return (t, [])
    return (t[:i], [parse_ty(a) for a in split_args(t[i + 1:-1])])


def unify_ty(a, b, gens_a, gens_b):
    if not a[1] and a[0] in gens_a:
        return True
    if not b[1] and b[0] in gens_b:
        return True
    if a[0] != b[0]:
        # const generic expressions / differing spellings of the same const: be permissive for leaves
        if not a[1] and not b[1] and (a[0].isupper() or b[0].isupper() or a[0].isdigit() or b[0].isdigit()):
            return a[0].isdigit() == b[0].isdigit() and (not a[0].isdigit() or a[0] == b[0]) or not (a[0].isdigit() and b[0].isdigit())
        return False
    if len(a[1]) != len(b[1]):
        return True
    return all(unify_ty(x, y, gens_a, gens_b) for x, y in zip(a[1], b[1]))


def collect_bindings(pattern, concrete, params, out):
    if not pattern[1] and pattern[0] in params:
        out[pattern[0]] = concrete
        return
    if pattern[0] == concrete[0] and len(pattern[1]) == len(concrete[1]):
        for a, b in zip(pattern[1], concrete[1]):
            collect_bindings(a, b, params, out)


class AnchorError(Exception):
    """A public-API or external anchor the rule relies on was not found: fail closed."""


# --------------------------------------------------------------------------------------------
# small helpers used by many rules
# --------------------------------------------------------------------------------------------

def def_sites(fn, local):
    """(bb, kind, payload) for every definition of `local` as a whole."""
    out = []
    for b, i, s in fn.assigns():
        if s["place"]["l"] == local and not s["place"]["p"]:
            out.append((b, "assign", s))
    for c in fn.calls():
        if c.dest["l"] == local and not c.dest["p"]:
            out.append((c.bb, "call", c))
    return out


def single_def(fn, local):
    d = def_sites(fn, local)
    if len(d) == 1:
        return d[0]
    return None


def strip_reborrow(fn, local, depth=12):
    """Follow `x = &(*y)`, `x = move y`, `x = copy y`, unsize casts, `deref`/`as_ref`-like pure
    projections back to the local they come from.  Returns the chain of locals (first = input)."""
    chain = [local]
    cur = local
    for _ in range(depth):
        d = single_def(fn, cur)
        if d is None:
            break
        b, kind, payload = d
        nxt = None
        if kind == "assign":
            rv = payload["rv"]
            if rv["k"] == "use" and rv["x"].get("k") in ("copy", "move"):
                x = rv["x"]
                if all(pe == "deref" for pe in x["p"]):
                    nxt = x["l"]
            elif rv["k"] in ("ref", "rawptr"):
                pl = rv["place"]
                if all(pe == "deref" for pe in pl["p"]):
                    nxt = pl["l"]
            elif rv["k"] == "cast" and rv["x"].get("k") in ("copy", "move"):
                if rv["kind"].startswith("PointerCoercion") or rv["kind"] in ("PtrToPtr", "Transmute"):
                    x = rv["x"]
                    if all(pe == "deref" for pe in x["p"]):
                        nxt = x["l"]
        if nxt is None:
            break
        chain.append(nxt)
        cur = nxt
    return chain


def switch_edges(fn, b):
    """For a switch terminator return (cond_operand, {value: target}, otherwise)."""
    t = fn.blocks[b]["t"]
    if t["k"] != "switch":
        return None
    return t["x"], {v: tb for v, tb in t["arms"]}, t["otherwise"]


def bool_condition(fn, b):
    """If block b ends in a switch on a boolean local, return a description of how that boolean was
    computed in b (the comparison statement), else None.
    Result: dict(op=..., l=operand, r=operand, true_target, false_target) or
            dict(call=Call, true_target, false_target) when the bool is the result of a call whose
            target is b (handled by caller), or dict(local=..., ...)"""
    sw = switch_edges(fn, b)
    if sw is None:
        return None
    x, arms, otherwise = sw
    if x.get("k") not in ("copy", "move") or x["p"]:
        return None
    ty = fn.locals[x["l"]]["t"]
    if ty != "bool":
        return None
    if 0 not in arms:
        return None
    res = {"local": x["l"], "false_target": arms[0], "true_target": otherwise, "bb": b}
    # find defining statement in this block (last assignment to the local)
    for s in reversed(fn.blocks[b]["s"]):
        if s["k"] == "assign" and s["place"]["l"] == x["l"] and not s["place"]["p"]:
            res["def"] = s["rv"]
            break
    return res
