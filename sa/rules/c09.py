"""C09 — Argon2 password hashing: parameter guards, constants, cost conversion, H0 order, verify."""
from ..core import operand_locals
from ..engines import auth_fixpoint, returns_result
from ..expr import expr_of_operand, call_arg_exprs, evaluate, result_kind_of_ret, expr_of_local, deep_repr
from ..guards import edge_facts, facts_at, bounds, term_of
from . import common as cm
from . import consts
from .c07 import prim_atoms as cteq_param_vs_computed

EXPLANATION = (
    "GUARD: in crypto_pwhash (and crypto_pwhash_str) the Argon2 call is dominated by branch edges implying "
    "OPSLIMIT_MIN<=opslimit<=OPSLIMIT_MAX and MEMLIMIT_MIN<=memlimit<=MEMLIMIT_MAX, the bounds being read "
    "off the edges and compared with libsodium's constants; in the Argon2 context constructor every Ok exit "
    "is dominated by the range edges for output length (>=16), salt length (>=8), lanes (>=1), memory "
    "(>=8) and passes (>=1). CONST: CRYPTO_PWHASH_* equal libsodium's. PROV: convert_costs returns "
    "(opslimit as u32, (memlimit/1024) as u32) and its results are the (t, m) operands; lanes operand is 1. "
    "H0: the initial hash absorbs lanes, outlen, m, t, version, type, |pwd|, pwd, |salt|, salt in that "
    "dominance order, all little-endian. AUTH: PwHash::verify returns Ok only through a ct_eq between the "
    "stored hash and one recomputed from (password, stored salt, stored config). ROLE: at every crate-internal call "
    "edge, what the caller names a salt (parameter, named local or record field) is not passed where the callee "
    "expects the password, and vice versa.")
NOT_DECIDED = ("equality of the Argon2 output with RFC 9106 / libsodium for every parameter set (memory filling, "
               "addressing, variable-length hash H' are value-level).")

LIBSODIUM_BOUNDS = {"opslimit": ("crypto_pwhash_OPSLIMIT_MIN", "crypto_pwhash_OPSLIMIT_MAX"),
                    "memlimit": ("crypto_pwhash_MEMLIMIT_MIN", "crypto_pwhash_MEMLIMIT_MAX")}


def run(ctx, rep):
    rep.explanation = EXPLANATION
    rep.not_decided = NOT_DECIDED
    rep.trust("libsodium-sys bindings for CRYPTO_PWHASH_*; RFC 9106 minima (outlen>=4 in the RFC, libsodium/reference >=16; salt>=8; m>=8p; t>=1)")
    prog = ctx.prog("full")
    n = consts.compare(prog, rep, prefix_filter="CRYPTO_PWHASH")
    rep.floor("CRYPTO_PWHASH constants", n, 12)
    b = consts.load_bindings()
    for name in ("crypto_pwhash", "crypto_pwhash_str"):
        for f in prog.by_path.get("classic::crypto_pwhash::" + name, []):
            limits(rep, prog, f, b)
    context_guards(rep, prog)
    convert(rep, prog)
    # password and salt are both byte strings: what the caller names a salt never goes where the callee expects the
    # password, and vice versa (Argon2 hashes them at different positions of H0, so a swap changes every output)
    n_pw = cm.role_consistency(rep, prog, role_of_name=cm.pw_role_of_name, kind="input")
    rep.floor("password/salt call edges", n_pw, 10)
    h0(rep, prog)
    addressing(rep, prog)
    verify(rep, prog)
    _nw = cm.read_after_wipe(rep, ctx.prog("full"), ("classic::crypto_pwhash", "pwhash::", "argon2::"))
    rep.note("WIPE-ORDER: %d wipe(s) of local buffers checked in the password-hashing code" % _nw)


def limits(rep, prog, f, b):
    calls = [c for c in f.calls() if cm.is_argon2_call(prog, c)]
    if len(calls) != 1:
        rep.violation("ANCHOR", f.path + "|argon2 call", "expected one argon2_hash call, found %d" % len(calls), loc=f.loc())
        return
    c = calls[0]
    ef = edge_facts(f, cm.view_info)
    facts = facts_at(f, c.bb, ef)
    for pname, (lo_n, hi_n) in LIBSODIUM_BOUNDS.items():
        p = f.arg_local(pname)
        if p is None:
            ty_ = "u64" if pname == "opslimit" else "usize"
            cand = [q for q in cm.params_of(f) if f.locals[q]["t"] == ty_]
            p = cand[0] if len(cand) == 1 else None
        if p is None:
            rep.violation("ANCHOR", "%s|%s" % (f.path, pname), "parameter not found", loc=f.loc())
            continue
        lo, hi = bounds(("local", p), facts)
        wl, wh = b.get(lo_n), b.get(hi_n)
        if wh is None:
            # libsodium exposes this limit only as a function: fall back to dryoc's own constant
            own = prog.consts.get("constants::" + hi_n.upper(), {}).get("v")
            wh = int(own) if own is not None else None
            rep.note("%s is not in the bindings (function-only in libsodium); compared with dryoc's constant %s" % (hi_n, wh))
        rep.ob("GUARD", "%s|%s range" % (f.path, pname), lo == wl and hi == wh,
               "edges dominating the Argon2 call imply %s in [%s, %s]; libsodium accepts [%s, %s]" % (pname, lo, hi, wl, wh), loc=c.loc())
    # (t, m) operands derive from convert_costs, lanes == 1
    ax = call_arg_exprs(c)
    conv = [x for x in f.calls() if x.is_local and not x.dest["p"] and all(
        x.dest["l"] in f.backward_slice(operand_locals(c.args[i])) for i in (0, 1)) and x.bb != c.bb]
    ok = bool(conv) and all(conv[0].dest["l"] in f.backward_slice(operand_locals(c.args[i])) for i in (0, 1))
    rep.ob("PROV", f.path + "|(t,m) from convert_costs", ok, "t_cost and m_cost operands derive from convert_costs(opslimit, memlimit)", loc=c.loc())
    if conv:
        cv = conv[0]
        by_ty = lambda ty_: ([q for q in cm.params_of(f) if f.locals[q]["t"] == ty_] or [None])[0]
        # each argument is the caller's parameter of the same type (u64 = opslimit, usize = memlimit),
        # whatever the order of the conversion's own parameters
        gcv = prog.callee_fns(cv)
        ok2 = bool(gcv) and len(cv.args) == 2 and all(
            cm.view_info(f, list(operand_locals(cv.args[i_]))[0])[0] == by_ty(gcv[0].locals[i_ + 1]["t"]) for i_ in (0, 1) if operand_locals(cv.args[i_]))
        rep.ob("PROV", f.path + "|convert_costs(opslimit, memlimit)", ok2, "opslimit goes to the conversion's u64 parameter, memlimit to its usize parameter", loc=cv.loc())
        comps = [cm.conv_component(prog, e_)[0] for e_ in ax]
        # which argon2_hash parameter is t and which is m is established end to end (8.3: the roles flow
        # from here into the context and are checked against the RFC order in H0): here, each component
        # of the conversion is passed exactly once
        rep.ob("PROV", f.path + "|t is .0, m is .1", comps.count("t") == 1 and comps.count("m") == 1,
               "components of the conversion passed to Argon2: %s" % [c_ for c_ in comps if c_], loc=c.loc())
    lanes = [evaluate(e_, {}) for e_, a_ in zip(ax, c.args) if f.locals[list(operand_locals(a_))[0]]["t"] == "u32"] if False else \
        [v_ for v_ in (evaluate(e_, {}) for e_ in ax) if isinstance(v_, int) and not isinstance(v_, bool)]
    rep.ob("PROV", f.path + "|one lane", lanes == [1], "constant integer operand(s) of the Argon2 call: %s (the lane count must be the constant 1)" % lanes, loc=c.loc())


def _arg_role(g, arg, roles):
    """role of a call argument in caller g, given the roles of g's parameters"""
    e = expr_of_operand(g, arg)
    x = e
    while x is not None and x.k == "cast":
        x = x.a
    if x is not None and x.k == "field" and x.a.k == "call" and x.a.a.is_local:
        # (t, m) = convert(opslimit, memlimit), as a tuple or a small record
        comp, _cv = cm.conv_component(g.prog, x)
        inner = [_arg_role(g, a, roles) for a in x.a.a.args]
        if comp is not None and sorted(x_ for x_ in inner[:2] if x_) == ["m_cost", "t_cost"]:
            return "t_cost" if comp == "t" else "m_cost"
    v = evaluate(e, {})
    if v == 1 and not isinstance(v, bool):
        return "parallelism"
    ls = list(operand_locals(arg))
    if ls:
        root = cm.view_info(g, ls[0])[0]
        if root in roles:
            return roles[root]
    return None


def ctor_roles(prog, roots, ctor):
    """{role: parameter local of ctor}"""
    out = {}
    for r_ in roots:
        roles = {1: "output", 2: "password", 3: "salt", 4: "t_cost", 5: "m_cost"}
        frontier = [(r_, roles)]
        seen = set()
        while frontier:
            g, rl = frontier.pop()
            if g.key in seen:
                continue
            seen.add(g.key)
            for c in g.calls():
                for t in prog.callee_fns(c):
                    if not any(k == ctor.key for k in prog.reach_fns([t])):
                        continue
                    nr = {}
                    for i, a in enumerate(c.args):
                        ro = _arg_role(g, a, rl)
                        if ro:
                            nr[i + 1] = ro
                    if t.key == ctor.key:
                        for p_, ro in nr.items():
                            out.setdefault(ro, p_)
                    else:
                        frontier.append((t, nr))
    return out


def context_guards(rep, prog):
    # the validation function: reachable from crypto_pwhash, returns Result, and compares the output
    # length, salt length, lanes, memory and passes with constants (>= 8 range comparisons on parameters)
    roots = prog.by_path.get("classic::crypto_pwhash::crypto_pwhash", [])
    qual = []
    for k in prog.reach_fns(roots):
        g = prog.by_key[k]
        if g.locals[0].get("path") != "std::result::Result" or g.argc < 6:
            continue
        # comparisons in its own body or in validation helpers it calls with `?` (their Ok-postconditions)
        ef_ = edge_facts(g, cm.view_info)
        cmp_params = {str(x_) for fs_ in ef_.values() for op, l, r in fs_ for x_ in (l, r) if isinstance(x_, tuple) and x_[0] in ("len", "local")
                      and isinstance(x_[1], int) and 1 <= x_[1] <= g.argc}
        if len(cmp_params) >= 5:
            qual.append(g)
    qk = {g.key for g in qual}
    # the lowest such function (its callers inherit the facts through its own Ok-postcondition)
    fs = [g for g in qual if not any(h.key in qk and h.key != g.key for h in prog.callees(g))]
    if not fs:
        rep.violation("ANCHOR", "Argon2Context::new", "Argon2 parameter validation function not found")
        return
    f = fs[0]
    ef = edge_facts(f, cm.view_info)
    # roles of the constructor's parameters are propagated from the public, positional
    # crypto_pwhash(output, password, salt, opslimit, memlimit, algorithm) along the call chain (names of
    # private parameters are only a fallback)
    role_param = ctor_roles(prog, roots, f)
    for nm in ("output", "salt", "parallelism", "m_cost", "t_cost"):
        if nm not in role_param and f.arg_local(nm) is not None:
            role_param[nm] = f.arg_local(nm)
    missing = [nm for nm in ("output", "salt", "parallelism", "m_cost", "t_cost") if nm not in role_param]
    if missing:
        rep.violation("ANCHOR", "Argon2Context::new parameters", "cannot identify the %s parameter(s) of the validation function" % missing, loc=f.loc())
        return
    want = {"output": (("len", role_param["output"]), 16), "salt": (("len", role_param["salt"]), 8),
            "parallelism": (("local", role_param["parallelism"]), 1), "m_cost": (("local", role_param["m_cost"]), 8),
            "t_cost": (("local", role_param["t_cost"]), 1)}
    nok = 0
    for b, kind, e in result_kind_of_ret(f):
        if kind == "err" or b not in f.reachable(0):
            continue
        nok += 1
        facts = facts_at(f, b, ef)
        for name, (term, minimum) in want.items():
            lo, hi = bounds(term, facts)
            rep.ob("GUARD", "Argon2Context::new|%s >= %d" % (name, minimum), lo is not None and lo >= minimum and (name in ("parallelism", "t_cost", "m_cost") or lo == minimum),
                   "edges dominating the Ok exit imply %s >= %s (upper bound %s)" % (name, lo, hi), loc=f.loc(b))
    rep.floor("Ok exits of the Argon2 context constructor", nok, 1)
    # argon2_hash must go through the constructor with `?` before filling memory
    for g in prog.callers(f):
        for c in g.calls():
            if f not in prog.callee_fns(c):
                continue
            # the validated/hashed context carries the caller's own t, m and lanes: the scalar operands
            # are bare parameters of the caller (H0 must absorb the *requested* m, not the rounded one)
            for i, a in enumerate(c.args):
                ty = f.locals[i + 1]["t"]
                if ty not in ("u32", "u64", "usize"):
                    continue
                e = expr_of_operand(g, a)
                bare = e.k == "local" and 1 <= e.a <= g.argc
                same_name = bare    # which parameter it is: checked by role propagation above
                rep.ob("PROV", "%s|context operand `%s` is the caller's parameter" % (g.path, f.local_name(i + 1)), bare and same_name,
                       "operand for `%s` is %s" % (f.local_name(i + 1), deep_repr(e)[:80]), loc=c.loc())
        nc = [c for c in g.calls() if f in prog.callee_fns(c)]
        fill = [c for c in g.calls() if "fill" in c.rpath and c.is_local]
        from ..engines import OK, ERR
        from ..expr import decisive_edges
        ok = bool(nc) and bool(fill)
        if ok:
            good, bad = decisive_edges(g, nc[0], OK, ERR)
            ok = all(any(g.edge_dominates(e, c.bb) for e in good) for c in fill)
        rep.ob("GUARD", "argon2_hash|validated before filling", ok, "every memory-filling call is dominated by the Ok edge of the parameter validation", loc=g.loc())


def convert(rep, prog):
    convs = set()
    for r_ in prog.by_path.get("classic::crypto_pwhash::crypto_pwhash", []):
        a2 = [c for c in r_.calls() if cm.is_argon2_call(prog, c)]
        for c in r_.calls():
            if c.is_local and a2 and c.dest["l"] in r_.backward_slice(operand_locals(a2[0].args[0])) and c.dest["l"] in r_.backward_slice(operand_locals(a2[0].args[1])):
                for t_ in prog.callee_fns(c):
                    convs.add(t_.key)
    if not convs:
        rep.violation("ANCHOR", "cost conversion", "no crate function feeds both the t and m operands of the Argon2 call")
    for f in [prog.by_key[k] for k in convs]:
        e = expr_of_local(f, 0)
        ok = False
        txt = repr(e)
        if e.k == "agg" and e.c and len(e.c) == 2:
            a, b = e.c
            p_ops = 1 if f.locals[1].get("t") == "u64" else 2      # parameters by type, in either order
            p_mem = 3 - p_ops
            if cm.expr_leaf_locals(a) & {1, 2} == {p_mem}:
                a, b = b, a         # components in the other order: roles are by source parameter
            ok = (a.k == "cast" and a.a.k == "local" and a.a.a == p_ops and
                  b.k == "cast" and b.a.k in ("binop", "field"))
            # b: cast(Div(memlimit, 1024)) possibly through an overflow-free Div
            inner = b.a
            if inner.k == "binop":
                ok = ok and inner.a.startswith("Div") and inner.b.k == "local" and inner.b.a == p_mem and evaluate(inner.c, {}) == 1024
            txt = "(%r, %r)" % (a, b)
        rep.ob("PROV", "convert_costs = (opslimit as u32, (memlimit/1024) as u32)", ok, "returns %s" % txt, loc=f.loc())


def context_field_roles(prog, roots):
    """{field name of the Argon2 context record: role} - from the record literal in the constructor
    whose parameters' roles are propagated from the public crypto_pwhash signature"""
    best, best_path = {}, None
    for g in prog.fns:
        for b_, i_, st in g.assigns():
            rv = st["rv"]
            if rv["k"] == "agg" and rv.get("agg") == "adt" and rv.get("path", "").startswith("argon2::") and len(rv.get("fields", [])) >= 6:
                roles = ctor_roles(prog, roots, g)
                inv = {p_: r_ for r_, p_ in roles.items()}
                out = {}
                for nm, o in zip(rv["fields"], rv["ops"]):
                    ls = list(operand_locals(o))
                    root = cm.view_info(g, ls[0])[0] if ls else None
                    if root in inv:
                        out[nm] = inv[root]
                if len(out) > len(best):
                    best, best_path = out, rv["path"]
    return best, best_path


def h0(rep, prog):
    # H0: the lowest function below crypto_pwhash whose view (private helpers folded in) initialises
    # BLAKE2b and encodes >= 8 little-endian integers
    from ..inline import inline
    roots = prog.by_path.get("classic::crypto_pwhash::crypto_pwhash", [])
    is_up = lambda c: c.rpath.endswith("::State::update") and "blake2b" in c.rpath
    qual = {}
    for k in prog.reach_fns(roots):
        g = prog.by_key[k]
        if not g.path.lstrip("<").startswith("argon2::"):
            continue
        v = inline(prog, g)
        if any(c.rpath.endswith("::State::init") and "blake2b" in c.rpath for c in v.calls()) and \
                sum(1 for c in v.calls() if c.path.endswith("to_le_bytes")) >= 8 and any(is_up(c) for c in v.calls()):
            qual[k] = v
    fs = [v for k, v in qual.items() if not any(h.key in qual and h.key != k for h in prog.callees(prog.by_key[k]))]
    if not fs:
        rep.violation("ANCHOR", "H0", "no function below crypto_pwhash absorbs the Argon2 parameters into BLAKE2b")
        return
    f = fs[0]
    froles, ctx_path = context_field_roles(prog, roots)
    if len(froles) < 6:
        rep.violation("ANCHOR", "H0 context roles", "cannot establish the roles of the Argon2 context fields (found %s)" % froles, loc=f.loc())
        return
    # when the view builds the context itself, its fields resolve to the view's own parameters: their
    # roles come from the public crypto_pwhash signature as well
    base_f = getattr(f, "base", f)
    froles = dict(froles)
    for role_, p_ in ctor_roles(prog, roots, base_f).items():
        froles[("param", p_)] = role_
    ups = [c for c in f.calls() if is_up(c)]
    # an update inside `for x in [a, b, ..]` absorbs a, b, .. in order; updates not ordered by dominance
    # (alternatives in different arms) are taken one by one
    groups = []
    ordered = sorted(ups, key=lambda c: (len(f.dom.get(c.bb, ())), c.bb))
    seq = []
    for c in ordered:
        for x in cm.absorb_sequence(f, [c]) or []:
            seq.append((c, classify_h0(f, x.expr, froles), x[2]))
    want = ["lanes", "outlen", "m_cost", "t_cost", "version", "type", "pwdlen", "pwd", "saltlen", "salt"]
    got = []
    for c, l, anchor in seq:
        if l in want and l not in got:
            got.append(l)
    rep.ob("H0", "absorption order", got == want, "H0 absorbs %s; RFC 9106 order is %s" % (got, want), loc=f.loc())
    # each mandatory length/parameter update dominates the finalize
    fin = [c for c in f.calls() if c.rpath.endswith("::State::finalize")]
    if fin:
        for c, l, anchor in seq:
            if l in ("lanes", "outlen", "m_cost", "t_cost", "version", "type", "pwdlen", "saltlen"):
                rep.ob("H0", "%s unconditional" % l, anchor in f.dom.get(fin[0].bb, ()), "update(%s) dominates finalize" % l, loc=c.loc())
    le = all(c.path.endswith("to_le_bytes") for c in f.calls() if "_bytes" in c.path and c.path.split("::")[-1].startswith("to_"))
    rep.ob("H0", "little-endian", le, "all integer encodings are to_le_bytes", loc=f.loc())
    ini = [c for c in f.calls() if c.rpath.endswith("::State::init")]
    if ini:
        io_ = cm.blake2b_init_roles(prog, ini[0])["outlen"]
        rep.ob("H0", "digest length 64", evaluate(call_arg_exprs(ini[0])[io_], {}) == 64, "prehash digest length %r" % evaluate(call_arg_exprs(ini[0])[io_], {}), loc=ini[0].loc())


LEN_LABEL = {"output": "outlen", "password": "pwdlen", "salt": "saltlen", "secret": "secretlen", "ad": "adlen"}
INT_LABEL = {"parallelism": "lanes", "m_cost": "m_cost", "t_cost": "t_cost"}


DIVS = ("Div", "Rem")
DIV_CALLS = ("div_euclid", "rem_euclid", "checked_div", "checked_rem", "wrapping_div", "wrapping_rem", "div_floor")


def addressing(rep, prog):
    """ROUND: the memory size m' that the data-independent address generator absorbs (word 3 of its
    input block, RFC 9106 3.4.1.2 / libsodium generate_addresses) is m rounded *down to a multiple of
    4*lanes*: the value stored there must be computed through a division or remainder whose divisor
    depends on the lanes parameter (no function of (m, p) built without one can round).  The word is
    found by position in the input block, the record field and the constructor argument by data flow."""
    from ..inline import inline
    roots = prog.by_path.get("classic::crypto_pwhash::crypto_pwhash", [])
    ah = [cm.argon2_entry(prog)] if cm.argon2_entry(prog) is not None else []
    if not roots or not ah:
        rep.violation("ANCHOR", "argon2_hash", "crypto_pwhash / argon2::argon2_hash not found")
        return
    ah = ah[0]
    # 1. the address input block: constant-index stores 0..5 into one [u64] buffer
    field = None
    site = None
    for k in prog.reach_fns([ah]):
        g = prog.by_key[k]
        if g.kind == "closure":
            continue
        per = {}
        for b, i, st in g.assigns():
            pl = st["place"]
            idx = None
            for pe in pl["p"]:
                if isinstance(pe, dict) and "cidx" in pe:
                    idx = pe["cidx"]
                elif isinstance(pe, dict) and "idx" in pe:
                    idx = evaluate(expr_of_operand(g, {"k": "copy", "l": pe["idx"], "p": []}), {})
            if isinstance(idx, int) and not isinstance(idx, bool):
                per.setdefault(pl["l"], {})[idx] = (b, st)
        for base, m in per.items():
            if {0, 1, 2, 3, 4, 5} <= set(m):
                b, st = m[3]
                rv = st["rv"]
                x = rv.get("x")
                e = expr_of_operand(g, x) if x is not None else None
                while e is not None and e.k == "cast":
                    e = e.a
                if e is not None and e.k == "field":
                    field, site = e.b.split(".")[-1], (g, b)
        if field is None:
            # `let header = [pass, lane, slice, m', passes, type]; block.v[..6].copy_from_slice(&header)`
            for b, i, st in g.assigns():
                rv = st["rv"]
                if rv["k"] == "agg" and rv.get("agg") == "array" and len(rv.get("ops", [])) >= 6 and g.locals[st["place"]["l"]]["t"].startswith("[u64;"):
                    e = expr_of_operand(g, rv["ops"][3])
                    while e is not None and e.k == "cast":
                        e = e.a
                    if e is not None and e.k == "field":
                        field, site = e.b.split(".")[-1], (g, b)
    ctx_path = context_field_roles(prog, roots)[1]
    roles = ctor_roles(prog, roots, ah)
    par, mc = roles.get("parallelism"), roles.get("m_cost")
    g, b = site if site is not None else (ah, 0)

    def is_size(fn, o):
        ls = list(operand_locals(o))
        return bool(ls) and not o.get("p") and fn.locals[ls[0]]["t"] in ("u32", "u64", "usize")

    def judge(v, operand, fname, where, via):
        back = v.backward_slice(operand_locals(operand))
        if mc not in back:
            return 0                # not a memory-derived size
        rounded = []
        for bb, i_, st in v.assigns():
            rv = st["rv"]
            if st["place"]["l"] in back and rv["k"] in ("binop", "checked_binop") and rv.get("op") in DIVS:
                if par in v.backward_slice(operand_locals(rv["r"])):
                    rounded.append(v.loc(bb))
        for c2 in v.calls():
            if c2.dest and c2.dest["l"] in back and c2.name in DIV_CALLS and len(c2.args) == 2 and par in v.backward_slice(operand_locals(c2.args[1])):
                rounded.append(c2.loc())
        rep.ob("ROUND", "memory size `%s` of the instance is rounded to a multiple of 4*lanes" % fname, par is not None and bool(rounded),
               ("field `%s` (%s) is derived from the memory parameter through a division by a lanes-dependent value at %s"
                % (fname, via, rounded[:2])) if rounded else
               ("field `%s`%s is built from the memory parameter without any division/remainder by a lanes-dependent value: "
                "memory sizes that are not a multiple of 4*lanes hash differently from RFC 9106"
                % (fname, (" (absorbed as m' at %s)" % g.loc(b)) if field else "")), loc=where)
        return 1

    # 2. the record literal that sets the field (every memory-derived size of a record other than the
    # Argon2 context - which keeps the requested m for H0 - when the input block was not recognised),
    # 3. its value seen from argon2_hash: constructors folded into the view, or their call sites
    v = inline(prog, ah)
    nsites = 0
    folded = set(getattr(v, "inlined", []))
    for b_, i_, st in v.assigns():
        rv = st["rv"]
        if rv["k"] == "agg" and rv.get("agg") == "adt" and rv.get("path", "").startswith("argon2::") and rv.get("path") != ctx_path:
            for nm, o in zip(rv.get("fields", []), rv.get("ops", [])):
                if (field is None or nm == field) and is_size(v, o):
                    nsites += judge(v, o, nm, v.loc(b_), "record literal")
    for f in prog.fns:
        if f.path in folded or f.key == ah.key or f.kind == "closure":
            continue
        for b_, i_, st in f.assigns():
            rv = st["rv"]
            if rv["k"] == "agg" and rv.get("agg") == "adt" and rv.get("path", "").startswith("argon2::") and rv.get("path") != ctx_path:
                for nm, o in zip(rv.get("fields", []), rv.get("ops", [])):
                    if not ((field is None or nm == field) and is_size(f, o)):
                        continue
                    pk = cm.view_info(f, list(operand_locals(o))[0])[0]
                    if pk not in cm.params_of(f):
                        continue
                    for c in v.calls():
                        if any(t.key == f.key for t in prog.callee_fns(c)) and pk - 1 < len(c.args):
                            nsites += judge(v, c.args[pk - 1], nm, c.loc(), "constructor argument #%d" % pk)
    rep.floor("memory-derived sizes stored in the Argon2 instance record", nsites, 1)


def _field_role(e, froles):
    """role of the context field an expression projects (through unwrap/as_ref/deref adapters)"""
    d = 0
    while e is not None and d < 8:
        d += 1
        if e.k == "call" and e.a.name in ("unwrap", "expect", "as_ref", "deref", "as_slice", "unwrap_unchecked", "clone") and e.a.args:
            e = call_arg_exprs(e.a)[0]
            continue
        if e.k == "cast":
            e = e.a
            continue
        if e.k == "field" and e.b.split(".")[-1] in ("0",) and e.a.k == "field":
            e = e.a          # Some.0 of an Option field
            continue
        break
    if e is not None and e.k == "field":
        nm = e.b.split(".")[-1] if not e.b.endswith(".0") else e.b.split(".")[0]
        return froles.get(e.b) or froles.get(nm)
    if e is not None and e.k == "local":
        return froles.get(("param", e.a))
    return None


def classify_h0(f, e, froles):
    if e is None:
        return "other"
    while e.k == "cast":
        e = e.a
    if (e.k == "call" and e.a.path.endswith("to_le_bytes")) or (e.k == "apply" and e.a == "to_le_bytes"):
        x = call_arg_exprs(e.a)[0] if e.k == "call" else e.b[0]
        y = x
        while y.k == "cast":
            y = y.a
        ro = _field_role(y, froles)
        if ro in INT_LABEL:
            return INT_LABEL[ro]
        if y.k == "call" and y.a.name == "len" and y.a.args:
            ro = _field_role(call_arg_exprs(y.a)[0], froles)
            return LEN_LABEL.get(ro, "len?")
        v = evaluate(x, {})
        if v == 19:
            return "version"
        if v == 0 and not isinstance(v, bool):
            return "zero"
        if y.k in ("local", "discr"):
            return "type"
        if x.k == "const":
            return "version" if x.b and "VERSION" in str(x.b) else "const"
        return "le?"
    ro = _field_role(e, froles)
    if ro == "password":
        return "pwd"
    if ro == "salt":
        return "salt"
    return "other"


def verify(rep, prog):
    vs = cm.find_method(prog, "pwhash::PwHash", "verify")
    if not vs:
        rep.violation("ANCHOR", "PwHash::verify", "not found")
        return
    from ..inline import inline
    for v in [inline(prog, v_) for v_ in vs]:      # the comparison may sit in a closure / private helper
        cands = [prog.by_key[k] for k in prog.reach_fns([v]) if returns_result(prog.by_key[k])]

        def prims(f):
            out = []
            if f.key != v.key:
                return out
            for c in cm.ct_eq_calls(f):
                out.append(c)
            return out
        auth, results = auth_fixpoint(prog, [v], prims)
        rep.ob("AUTH", "PwHash::verify", v.key in auth, "Ok only behind the success edge of ct_eq(stored hash, recomputed hash)", loc=v.loc())
        for c in cm.ct_eq_calls(v):
            ex = call_arg_exprs(c)
            rs = [deep_repr(x) for x in ex]
            stored = any(".hash" in r and "_1" in r for r in rs)
            comp = [x for x in v.calls() if x.rpath.endswith("hash_with_salt")]
            recomputed = bool(comp) and any(comp[0].dest["l"] in v.backward_slice(operand_locals(a)) for a in c.args)
            rep.ob("AUTH", "PwHash::verify|operands", stored and recomputed,
                   "compares self.hash with the hash recomputed by hash_with_salt: %s" % rs, loc=c.loc())
            if comp:
                cx = [deep_repr(x) for x in call_arg_exprs(comp[0])]
                rep.ob("AUTH", "PwHash::verify|recompute inputs", any("salt" in x for x in cx) and any("config" in x for x in cx) and
                       2 in v.backward_slice(operand_locals(comp[0].args[0])),
                       "hash_with_salt(password, self.salt, self.config): %s" % cx, loc=comp[0].loc())
