"""C06 — Ed25519: strict verification (structural clauses)."""
from ..core import operand_locals
from ..engines import auth_check, auth_fixpoint, returns_result, Clean, SOME, NONE
from ..expr import expr_of_operand, call_arg_exprs, evaluate
from . import common as cm

D = "curve25519_dalek::"
MOD_ORDER = (D + "Scalar::from_bytes_mod_order",)
CANON = (D + "Scalar::from_canonical_bytes",)
WIDE = (D + "Scalar::from_bytes_mod_order_wide",)
DECOMP = (D + "edwards::CompressedEdwardsY::decompress",)
SMALL = (D + "EdwardsPoint::is_small_order",)
DSM = (D + "EdwardsPoint::vartime_double_scalar_mul_basepoint",)

PUBLIC_VERIFY = [
    ("classic::crypto_sign::crypto_sign_verify_detached",),
    ("classic::crypto_sign::crypto_sign_final_verify",),
    ("classic::crypto_sign::crypto_sign_open",),
    ("sign::SignedMessage", "verify"),
    ("sign::IncrementalSigner", "verify"),
]

EXPLANATION = (
    "In the function that decodes signature bytes (discovered as the crate function calling dalek's "
    "decompress and vartime_double_scalar_mul_basepoint): FORBID signature bytes reaching "
    "Scalar::from_bytes_mod_order; six AUTH obligations, each checked separately by removing that check's "
    "success edges and requiring every Ok exit to become unreachable: S decoded by from_canonical_bytes "
    "(Some edge), R and A decompress (Some edges), R and A not small order (false edges), final point "
    "equality (true edge) between vartime_double_scalar_mul_basepoint(k, -A, S) and R. PROV: k = "
    "from_bytes_mod_order_wide(SHA-512(R || A || M)) in that order; the dom2 prefix update is control-"
    "dependent on the pre-hashed flag, which is true exactly at the ph_final_* call sites. Callers: every "
    "Result-returning function reaching the verifier returns Ok only behind its Ok edge (fixpoint); "
    "crypto_sign_open copies the message only after verification (CLEAN).")
NOT_DECIDED = ("RFC 8032 byte-exactness and determinism of signing; libsodium's verdict on non-canonical point "
               "encodings (needs dalek's decompression semantics); that a flipped bit changes the hash.")


def get(prog, a):
    return prog.by_path.get(a[0], []) if len(a) == 1 else cm.find_method(prog, a[0], a[1])


def run(ctx, rep):
    rep.explanation = EXPLANATION
    rep.not_decided = NOT_DECIDED
    rep.trust("curve25519-dalek 4.1.3: from_canonical_bytes is None for S >= L; from_bytes_mod_order reduces; is_small_order; decompress")
    prog = ctx.prog("full")
    # the verifier: the lowest crate function from which both dalek's decompress and
    # vartime_double_scalar_mul_basepoint are reached; analysed with its private helpers folded in
    from ..inline import inline

    def reaches_both(f):
        cs = [c for k in prog.reach_fns([f]) for c in prog.by_key[k].calls()]
        return any(c.path in DSM for c in cs) and any(c.path in DECOMP for c in cs)
    both = [f for f in prog.fns if f.kind != "closure" and reaches_both(f)]
    bk = {f.key for f in both}
    # lowest: no other function reachable from it (through calls or its closures) reaches both
    vs = [f for f in both if not any(k in bk and k != f.key for k in prog.reach_fns([f]))]
    rep.floor("signature-decoding verifier functions", len(vs), 1)
    for v in vs:
        verifier(rep, prog, inline(prog, v))
    callers(rep, prog, vs)
    # combined mode: a signed message is signature || message, the empty message included: the openers
    # accept exactly the inputs of at least 64 bytes
    n = 0
    for path in ("classic::crypto_sign::crypto_sign_open",):       # its crate-private callee is folded into the view
        for f in prog.by_path.get(path, []):
            ps = [p for p in cm.params_of(f) if f.locals[p]["t"].replace("'_ ", "") == "&[u8]"]
            if len(ps) == 1:
                n += cm.accepts_min_len(rep, prog, f, ps[0], 64, "COMBINED", path.split("::")[-1])
    for f in cm.find_method(prog, "sign::SignedMessage", "from_bytes"):        # the object API's combined-mode parser
        n += cm.accepts_min_len(rep, prog, f, 1, 64, "COMBINED", "SignedMessage::from_bytes")
    rep.floor("combined-mode openers (Ok exits)", n, 2)
    _nw = cm.read_after_wipe(rep, ctx.prog("full"), ("classic::crypto_sign", "sign::"))
    rep.note("WIPE-ORDER: %d wipe(s) of local buffers checked in the signing code" % _nw)


def verifier(rep, prog, v):
    # parameters by type: signature &[u8; 64], public key &[u8; 32], message &[u8], pre-hashed flag bool
    def by_ty(pred):
        c = [p for p in cm.params_of(v) if pred(v.locals[p]["t"])]
        return c[0] if len(c) == 1 else None
    sig = by_ty(lambda t: "[u8; 64]" in t) or v.arg_local("signature") or 1
    msg = by_ty(lambda t: t in ("&[u8]", "&'_ [u8]")) or v.arg_local("message") or 2
    pk = by_ty(lambda t: "[u8; 32]" in t) or v.arg_local("public_key") or 3
    ph = by_ty(lambda t: t == "bool")
    fw_sig = v.forward_slice([sig])
    fw_pk = v.forward_slice([pk])
    # FORBID
    bad = [c for c in v.calls() if c.path in MOD_ORDER and (operand_locals(c.args[0]) & fw_sig)]
    rep.ob("FORBID", "%s|signature bytes -> from_bytes_mod_order" % v.path, not bad,
           "signature bytes are %sdecoded with the reducing decoder%s" % ("" if bad else "not ", " at " + bad[0].loc() if bad else ""),
           loc=bad[0].loc() if bad else v.loc())
    canon = [c for c in v.calls() if c.path in CANON and (operand_locals(c.args[0]) & fw_sig)]
    rep.ob("CANON", "%s|S via from_canonical_bytes" % v.path, len(canon) == 1,
           "%d canonical-only decode(s) of signature bytes" % len(canon), loc=canon[0].loc() if canon else v.loc())
    decs = [c for c in v.calls() if c.path in DECOMP]
    dec_r = [c for c in decs if v.backward_slice(operand_locals(c.args[0])) & {sig} and not (v.backward_slice(operand_locals(c.args[0])) & {pk})]
    dec_a = [c for c in decs if v.backward_slice(operand_locals(c.args[0])) & {pk} and not (v.backward_slice(operand_locals(c.args[0])) & {sig})]
    smalls = [c for c in v.calls() if c.path in SMALL]

    def derived_from(c, src_calls):
        back = v.backward_slice(operand_locals(c.args[0]))
        return any(s.dest["l"] in back for s in src_calls)
    small_r = [c for c in smalls if derived_from(c, dec_r) and not derived_from(c, dec_a)]
    small_a = [c for c in smalls if derived_from(c, dec_a) and not derived_from(c, dec_r)]
    dsm = [c for c in v.calls() if c.path in DSM]
    eqs = []
    for c in v.calls():
        if c.path in ("std::cmp::PartialEq::eq", "std::cmp::PartialEq::ne") and "EdwardsPoint" in c.full:
            back = [v.backward_slice(operand_locals(a)) for a in c.args]
            if dsm and any(dsm[0].dest["l"] in b for b in back) and any(any(d.dest["l"] in b for d in dec_r) for b in back):
                eqs.append(c)
    CTT, CTF = ("ctopt", True), ("ctopt", False)
    obligations = [
        ("S canonical", canon, CTT, CTF),
        ("R decompresses", dec_r, SOME, NONE),
        ("A decompresses", dec_a, SOME, NONE),
        ("R not small order", small_r, False, True),
        ("A not small order", small_a, False, True),
        ("final point equality", eqs, None, None),
    ]
    for name, atoms, good, badv in obligations:
        inst = "%s|%s" % (v.path, name)
        if len(atoms) != 1:
            rep.violation("AUTH", inst, "expected exactly one such check in the verifier, found %d" % len(atoms), loc=v.loc())
            continue
        a = atoms[0]
        if good is None:
            good, badv = (True, False) if a.path.endswith("::eq") else (False, True)
        r = auth_check(prog, v, [a], set(), success=(good, badv))
        ok = r.authenticated
        rep.ob("AUTH", inst, ok,
               "every Ok exit lies behind the success edge of the check at %s" % a.loc() if ok else
               ("cannot determine the polarity of the check at %s (unrecognised idiom)" % a.loc() if r.unrecognised else
                "an Ok return is reachable without passing the check at %s: %s" % (a.loc(), "; ".join(cm.fmt_path(v, p) for b, p in r.bad_exits))),
               loc=a.loc())
    # PROV: double scalar mul operands and hash input order
    if dsm:
        c = dsm[0]
        b0 = v.backward_slice(operand_locals(c.args[0]))
        b1 = v.backward_slice(operand_locals(c.args[1]))
        b2 = v.backward_slice(operand_locals(c.args[2]))
        wide = [w for w in v.calls() if w.path in WIDE]
        negs = [n for n in v.calls() if n.path == "std::ops::Neg::neg"]
        rep.ob("PROV", "%s|k from wide-reduced hash" % v.path, bool(wide) and wide[0].dest["l"] in b0, "first operand derives from from_bytes_mod_order_wide", loc=c.loc())
        rep.ob("PROV", "%s|minus A" % v.path, bool(negs) and negs[0].dest["l"] in b1 and any(d.dest["l"] in b1 for d in dec_a), "second operand is the negated public-key point", loc=c.loc())
        rep.ob("PROV", "%s|S" % v.path, bool(canon) and canon[0].dest["l"] in b2, "third operand derives from the canonical S", loc=c.loc())
        ups = [u for u in v.calls() if u.rpath.endswith("sha512::Sha512::update")]
        ups.sort(key=lambda u: (len(v.dom.get(u.bb, ())), u.bb))
        main = []
        prefix = []
        for u in ups:
            # an update inside `for part in [a, b, c]` absorbs a, b, c in order
            for x in (cm.absorb_sequence(v, [u]) or []):
                root = x[0]
                if root is None or root not in (sig, pk, msg):
                    r2 = cm.expr_root(x.expr)
                    root = r2 if r2 in (sig, pk, msg) else root
                if root in (sig, pk, msg):
                    main.append((u, root, x[2]))
                elif u not in prefix:
                    prefix.append(u)
        rep.ob("PROV", "%s|hash order R||A||M" % v.path, [m_[1] for m_ in main] == [sig, pk, msg] and
               all(main[i][0].bb in v.dom.get(main[i + 1][0].bb, ()) or main[i][0] is main[i + 1][0] for i in range(len(main) - 1)),
               "SHA-512 absorbs parameters %s (expected signature[..32], public_key, message)" % [v.local_name(m_[1]) for m_ in main], loc=v.loc())
        if main:
            u0 = main[0][0]
            e = [x for x in [expr_of_operand(v, u0.args[1])]]
            from .c01 import boundaries
            offs, _ = boundaries(prog, v)
            rep.ob("PROV", "%s|R is signature[..32], S is signature[32..]" % v.path, offs == {32}, "signature split offsets %s" % sorted(offs), loc=u0.loc())
        if ph is not None:
            okp = len(prefix) == 1
            ctl = False
            if okp:
                pb = prefix[0].bb
                for b in range(v.n):
                    t = v.blocks[b]["t"]
                    if t["k"] == "switch" and t["x"].get("l") is not None:
                        e = expr_of_operand(v, t["x"])
                        if e.k == "local" and e.a == ph:
                            tt = t["otherwise"]
                            if v.edge_dominates((b, tt), pb):
                                ctl = True
            rep.ob("PROV", "%s|dom2 prefix iff prehashed" % v.path, okp and ctl,
                   "%d prefix update(s); control-dependent on the true edge of `prehashed`: %s" % (len(prefix), ctl), loc=v.loc())
        if wide and ups:
            rep.ob("PROV", "%s|k depends on the hash" % v.path, any(m_[2] in v.dom.get(wide[0].bb, ()) for m_ in main), "hash updates precede the reduction", loc=wide[0].loc())
    # call sites of the verifier: prehashed constant
    ph_side = prog.reach_fns(prog.by_path.get("classic::crypto_sign::crypto_sign_final_verify", []) + cm.find_method(prog, "sign::IncrementalSigner", "verify"))
    plain_side = prog.reach_fns(prog.by_path.get("classic::crypto_sign::crypto_sign_verify_detached", []) + prog.by_path.get("classic::crypto_sign::crypto_sign_open", [])
                                + cm.find_method(prog, "sign::SignedMessage", "verify"))
    v0 = getattr(v, "base", v)
    for g in prog.callers(v0):
        for c in g.calls():
            if v0 in prog.callee_fns(c) and ph is not None:
                val = evaluate(expr_of_operand(g, c.args[ph - 1]), {})
                # the pre-hashed variant is the one below the public incremental API only
                want = g.key in ph_side and g.key not in plain_side
                if g.key in ph_side and g.key in plain_side:
                    continue     # shared by both: the flag must come from its own caller
                rep.ob("MODE", "%s|prehashed flag" % g.path, isinstance(val, (bool, int)) and bool(val) == want,
                       "%s passes prehashed=%s (pre-hashed entry point: %s)" % (g.name, val, want), loc=c.loc())


def callers(rep, prog, vs):
    from ..inline import inline
    cand_keys = cm.can_reach(prog, vs)
    # callers are analysed with their closures / private helpers folded in
    vk0 = {v.key for v in vs}
    cands = [inline(prog, prog.by_key[k], keep=(lambda g: g.key in vk0,)) if k not in vk0 else prog.by_key[k]
             for k in cand_keys if returns_result(prog.by_key[k]) and prog.by_key[k].kind != "closure"]
    vkeys = {v.key for v in vs}

    def prims(f):
        return []
    # verifiers are authenticated by the checks above; seed the fixpoint with them
    auth = set(vkeys)
    results = {}
    changed = True
    while changed:
        changed = False
        for f in cands:
            if f.key in auth:
                continue
            r = auth_check(prog, f, [], auth)
            results[f.key] = r
            if r.authenticated:
                auth.add(f.key)
                changed = True
    n = 0
    for f in sorted(cands, key=lambda f: f.path):
        if f.key in vkeys:
            continue
        n += 1
        r = auth_check(prog, f, [], auth)
        rep.ob("CALLER", f.path, r.authenticated,
               "Ok only behind the Ok edge of the verifier" if r.authenticated else
               "an Ok return is reachable without the verifier having succeeded: %s" % "; ".join("exit %s via %s" % (f.loc(b), cm.fmt_path(f, p)) for b, p in r.bad_exits),
               loc=f.loc())
    rep.floor("functions that reach the verifier", n, 6)
    for a in PUBLIC_VERIFY:
        fs = get(prog, a)
        if not fs:
            rep.violation("ANCHOR", "::".join(a), "public verification entry point not found")
            continue
        for f in fs:
            rep.ob("ENTRY", "::".join(a), f.key in auth, "public verification entry point is authenticated", loc=f.loc())
    # crypto_sign_open: message written only after verification
    cl = Clean(prog)
    for f in prog.by_path.get("classic::crypto_sign::crypto_sign_open", []) + prog.by_path.get("classic::crypto_sign_ed25519::crypto_sign_ed25519_open", []):
        ps = [q for q in cm.params_of(f) if f.locals[q]["t"] == "&mut [u8]"]     # (message, signed_message, public_key)
        p = ps[0] if len(ps) == 1 else f.arg_local("message")
        if p:
            s = cl.summary(f, p)
            rep.ob("CLEAN", "%s|message" % f.path, not s.violations,
                   "message is %s" % ("written only on the verified path" if not s.violations else "written before verification: %s" % s.violations[0][2]), loc=f.loc())
