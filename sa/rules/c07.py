"""C07 — verify clause only: each MAC verify function returns Ok only through a full-width
constant-time comparison between the supplied authenticator and one computed over the whole input
under the key by the same primitive the one-shot function uses."""
from ..core import operand_locals
from ..engines import auth_fixpoint, returns_result
from . import common as cm

VERIFY = [
    # (verify anchor, one-shot anchor, width)
    (("classic::crypto_auth::crypto_auth_verify",), ("classic::crypto_auth::crypto_auth",), 32),
    (("classic::crypto_onetimeauth::crypto_onetimeauth_verify",), ("classic::crypto_onetimeauth::crypto_onetimeauth",), 16),
    (("auth::Auth", "verify"), ("auth::Auth", "compute"), 32),
    (("auth::Auth", "compute_and_verify"), ("auth::Auth", "compute"), 32),
    (("onetimeauth::OnetimeAuth", "verify"), ("onetimeauth::OnetimeAuth", "compute"), 16),
    (("onetimeauth::OnetimeAuth", "compute_and_verify"), ("onetimeauth::OnetimeAuth", "compute"), 16),
]

EXPLANATION = (
    "AUTH on the six MAC verify entry points (classic and object API): Ok exits only behind the "
    "success edge of a subtle ct_eq whose operands are (a view of) a parameter/self-supplied "
    "authenticator and a locally computed value, one of them a whole fixed-size array of the MAC "
    "width; the computed operand's dependency slice contains every other parameter (key, input); "
    "the crate-local primitive types reached from the verify function equal those reached from the "
    "matching one-shot function. RANGE: per-path interval propagation over the length guards of "
    "crypto_generichash / crypto_generichash_init - every digest length and every key length (on the paths "
    "where a key is present) in 16..=64 reaches an Ok-capable exit.")
NOT_DECIDED = (
    "equality of BLAKE2b, SHA-512, HMAC-SHA-512-256, Poly1305, SipHash-2-4, HSalsa20, HChaCha20 and the "
    "little-endian increment with their specifications on every input (numerical, value-level) - the "
    "main clause of C07 is NOT decided by this check.")


def get(prog, anchor):
    if len(anchor) == 1:
        return prog.by_path.get(anchor[0], [])
    return cm.find_method(prog, anchor[0], anchor[1])


def prim_atoms(f):
    out = []
    for c in cm.ct_eq_calls(f):
        roots = []
        for a in c.args:
            ls = list(operand_locals(a))
            roots.append(cm.view_info(f, ls[0])[0] if ls else None)
        params = [r for r in roots if r is not None and 1 <= r <= f.argc]
        locs = [r for r in roots if r is not None and r > f.argc]
        if len(params) == 1 and len(locs) == 1:
            out.append(c)
    return out


def prim_types(prog, f):
    seen = prog.reach_fns([f])
    tys = set()
    for k in seen:
        g = prog.by_key[k]
        imp = prog.fn_impl(g)
        if not imp:
            continue
        p = imp["self_ty"].get("path", imp["self_ty"]["t"])
        if p.startswith(("types::", "protected::", "error::")) or "::" not in p:
            continue
        tys.add(p)
    return tys


def run(ctx, rep):
    rep.explanation = EXPLANATION
    rep.not_decided = NOT_DECIDED
    rep.trust("subtle ct_eq is full-length equality; rustc MIR; sha2 crate")
    prog = ctx.prog("full")
    allv = []
    for v, o, w in VERIFY:
        allv += get(prog, v)
    # candidates for the fixpoint: everything reachable from the verify entry points
    # every function is analysed with its private helpers folded in (a comparison extracted into
    # `fn macs_match(a, b)` is still the verify function's comparison)
    from ..inline import inline
    seen = prog.reach_fns(allv)
    views = {k: inline(prog, prog.by_key[k]) for k in seen}
    cands = [views[k] for k in seen if returns_result(prog.by_key[k])]
    auth, results = auth_fixpoint(prog, cands, prim_atoms)
    n = 0
    for v, o, width in VERIFY:
        fs = get(prog, v)
        name = "::".join(v)
        if not fs:
            rep.violation("ANCHOR", name, "public verify function not found (fail closed)")
            continue
        for f in fs:
            n += 1
            r = results.get(f.key)
            ok = f.key in auth
            detail = "Ok only via %s" % ", ".join(sorted({a.rpath.split("::")[-1] + "@" + str(a.line()) for a, k in r.atoms})) if ok else (
                "an Ok exit is reachable without a successful constant-time comparison: %s" % (
                    "; ".join("exit %s via %s" % (views.get(f.key, f).loc(b), cm.fmt_path(views.get(f.key, f), p)) for b, p in r.bad_exits) or "no comparison found"))
            rep.ob("AUTH", name, ok, detail, loc=f.loc())
            # locate the root comparison(s) under this verify function
            roots = [g for g in (views.get(k) or inline(prog, prog.by_key[k]) for k in prog.reach_fns([f])) if prim_atoms(g) and g.key in auth]
            rep.ob("ROOT", name, bool(roots), "%d comparing function(s) reached: %s" % (len(roots), [g.path for g in roots][:3]), loc=f.loc())
            for g in roots:
                for c in prim_atoms(g):
                    okw, ws = cm.full_width(g, c, width)
                    rep.ob("WIDTH", "%s|%s" % (name, g.path), okw,
                           "ct_eq operand widths %s, expected a whole %d-byte array on one side" % (ws, width), loc=c.loc())
                    # computed operand depends on every other parameter
                    comp = None
                    supplied = None
                    for a in c.args:
                        ls = list(operand_locals(a))
                        r0 = cm.view_info(g, ls[0])[0]
                        if r0 > g.argc:
                            comp = r0
                        else:
                            supplied = r0
                    back = g.backward_slice([comp])
                    for p in cm.params_of(g):
                        if p == supplied:
                            continue
                        rep.ob("COVER", "%s|%s|%s" % (name, g.path, cm.param_name(g, p)), p in back,
                               "computed authenticator %s parameter `%s`" % ("depends on" if p in back else "does NOT depend on", cm.param_name(g, p)),
                               loc=c.loc())
            # same primitive as the one-shot function
            of = get(prog, o)
            if not of:
                rep.violation("ANCHOR", "::".join(o), "one-shot function not found (fail closed)")
                continue
            t1 = prim_types(prog, of[0])
            t2 = prim_types(prog, f)
            rep.ob("SAME-PRIM", name, t1 == t2 and bool(t1),
                   "crate-local primitive types reached: one-shot %s, verify %s" % (sorted(t1), sorted(t2)), loc=f.loc())
            rep.sample({"verify": f.path, "roots": [g.path for g in roots], "prims": sorted(t2)})
    rep.floor("verify functions", n, 6)
    accepted_ranges(rep, prog)
    # the incremental verify functions accept the correct authenticator only if the inner hashers'
    # pending-buffer invariant holds (shared with C08): a full block left pending is mis-finalised
    from .c08 import buffer_invariants
    buffer_invariants(rep, prog, "")


# public generic-hash entry points: "every digest length 16..=64, unkeyed or keyed with any key of 16..=64 bytes"
# (public constants CRYPTO_GENERICHASH_BYTES_MIN/MAX, CRYPTO_GENERICHASH_KEYBYTES_MIN/MAX)
GH_RANGE = (16, 64)
GH_ENTRY = ("classic::crypto_generichash::crypto_generichash", "classic::crypto_generichash::crypto_generichash_init")


def _covers(iv):
    return all(any((lo is None or lo <= n) and (hi is None or n <= hi) for lo, hi in iv) for n in range(GH_RANGE[0], GH_RANGE[1] + 1))


def accepted_ranges(rep, prog):
    """RANGE (structural part of "for every digest length 16..=64 ... any key of 16..=64 bytes"): following every
    path of the public entry point (private helpers folded in), the length guards let every digest length
    in 16..=64 and - on the paths where a key is present - every key length in 16..=64 through to an
    Ok-capable exit.  (That other lengths are refused is not part of C07's statement and is not required.)"""
    from ..inline import inline
    from ..guards import edge_facts
    n = 0
    for path in GH_ENTRY:
        fs = prog.by_path.get(path, [])
        if not fs:
            rep.violation("ANCHOR", path, "public generic-hash entry point not found (fail closed)")
            continue
        f = inline(prog, fs[0])
        ef = edge_facts(f, cm.view_info)
        nm = path.split("::")[-1]
        ty = lambda p: f.locals[p]["t"].replace("'_ ", "")
        keys = [p for p in cm.params_of(f) if ty(p) == "std::option::Option<&[u8]>"]
        outs = [("len", p) for p in cm.params_of(f) if ty(p) == "&mut [u8]"] or [("local", p) for p in cm.params_of(f) if ty(p) == "usize"]
        if len(keys) != 1 or len(outs) != 1:
            rep.violation("ANCHOR", nm + "|parameters", "cannot tell the key / digest-length parameters of the public entry point (fail closed)", loc=f.loc())
            continue
        iv = cm.accepted_intervals(f, outs[0], (0,), ef)
        n += 1
        rep.ob("RANGE", "%s|digest length" % nm, _covers(iv),
               "Ok-capable exits are reachable for digest length in %s (every length %d..=%d must be accepted)" % (sorted(iv, key=str), GH_RANGE[0], GH_RANGE[1]), loc=f.loc())
        some = cm.some_arm_blocks(f, keys[0])
        if not some:
            rep.violation("RANGE", "%s|key length" % nm, "no match on the optional key found in the entry point's view: key length unchecked", loc=f.loc())
            continue
        iv = cm.accepted_intervals(f, ("len", keys[0]), tuple(some), ef)
        n += 1
        rep.ob("RANGE", "%s|key length" % nm, _covers(iv),
               "with a key present, Ok-capable exits are reachable for key length in %s (every length %d..=%d must be accepted)" % (sorted(iv, key=str), GH_RANGE[0], GH_RANGE[1]), loc=f.loc())
    rep.floor("generic-hash accepted ranges", n, 4)
