"""C17 — a failed open releases nothing derived from the rejected ciphertext.

CLEAN: for every classic opening function and every caller-supplied output (`&mut` parameter other
than the stream state), no write to that output (store, external writer, or crate-local callee
that writes) may be followed by an Err exit without the whole buffer having been zeroed in
between.  Callee effects are summarised bottom-up (writes / dirty-on-Err) over the call graph.
The object API must hand out nothing but the error: its openers have no `&mut` output parameter.
"""
from ..engines import Clean, returns_result
from . import common as cm

MULTI_CONFIG = True

EXPLANATION = (
    "CLEAN dataflow over MIR. Output parameters = every `&mut` parameter of every classic opener "
    "(functions under classic:: that are authenticated openers per the C02 fixpoint, plus "
    "crypto_sign_open) except the stream state. Write events: stores through a view of the "
    "parameter, calls to external functions receiving a mutable view (apply_keystream, "
    "copy_from_slice, rotate_*, ...), crate-local callees per their own summary. A write is a "
    "violation if an Err-producing definition of the return place is reachable afterwards without "
    "passing a whole-buffer zeroize()/fill(0); for `r = callee(); ...; r` shapes only paths "
    "consistent with the callee having failed are followed.")


def run(ctx, rep):
    rep.explanation = EXPLANATION
    rep.not_decided = ""
    rep.level = "proof"
    rep.trust("rustc MIR; effect table for external callees (any external callee that receives a mutable view writes it)")
    rep.trust("zeroize::Zeroize::zeroize and slice::fill(0) on the whole buffer erase it")
    rep.assume("'as they were or zeroed' is checked as: no write at all on failing paths, or whole-buffer zeroing after the last write")
    for cfg in (["full"] if ctx.tier == "quick" else ["full", "default"]):
        check_config(ctx, rep, cfg)


def classic_openers(prog):
    roots, auth, results, cands = cm.openers(prog)
    out = []
    for f in cands:
        if not returns_result(f):
            continue
        if not f.path.startswith("classic::"):
            continue
        if "onetimeauth" in f.path:
            continue
        out.append(f)
    out += prog.by_path.get("classic::crypto_sign::crypto_sign_open", [])
    out += prog.by_path.get("classic::crypto_sign_ed25519::crypto_sign_ed25519_open", [])
    return out, cands


def check_config(ctx, rep, cfg):
    prog = ctx.prog(cfg)
    tag = "" if cfg == "full" else "[%s]" % cfg
    cl = Clean(prog)
    fns, cands = classic_openers(prog)
    n = 0
    for f in sorted(fns, key=lambda f: f.path):
        for p in cm.params_of(f):
            ty = f.locals[p]["t"]
            if not ty.startswith("&mut "):
                continue
            if ty.endswith("::State"):
                continue   # stream state: C03
            nm = cm.param_name(f, p)
            s = cl.summary(f, p)
            n += 1
            inst = "%s|%s%s" % (f.path, nm, tag)
            if not s.violations:
                rep.ob("CLEAN", inst, True, "%d write event(s), none followed by an Err exit" % len(s.events), loc=f.loc())
                rep.sample({"fn": f.path, "output": nm, "writes": [e[3] for e in s.events][:4]})
                continue
            seen = set()
            for (eb, xb, text, why) in s.violations:
                k = (text.split(" at ")[0])
                if k in seen:
                    continue
                seen.add(k)
                rep.violation("CLEAN", "%s|%s" % (inst, _stable(text)),
                              "output `%s` is written by %s and %s" % (nm, text, why), loc=f.loc(eb))
    rep.floor("classic opener outputs" + tag, n, 12)
    # object API: no caller-visible output besides the returned value
    for f in cands:
        if f.path.startswith("classic::") or not returns_result(f) or f.kind == "closure":
            continue
        if f.vis != "pub":
            continue    # a private helper's buffer belongs to its (checked) public caller, not to the user
        outs = [cm.param_name(f, p) for p in cm.params_of(f)
                if f.locals[p]["t"].startswith("&mut ") and cm.param_name(f, p) != "self"]
        rep.ob("OBJ-OUT", f.path + tag, not outs,
               "object-API opener has %s" % ("no &mut output parameter" if not outs else "output parameters %s" % outs),
               loc=f.loc())


def _stable(text):
    # key without line numbers: keep the callee / kind part only
    t = text.split(" at ")[0]
    return t.replace(" ", "_")[:80]
