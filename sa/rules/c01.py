"""C01 — authenticated encryption: constants, wire framing and keystream discipline (structural)."""
from ..core import operand_locals
from ..expr import expr_of_operand, call_arg_exprs, evaluate
from . import common as cm
from . import consts

# modules whose public functions read / write the wire formats (combined-mode boxes, signed messages)
FRAMED_MODULES = ("classic::crypto_box::", "classic::crypto_secretbox::", "classic::crypto_sign::",
                  "dryocbox::", "dryocsecretbox::", "sign::")

EXPLANATION = (
    "CONST: every constants::NAME with a namesake in the vendored libsodium-sys bindings has the same "
    "value. SIB: for each writer/reader pair the set of constant boundary offsets used on the wire buffer "
    "(Index ranges, split_at, rotate amounts) is extracted from MIR and must be equal on both sides and "
    "equal to libsodium's MAC/PK/SEAL sizes; in-place forms rotate right when sealing and left by the same "
    "amount when opening. KEYSTREAM: in both secretbox primitives the first keystream call fills the 32-byte "
    "Poly1305 key, dominates the payload keystream call on the same cipher, and the MAC is computed over "
    "ciphertext (after encrypting / before decrypting). SEALNONCE: nonce = generichash(epk || rpk) with "
    "output length NONCEBYTES; epk is the ciphertext prefix.")
NOT_DECIDED = (
    "byte equality of ciphertexts with libsodium for all keys/nonces/messages and the round-trip values "
    "(correctness of XSalsa20, HSalsa20, X25519, Poly1305 as functions).")

IDX = ("std::ops::Index::index", "std::ops::IndexMut::index_mut")
SPLIT = ("core::slice::<impl [T]>::split_at", "core::slice::<impl [T]>::split_at_mut")
ROT = ("core::slice::<impl [T]>::rotate_left", "core::slice::<impl [T]>::rotate_right")

PAIRS = [
    ("secretbox easy", ("classic::crypto_secretbox::crypto_secretbox_easy",), ("classic::crypto_secretbox::crypto_secretbox_open_easy",), {16}),
    ("secretbox easy in-place", ("classic::crypto_secretbox::crypto_secretbox_easy_inplace",), ("classic::crypto_secretbox::crypto_secretbox_open_easy_inplace",), {16}),
    ("box easy", ("classic::crypto_box::crypto_box_easy",), ("classic::crypto_box::crypto_box_open_easy",), {16}),
    ("box easy in-place", ("classic::crypto_box::crypto_box_easy_inplace",), ("classic::crypto_box::crypto_box_open_easy_inplace",), {16}),
    ("sealed box", ("classic::crypto_box::crypto_box_seal",), ("classic::crypto_box::crypto_box_seal_open",), {32}),
    ("DryocSecretBox bytes", ("dryocsecretbox::DryocSecretBox", "to_bytes"), ("dryocsecretbox::DryocSecretBox", "from_bytes"), {16}),
    ("SignedMessage bytes", ("sign::SignedMessage", "to_bytes"), ("sign::SignedMessage", "from_bytes"), {64}),
]


def get(prog, a):
    return prog.by_path.get(a[0], []) if len(a) == 1 else cm.find_method(prog, a[0], a[1])


def _param_cuts(prog, g, pi, depth):
    """cuts that crate function g (and the framed functions it delegates to) makes on its parameter pi"""
    memo = prog.__dict__.setdefault("_c01_pcuts", {})
    key = (g.key, pi)
    if key in memo:
        return memo[key]
    memo[key] = set()
    from ..inline import inline
    v = inline(prog, g)
    out = set(cm.cut_points(prog, v).get(pi, set()))
    if depth < 3:
        out |= _delegated_cuts(prog, v, depth + 1, only_root=pi)
    memo[key] = out
    return out


def _delegated_cuts(prog, v, depth, only_root=None):
    out = set()
    if depth >= 3:
        return out
    for c in v.calls():
        ts = [t for t in prog.callee_fns(c) if t.kind != "closure"]
        if len(ts) != 1:
            continue
        g = ts[0]
        if g.vis != "pub" or not g.path.lstrip("<").startswith(FRAMED_MODULES):
            continue        # only the wire-format API layer frames; how a primitive lays out its own operands is not framing
        for i, a in enumerate(c.args):
            if a.get("k") not in ("copy", "move") or a["p"]:
                continue
            ty = v.locals[a["l"]]["t"]
            if not (ty.startswith("&") and "[u8" in ty):
                continue
            root, s0 = cm.view_span(v, a["l"])
            if s0 is None or (only_root is not None and root != only_root):
                continue
            for k in _param_cuts(prog, g, i + 1, depth):
                out.add(s0 + k)
    return out


def boundaries(prog, f, delegate=False):
    """constant cut offsets (absolute within the buffer being framed: `split_at(32)` then
    `.1.split_at(16)` cuts at 32 and 48, like `[..32]`/`[32..48]`/`[48..]`) and rotations, on the view of
    f with its private helpers folded in"""
    from ..inline import inline
    offs, rots = set(), []
    v = f if getattr(f, "inlined", None) else inline(prog, f)
    for root, cuts in cm.cut_points(prog, v).items():
        offs |= cuts
    # framing is compositional: a (sub-)view handed to another framed crate function is cut there;
    # `seal_open` cutting at 32 and passing [32..] to `crypto_box_open_easy` (which cuts at 16) frames
    # the wire exactly like a `seal_open` that cuts at 32 and 48 itself
    if delegate:
        offs |= _delegated_cuts(prog, v, 0)
    folded = set(getattr(v, "inlined", []))
    for g in [v] + [u for u in prog.unit(f) if u.key != f.key and u.path not in folded]:
        for c in g.calls():
            if c.path in ROT:
                val = evaluate(call_arg_exprs(c)[1], {})
                rots.append((c.path.split("_")[-1], val))
            elif g is not v and c.path in IDX and len(c.args) == 2:
                e = expr_of_operand(g, c.args[1])
                if e.k == "agg" and e.c is not None:
                    for o in e.c:
                        val = evaluate(o, {})
                        if isinstance(val, int) and not isinstance(val, bool) and val != 0:
                            offs.add(val)
            elif g is not v and c.path in SPLIT:
                val = evaluate(call_arg_exprs(c)[1], {})
                if isinstance(val, int) and val != 0:
                    offs.add(val)
    return offs, rots


def run(ctx, rep):
    rep.explanation = EXPLANATION
    rep.not_decided = NOT_DECIDED
    rep.trust("libsodium-sys 0.2.7 generated bindings reflect libsodium's constants")
    prog = ctx.prog("full")
    n = consts.compare(prog, rep)
    rep.floor("constants with a libsodium namesake", n, 100)
    # ---- SIB framing ---------------------------------------------------------------------------
    npairs = 0
    for name, w, r, want in PAIRS:
        wf, rf = get(prog, w), get(prog, r)
        if not wf or not rf:
            rep.violation("ANCHOR", name, "writer/reader pair not found: %s / %s" % (w, r))
            continue
        npairs += 1
        wo, wr = boundaries(prog, wf[0], delegate=True)
        ro, rr = boundaries(prog, rf[0], delegate=True)
        rep.ob("FRAMING", name + "|writer=reader", wo & set(range(1, 200)) == ro & set(range(1, 200)) or (want <= wo and want <= ro and (wo - want) == (ro - want)),
               "boundary offsets writer %s reader %s" % (sorted(wo), sorted(ro)), loc=wf[0].loc())
        rep.ob("FRAMING", name + "|libsodium", want <= wo and want <= ro,
               "expected boundary %s (libsodium layout); writer %s reader %s" % (sorted(want), sorted(wo), sorted(ro)), loc=rf[0].loc())
        if "in-place" in name:
            okr = len(wr) == 1 and len(rr) == 1 and wr[0][0] == "right" and rr[0][0] == "left" and wr[0][1] == rr[0][1] and wr[0][1] in want
            rep.ob("FRAMING", name + "|rotation", okr, "sealing rotates %s, opening rotates %s" % (wr, rr), loc=wf[0].loc())
        rep.sample({"pair": name, "writer": sorted(wo), "reader": sorted(ro), "rot": [wr, rr]})
    # DryocBox: to_bytes covers both layouts; from_bytes / from_sealed_bytes
    tb = cm.find_method(prog, "dryocbox::DryocBox", "to_bytes")
    fb = cm.find_method(prog, "dryocbox::DryocBox", "from_bytes")
    fs = cm.find_method(prog, "dryocbox::DryocBox", "from_sealed_bytes")
    if tb and fb and fs:
        npairs += 1
        to, _ = boundaries(prog, tb[0], delegate=True)
        bo, _ = boundaries(prog, fb[0], delegate=True)
        so, _ = boundaries(prog, fs[0], delegate=True)
        rep.ob("FRAMING", "DryocBox bytes|plain", {16} <= to and bo == {16}, "to_bytes %s from_bytes %s" % (sorted(to), sorted(bo)), loc=fb[0].loc())
        rep.ob("FRAMING", "DryocBox bytes|sealed", {32, 48} <= to and so == {32, 48}, "to_bytes %s from_sealed_bytes %s" % (sorted(to), sorted(so)), loc=fs[0].loc())
    else:
        rep.violation("ANCHOR", "DryocBox bytes", "to_bytes/from_bytes/from_sealed_bytes not found")
    rep.floor("writer/reader pairs", npairs, 8)
    # the parsers accept exactly the encodings the writers can produce: minimum length = fixed overhead
    # (an empty message is a valid box)
    from ..expr import result_kind_of_ret
    from ..guards import edge_facts, facts_at, bounds
    for (ty, m, minimum) in (("dryocbox::DryocBox", "from_bytes", 16), ("dryocbox::DryocBox", "from_sealed_bytes", 48),
                             ("dryocsecretbox::DryocSecretBox", "from_bytes", 16), ("sign::SignedMessage", "from_bytes", 64)):
        for f in cm.find_method(prog, ty, m):
            from ..inline import inline as _inl
            f = _inl(prog, f)       # the length guard may sit in a private helper (`split_prefix(bytes, N)?`)
            ef = edge_facts(f, cm.view_info)
            for b, kind, e in result_kind_of_ret(f):
                if kind == "err" or b not in f.reachable(0):
                    continue
                lo, hi = bounds(("len", 1), facts_at(f, b, ef))
                rep.ob("FRAMING", "%s::%s|accepts len >= %d" % (ty.split("::")[-1], m, minimum), lo == minimum and hi is None,
                       "Ok-capable exit at %s requires %s <= len%s" % (f.loc(b), lo, "" if hi is None else " <= %s" % hi), loc=f.loc(b))
    keystream(rep, prog)
    sealnonce(rep, prog)
    nw = cm.read_after_wipe(rep, prog, ("classic::crypto_box", "classic::crypto_secretbox", "dryocbox::", "dryocsecretbox::", "precalc::", "keypair::"))
    rep.floor("wipes of local key material in the box / secretbox / precalc code", nw, 4)
    n_roles = cm.role_consistency(rep, prog)
    rep.floor("key-role call edges", n_roles, 40)


KS = "salsa20::cipher::StreamCipher::apply_keystream"


def keystream(rep, prog):
    # discovered from the public API: the lowest functions below crypto_secretbox_detached /
    # _open_detached whose inlined view (private helpers folded in) drives an XSalsa20 cipher twice
    from ..inline import inline
    pubs = prog.by_path.get("classic::crypto_secretbox::crypto_secretbox_detached", []) + \
        prog.by_path.get("classic::crypto_secretbox::crypto_secretbox_open_detached", [])
    keep = (lambda g: bool(cm.POLY_NEW.search(g.path) or cm.POLY_UPDATE.search(g.path) or cm.POLY_FINAL.search(g.path)) or g.path.startswith("poly1305::"),)
    views = {}
    for k in prog.reach_fns(pubs):
        v = inline(prog, prog.by_key[k], keep=keep)
        if sum(1 for c in v.calls() if c.path == KS) >= 2:
            views[k] = v
    roots = [v for k, v in views.items() if not any(g.key in views for g in prog.callees(prog.by_key[k]))]
    n = 0
    for f in roots:
        ks = [c for c in f.calls() if c.path == KS]
        n += 1
        info = []
        for c in ks:
            ls = list(operand_locals(c.args[1]))
            root, narrowed = cm.view_info(f, ls[0])
            cipher = cm.view_info(f, list(operand_locals(c.args[0]))[0])[0]
            info.append((c, root, cipher, f.locals[root]["t"]))
        # payload: a caller-supplied byte slice; MAC key: a local buffer
        keyk = [i for i in info if i[1] > f.argc]
        payk = [i for i in info if 1 <= i[1] <= f.argc]
        ok = len(keyk) == 1 and len(payk) == 1 and "32" in keyk[0][3] and keyk[0][2] == payk[0][2]
        rep.ob("KEYSTREAM", f.path + "|two-phase", ok,
               "keystream calls: %s" % [(c.line(), f.local_name(r), t[:30]) for c, r, _, t in info], loc=f.loc())
        if not ok:
            continue
        data = payk[0][1]
        kc, pc = keyk[0][0], payk[0][0]
        rep.ob("KEYSTREAM", f.path + "|mac-key-first", kc.bb in f.dom.get(pc.bb, ()) and kc.bb != pc.bb,
               "the MAC-key keystream call dominates the payload keystream call on the same cipher", loc=kc.loc())
        # no seek on this cipher
        seeks = [c for c in f.calls() if "StreamCipherSeek" in c.path]
        rep.ob("KEYSTREAM", f.path + "|no-seek", not seeks, "no seek between the two keystream phases (%d seek calls)" % len(seeks), loc=f.loc())
        news = [c for c in f.calls() if cm.POLY_NEW.search(c.rpath)]
        okn = len(news) == 1 and cm.view_info(f, list(operand_locals(news[0].args[0]))[0])[0] == keyk[0][1] and kc.bb in f.dom.get(news[0].bb, ())
        rep.ob("KEYSTREAM", f.path + "|poly-key", okn, "Poly1305 is keyed with the buffer filled by the first keystream call", loc=news[0].loc() if news else f.loc())
        ups = [c for c in f.calls() if cm.POLY_UPDATE.search(c.rpath)]
        okw = len(ups) == 1 and cm.view_info(f, list(operand_locals(ups[0].args[1]))[0]) == (data, False)
        rep.ob("KEYSTREAM", f.path + "|mac-over-whole-data", okw, "Poly1305::update absorbs the whole data buffer", loc=ups[0].loc() if ups else f.loc())
        if ups:
            opening = f.locals[0].get("path") == "std::result::Result"
            if opening:
                o = ups[0].bb in f.dom.get(pc.bb, ())
                rep.ob("KEYSTREAM", f.path + "|mac-over-ciphertext", o, "opening: MAC update precedes decryption", loc=ups[0].loc())
            else:
                o = pc.bb in f.dom.get(ups[0].bb, ())
                rep.ob("KEYSTREAM", f.path + "|mac-over-ciphertext", o, "sealing: encryption precedes MAC update", loc=ups[0].loc())
    rep.floor("secretbox primitives", n, 2)


def sealnonce(rep, prog):
    """On the public crypto_box_seal with its helpers folded in (wherever the nonce derivation lives and
    whatever it is called): nonce = generichash_24(epk || recipient_pk), epk being the key that is
    written to the ciphertext prefix, and that nonce is the one the box is sealed with."""
    from ..inline import inline as _inl
    from ..expr import deep_repr
    seals = prog.by_path.get("classic::crypto_box::crypto_box_seal", [])
    if not seals:
        rep.violation("ANCHOR", "crypto_box_seal", "public function not found")
        return
    f = _inl(prog, seals[0])
    inits = [c for c in f.calls() if c.rpath.endswith("crypto_generichash_init")]
    ups = [c for c in f.calls() if c.rpath.endswith("crypto_generichash_update")]
    fins = [c for c in f.calls() if c.rpath.endswith("crypto_generichash_final")]
    seq = cm.absorb_sequence(f, ups) if ups else None
    ok = len(inits) == 1 and seq is not None and len(seq) == 2 and len(fins) == 1
    rep.ob("SEALNONCE", "init/update/update/final", ok, "generichash calls: init=%d update=%d (absorbing %s operand(s)) final=%d" % (
        len(inits), len(ups), len(seq) if seq is not None else "unordered", len(fins)), loc=f.loc())
    if not ok:
        return
    outlen = evaluate(call_arg_exprs(inits[0])[1], {})
    rep.ob("SEALNONCE", "outlen=NONCEBYTES", outlen == 24, "generichash output length %s (crypto_box_NONCEBYTES = 24)" % outlen, loc=inits[0].loc())
    cts = [p for p in cm.params_of(f) if f.locals[p]["t"] == "&mut [u8]"]     # crypto_box_seal(ciphertext, message, recipient_pk)
    ct = cts[0] if len(cts) == 1 else 1
    rpk = [p for p in cm.params_of(f) if "[u8; 32]" in f.locals[p]["t"]]
    kp = [c for c in f.calls() if "keypair" in c.rpath]
    # the key copied into the ciphertext prefix
    cps = [c for c in f.calls() if c.path in cm.COPY and operand_locals(c.args[0]) and cm.view_span(f, list(operand_locals(c.args[0]))[0]) == (ct, 0)]
    epk_txt = {deep_repr(call_arg_exprs(c)[1]).replace("deref(", "").replace("as_slice(", "").replace("as_ref(", "").replace(")", "") for c in cps}
    first_txt = deep_repr(seq[0].expr).replace("deref(", "").replace("as_slice(", "").replace("as_ref(", "").replace(")", "")
    from_kp = bool(kp) and any(kp[0].dest["l"] in f.backward_slice(operand_locals(c.args[1])) or
                               any(kp[0].bb in f.dom.get(c.bb, ()) and cm.view_info(f, l)[0] in {cm.view_info(f, x)[0] for a in kp[0].args for x in operand_locals(a)}
                                   for l in operand_locals(c.args[1])) for c in cps)
    rep.ob("SEALNONCE", "epk is the ciphertext prefix", bool(cps) and from_kp,
           "ciphertext[..32] is copied from the generated ephemeral public key (%d copy call(s) at offset 0)" % len(cps), loc=f.loc())
    b = seq[1][0]
    rep.ob("SEALNONCE", "order epk||rpk", first_txt in epk_txt and len(rpk) == 1 and b == rpk[0] and
           all(x[2] in f.dom.get(fins[0].bb, ()) for x in seq) and all(inits[0].bb in f.dom.get(u.bb, ()) for u in ups),
           "first absorbed operand %s (the key written to the ciphertext prefix: %s), second parameter #%s (recipient public key #%s)" % (
               first_txt[:40], sorted(epk_txt)[:1], b, rpk[:1]), loc=ups[0].loc())
    # the derived nonce is the one the box is sealed with
    nroot = cm.view_info(f, list(operand_locals(fins[0].args[1]))[0])[0]
    easy = [c for c in f.calls() if c.rpath.endswith("crypto_box::crypto_box_easy") or c.rpath.endswith("crypto_box_detached")]
    used = bool(easy) and any(cm.view_info(f, l)[0] == nroot for a in easy[0].args for l in operand_locals(a)) and fins[0].bb in f.dom.get(easy[0].bb, ())
    rep.ob("SEALNONCE", "output is the nonce", used, "the buffer written by generichash_final is the nonce operand of the sealing call", loc=fins[0].loc())
