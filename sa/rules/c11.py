"""C11 — every randomised operation draws fresh randomness on every call (structural).

SOURCE     the OS generator (rand_core::OsRng via TryRngCore::try_fill_bytes) is the only randomness
           source, touched only by the two functions of `rng`.
ALWAYS     every public function from which the RNG is reachable draws from it on *every* path to a
           normal return (least fixpoint over callees) unless the draw is documented as conditional.
RANDOM-OUT a buffer handed to the RNG is what leaves the function (out-parameter / return value) and is
           not overwritten with something else afterwards.
SALT/SEAL/HEADER  specific sinks: the Argon2 salt operand, the sealed-box ephemeral key pair and the
           push-stream header are RNG-written on every path before they are used.
"""
from ..core import operand_locals, def_sites
from ..expr import expr_of_operand, deep_repr
from ..engines import must_pass, views_of, RESLICE
from . import common as cm

RNG_PRIMS = ("rand_core::TryRngCore::try_fill_bytes", "rand_core::RngCore::fill_bytes",
             "rand_core::RngCore::next_u64", "rand_core::RngCore::next_u32", "rand_core::TryRngCore::try_next_u64",
             "rand_core::TryRngCore::try_next_u32")

MULTI_CONFIG = True

EXPLANATION = (
    "REACH/MUSTCALL/PROV on MIR. The RNG primitives are enumerated by callee identity (rand_core "
    "traits, getrandom); they may be called only from the crate's rng module and only on OsRng. "
    "A function is 'always-random' if removing every block that calls an RNG function or an "
    "always-random callee disconnects entry from every return (least fixpoint). Every public function "
    "that can reach the RNG must be always-random. For each direct RNG call the destination buffer's "
    "storage root must be an out-parameter or flow into the return value, with no later non-RNG write "
    "to it. For the Argon2 salt, the sealed-box ephemeral keys and the stream header the operand that "
    "is used must have the RNG-written buffer as its storage root and the RNG call must dominate the use.")
NOT_DECIDED = ("statistical quality, independence and non-repetition of the OS generator's output (trusted; "
               "cannot be decided statically).")


DOCUMENTED = [
    ("path", "classic::crypto_auth::crypto_auth_keygen", None, False),
    ("path", "classic::crypto_box::crypto_box_keypair", None, False),
    ("path", "classic::crypto_box::crypto_box_keypair_inplace", None, False),
    ("path", "classic::crypto_box::crypto_box_seal", None, False),
    ("path", "classic::crypto_generichash::crypto_generichash_keygen", None, False),
    ("path", "classic::crypto_kdf::crypto_kdf_keygen", None, False),
    ("path", "classic::crypto_kx::crypto_kx_keypair", None, False),
    ("path", "classic::crypto_onetimeauth::crypto_onetimeauth_keygen", None, False),
    ("path", "classic::crypto_pwhash::crypto_pwhash_str", None, True),   # base64 feature
    ("path", "classic::crypto_secretbox::crypto_secretbox_keygen", None, False),
    ("path", "classic::crypto_secretbox::crypto_secretbox_keygen_inplace", None, False),
    ("path", "classic::crypto_secretstream_xchacha20poly1305::crypto_secretstream_xchacha20poly1305_init_push", None, False),
    ("path", "classic::crypto_secretstream_xchacha20poly1305::crypto_secretstream_xchacha20poly1305_keygen", None, False),
    ("path", "classic::crypto_shorthash::crypto_shorthash_keygen", None, False),
    ("path", "classic::crypto_sign::crypto_sign_keypair", None, False),
    ("path", "classic::crypto_sign::crypto_sign_keypair_inplace", None, False),
    ("method", "dryocbox::DryocBox", "seal", False),
    ("method", "dryocbox::DryocBox", "seal_to_vecbox", False),
    ("method", "dryocstream::DryocStream", "init_push", False),
    ("method", "kdf::Kdf", "gen", False),
    ("method", "kdf::Kdf", "gen_with_defaults", False),
    ("method", "keypair::KeyPair", "gen", False),
    ("method", "keypair::KeyPair", "gen_with_defaults", False),
    ("method", "pwhash::PwHash", "hash", False),
    ("method", "pwhash::PwHash", "hash_interactive", False),
    ("method", "pwhash::PwHash", "hash_moderate", False),
    ("method", "pwhash::PwHash", "hash_sensitive", False),
    ("method", "pwhash::PwHash", "hash_with_defaults", False),
    ("method", "sign::SigningKeyPair", "gen", False),
    ("method", "sign::SigningKeyPair", "gen_with_defaults", False),
    ("re", r" as types::NewByteArray<LENGTH>>::gen$", 3, False),
    ("re", r" as types::NewByteArray<LENGTH>>::gen$", 5, True),
    ("re", r"NewLocked<A>>::gen_locked$", 1, True),
    ("re", r"NewLocked<A>>::gen_readonly_locked$", 1, True),
    ("re", r"^keypair::protected::.*::gen_(readonly_)?locked_keypair$", 2, True),
    ("re", r"^sign::protected::.*::gen_(readonly_)?locked_keypair$", 2, True),
]


def is_rng_prim(c):
    return c.path in RNG_PRIMS or c.path.startswith(("getrandom::", "rand::"))


def rng_fns(prog):
    out = []
    for f in prog.fns:
        for c in f.calls():
            if c.path in RNG_PRIMS or c.path.startswith(("getrandom::", "rand::")):
                out.append((f, c))
    return out


def run(ctx, rep):
    rep.explanation = EXPLANATION
    rep.not_decided = NOT_DECIDED
    rep.level = "proof"
    rep.trust("rand_core::OsRng (getrandom) returns fresh unpredictable bytes on every call")
    rep.trust("rustc MIR; dependency slices over-approximate data flow")
    for cfg in (["full"] if ctx.tier == "quick" else ["full", "default", "simd"]):
        check(ctx, rep, cfg)


def check(ctx, rep, cfg):
    prog = ctx.prog(cfg)
    tag = "" if cfg == "full" else "[%s]" % cfg
    prims = rng_fns(prog)
    rep.floor("RNG primitive call sites" + tag, len(prims), 1)
    srcs = set()
    for f, c in prims:
        ok = f.path.startswith("rng::") and "rand_core::OsRng" in c.full
        srcs.add(f.key)
        rep.ob("SOURCE", "%s|%s%s" % (f.path, c.path, tag), ok,
               "RNG primitive %s called from %s" % (c.full, f.path), loc=c.loc())
    # the source functions fill the *whole* buffer they are given / return, once, on every path: the
    # primitive's operand is an un-narrowed view of the out-parameter or of the returned buffer, the call
    # is not inside a loop over pieces, and it dominates every return
    from ..inline import inline as _inl
    for k in sorted(srcs | {g.key for g in prog.fns if g.path.startswith("rng::") and g.kind != "closure" and g.vis == "pub"}):
        g = _inl(prog, prog.by_key[k])
        pcs = [c for c in g.calls() if is_rng_prim(c)]
        if not pcs:
            continue
        rets = [b for b in range(g.n) if g.blocks[b]["t"]["k"] == "return"]
        for c in pcs:
            bufarg = c.args[1] if len(c.args) > 1 else (c.args[0] if c.args else None)
            ls = list(operand_locals(bufarg)) if bufarg else []
            root, narrowed = cm.view_info(g, ls[0]) if ls else (None, True)
            is_out = root is not None and (1 <= root <= g.argc or root in g.backward_slice([0]))
            in_loop = c.bb in g.reachable_from_after(c.bb)
            okc = is_out and not narrowed and not in_loop and all(must_pass(g, [c.bb], r) for r in rets)
            rep.ob("SOURCE", "%s|fills the whole buffer%s" % (g.path, tag), okc,
                   "RNG primitive operand is %s view of %s; in a loop: %s; on every path: %s" % (
                       "a narrowed" if narrowed else "the whole", g.local_name(root) if root is not None else "?", in_loop,
                       all(must_pass(g, [c.bb], r) for r in rets)), loc=c.loc())
    other_impls = [i for i in prog.impls if (i.get("trait") or "").startswith(("rand_core::", "rand::"))]
    rep.ob("SOURCE", "no crate-local RNG implementation" + tag, not other_impls,
           "impls of rand_core traits in the crate: %s" % [i["self_ty"]["t"] for i in other_impls])
    # seeds / deterministic generators named anywhere
    seeded = []
    for f in prog.fns:
        for c in f.calls():
            if "SeedableRng" in c.path or "from_seed" in c.path and "rand" in c.path:
                seeded.append(c.loc())
    rep.ob("SOURCE", "no seedable generator" + tag, not seeded, "seedable RNG constructions: %s" % seeded)
    # ---- ALWAYS --------------------------------------------------------------------------------
    # functions are analysed with their private helpers folded in and calls of closure / function-item
    # values resolved (`Self::filled_with(crypto_box_keypair_inplace)` draws randomness although no call
    # edge of the plain call graph says so)
    from ..inline import inline
    views = {}

    def view(k):
        if k not in views:
            g = prog.by_key[k]
            views[k] = inline(prog, g) if g.kind != "closure" else g
        return views[k]
    always = set(srcs)
    rev = {}
    plain = cm.can_reach(prog, [prog.by_key[k] for k in srcs])

    def passes_callable(g):
        # hands a function item or a closure to a callee (a call the plain call graph does not show)
        for c in g.calls():
            for a in c.args:
                if a.get("k") == "const" and "fn_key" in a:
                    return True
                if a.get("k") in ("copy", "move") and not a["p"] and g.locals[a["l"]].get("k") == "closure":
                    return True
        return False
    # "may draw": the RNG is reachable along *feasible* edges of the view (a helper `new_keypair(seed:
    # Option<..>)` folded into `seed_keypair` with `Some(seed)` has its random arm pruned: the seeded
    # entry point does not draw although the plain call graph says it could)
    live_callees = {}
    prim_callers = set()
    for g in prog.fns:
        if g.kind == "closure" or not (g.key in plain or passes_callable(g)):
            continue
        v = view(g.key)
        live = v.live_blocks
        ks = set()
        for c in v.calls():
            if c.bb not in live:
                continue
            if is_rng_prim(c):
                prim_callers.add(g.key)
            for t in prog.callee_fns(c):
                ks.add(t.key)
        live_callees[g.key] = ks
    reach_any = set(srcs) | prim_callers
    grew = True
    while grew:
        grew = False
        for k, ks in live_callees.items():
            if k not in reach_any and ks & reach_any:
                reach_any.add(k)
                grew = True
    changed = True
    while changed:
        changed = False
        for k in reach_any:
            if k in always:
                continue
            f = view(k)
            blocks = [c.bb for c in f.calls() if c.bb in f.live_blocks and (any(t.key in always for t in prog.callee_fns(c)) or is_rng_prim(c))]
            if not blocks:
                continue
            rets = [b for b in range(f.n) if f.blocks[b]["t"]["k"] == "return"]
            if rets and (all(must_pass(f, blocks, r) for r in rets) or err_only_bypass(f, blocks)):
                always.add(k)
                changed = True
    n_pub = 0
    for k in sorted(reach_any, key=lambda k: prog.by_key[k].path):
        f = view(k)
        if f.kind == "closure" or f.vis != "pub" and not is_trait_impl_pub(prog, f):
            continue
        if k in srcs:
            continue
        ok = k in always
        detail = "draws from the OS RNG on every path to return"
        if not ok:
            # allowed only when every non-drawing path is an early error return (argument validation)
            blocks = [c.bb for c in f.calls() if any(t.key in always for t in prog.callee_fns(c)) or is_rng_prim(c)]
            okerr = err_only_bypass(f, blocks)
            if okerr:
                ok = True
                detail = "draws from the OS RNG on every path to an Ok/normal return (bypasses are Err returns)"
            else:
                detail = "a normal return is reachable without drawing from the RNG"
        n_pub += 1
        rep.ob("ALWAYS", f.path + tag, ok, detail, loc=f.loc(), key="ALWAYS|%s|%s" % (f.path + tag, f.key.split("::")[-2]))
        if n_pub <= 12:
            rep.sample({"randomised_entry": f.path, "always": ok})
    rep.floor("public randomised entry points" + tag, n_pub, 30 if cfg != "default" else 24)
    # frozen table of documented randomised entry points (public API names): each must still exist
    # and still be always-random -- a function that stops drawing altogether would otherwise just
    # drop out of the discovered set.
    import re as _re
    nightly = cfg != "default"
    for kind, a, b, needs_nightly in DOCUMENTED:
        if needs_nightly and not nightly:
            continue
        if kind == "path":
            fs = prog.by_path.get(a, [])
            name = a
        elif kind == "method":
            fs = cm.find_method(prog, a, b)
            name = "%s::%s" % (a, b)
        else:
            fs = [f for f in prog.fns if _re.search(a, f.path) and f.kind != "closure"]
            name = a
        if len(fs) < (b if kind == "re" else 1):
            rep.violation("DOCUMENTED", name + tag, "documented randomised entry point not found (fail closed)")
            continue
        for f in fs:
            rep.ob("DOCUMENTED", "%s|%s%s" % (name, f.path, tag), f.key in always,
                   "documented to draw randomness: %s" % ("draws on every path" if f.key in always else
                                                          "does NOT draw from the OS RNG on every path (or at all)"),
                   loc=f.loc(), key="DOCUMENTED|%s|%s%s" % (name, f.key, tag))
    # ---- RANDOM-OUT ----------------------------------------------------------------------------
    direct = [prog.by_key[k] for k in reach_any]
    for f in sorted(direct, key=lambda f: f.path):
        if f.key in srcs:
            continue
        for c in f.calls():
            tg = prog.callee_fns(c)
            if not tg or not all(t.key in srcs for t in tg):
                continue
            random_out(rep, prog, f, c, tag)
    random_len(rep, prog, tag)
    sinks(rep, prog, always, srcs, tag)


VEC_LEN0 = ("std::vec::Vec::<T>::new", "std::vec::Vec::<T>::with_capacity", "std::default::Default::default")
VEC_CHANGERS = ("resize", "truncate", "push", "clear", "extend_from_slice", "pop", "extend", "insert", "remove", "drain", "split_off", "set_len")


def random_len(rep, prog, tag):
    """RANDOM-LEN: `NewByteArray<LENGTH>::gen()` (public trait) hands back LENGTH random bytes: the
    container it fills and returns is fixed-size by type, or a Vec created with LENGTH elements and not
    re-sized before it is returned (a Vec created empty gives the RNG nothing to fill)."""
    from ..inline import inline
    from ..lenck import array_len_of_ty, container_len_of_ty
    n = 0
    for imp in prog.impls:
        if not (imp.get("trait") or "").startswith("types::NewByteArray"):
            continue
        for it in imp["items"]:
            if it["name"] != "gen":
                continue
            g = prog.by_key.get(it["key"])
            if g is None:
                continue
            v = inline(prog, g, pick=lambda call, t: t.kind != "closure" and t.file == g.file and t.n <= 16 and not t.path.startswith("rng::"))
            rty = v.locals[0]
            st = imp["self_ty"]["t"]
            inst = "<%s as NewByteArray>::gen|returns LENGTH random bytes%s" % (st, tag)
            if array_len_of_ty(rty) is not None or container_len_of_ty(rty) is not None or "; LENGTH]" in rty.get("t", "") or "<LENGTH>" in rty.get("t", ""):
                n += 1
                rep.ob("RANDOM-LEN", inst, True, "the returned container `%s` has LENGTH bytes by type" % rty.get("t", "")[:60], loc=g.loc())
                continue
            if "Vec<u8>" not in rty.get("t", ""):
                continue        # other containers: not decided here
            n += 1
            root = cm.view_info(v, 0)[0]
            ds = def_sites(v, root)
            made = None
            for b, kind, payload in ds:
                if kind == "call":
                    c = payload
                    if c.path == "std::vec::from_elem" and len(c.args) == 2:
                        e = expr_of_operand(v, c.args[1])
                        made = "LENGTH" if (e.k == "const" and e.a is None and str(e.b) == "LENGTH") else deep_repr(e)[:40]
                    elif c.path in VEC_LEN0 or c.name in ("new", "with_capacity", "default", "new_bytes"):
                        made = "0"
                    else:
                        made = "?%s" % c.path.split("::")[-1]
            changed = [c.loc() for c in v.calls() if c.name in VEC_CHANGERS and c.args and c.args[0].get("k") in ("copy", "move")
                       and cm.view_info(v, c.args[0]["l"])[0] == root and not v.blocks[c.bb]["cleanup"]]
            ok = len(ds) == 1 and made == "LENGTH" and not changed
            rep.ob("RANDOM-LEN", inst, ok,
                   "the returned Vec is created with %s element(s)%s" % (made, "" if not changed else " and re-sized at %s" % changed[:2]),
                   loc=g.loc())
    rep.floor("NewByteArray::gen impls" + tag, n, 3)


def is_trait_impl_pub(prog, f):
    imp = prog.fn_impl(f)
    return bool(imp and imp.get("trait"))


def err_only_bypass(f, blocks):
    from ..expr import result_kind_of_ret
    if f.locals[0].get("path") != "std::result::Result":
        return False
    reach = f.reachable(0, cut_blocks=blocks)
    for b, kind, e in result_kind_of_ret(f):
        if kind != "err" and b in reach:
            return False
    return True


def random_out(rep, prog, f, c, tag):
    """c: direct call to copy_randombytes(buf) or randombytes_buf(len) in f."""
    inst = "%s|%s@%s%s" % (f.path, c.rpath.split("::")[-1], nth_call(f, c), tag)
    if c.args and f.locals[c.dest["l"]]["t"] == "()":
        ls = list(operand_locals(c.args[0]))
        root, narrowed = cm.view_info(f, ls[0])
    else:
        root, narrowed = c.dest["l"], False
    escapes = (1 <= root <= f.argc) or (root in f.backward_slice([0])) or _field_of_param(f, root)
    rep.ob("RANDOM-OUT", inst + "|escapes", escapes and not narrowed,
           "RNG-written buffer `%s` %s%s" % (f.local_name(root),
                                            "is an out-parameter / flows into the return value" if escapes else "never leaves the function",
                                            " (only a sub-range is randomised)" if narrowed else ""), loc=c.loc())
    # no later non-RNG write to the same storage
    views = views_of(f, [root])
    after = f.reachable_from_after(c.bb)
    bad = []
    for w in f.calls():
        if w.bb not in after or w.bb == c.bb:
            continue
        if w.path in RESLICE or w.rpath in RESLICE:
            continue
        for i, a in enumerate(w.args):
            if a.get("k") in ("copy", "move") and a["l"] in views and not views[a["l"]]:
                ty = f.locals[a["l"]]["t"]
                if ty.startswith("&mut") and w.path in ("core::slice::<impl [T]>::fill", "zeroize::Zeroize::zeroize",
                                                       "core::slice::<impl [T]>::copy_from_slice", "types::MutBytes::copy_from_slice") and i == 0:
                    bad.append(w)
    # growing/shrinking the buffer after the draw appends constant bytes (or drops random ones)
    for w in f.calls():
        if w.bb not in after or w.bb == c.bb or not w.args:
            continue
        if w.name in ("resize", "extend_from_slice", "push", "truncate", "extend", "insert", "append", "resize_with") and (
                w.path.startswith(("std::vec::Vec", "types::ResizableBytes", "std::iter::Extend")) or w.is_local):
            ls = list(operand_locals(w.args[0]))
            if ls and cm.view_info(f, ls[0])[0] == root:
                bad.append(w)
    rep.ob("RANDOM-OUT", inst + "|not-overwritten", not bad,
           "after the RNG call the whole buffer is %s" % ("neither overwritten nor resized" if not bad else "overwritten/resized by %s" % [w.loc() + " " + w.name for w in bad]),
           loc=c.loc())


def _field_of_param(f, root):
    return False


def nth_call(f, c):
    same = [x for x in f.calls() if x.rpath == c.rpath]
    return same.index(next(x for x in same if x.bb == c.bb))


def sinks(rep, prog, always, srcs, tag):
    # SALT: Argon2 salt operands in functions that hash a *new* password (not verify/with_salt)
    n = 0
    for f in prog.fns:
        for c in f.calls():
            tgt = c.rpath
            salt_idx = None
            if cm.is_argon2_call(prog, c):
                salt_idx = cm.argon2_arg_index(prog)["salt"]
            elif tgt.endswith("crypto_pwhash::crypto_pwhash"):
                salt_idx = 2
            if salt_idx is None or f.path.endswith("crypto_pwhash::crypto_pwhash"):
                continue
            ls = list(operand_locals(c.args[salt_idx]))
            if not ls:
                rep.violation("SALT", "%s|const-salt%s" % (f.path, tag), "salt operand is a constant", loc=c.loc())
                continue
            root, _ = cm.view_info(f, ls[0])
            back = f.backward_slice([root])
            from_param = any(1 <= l <= f.argc for l in back)
            rng_calls = [r for r in f.calls() if any(t.key in always for t in prog.callee_fns(r))
                         and r.args and any(cm.view_info(f, l)[0] == root for a in r.args for l in operand_locals(a))]
            dom = [r for r in rng_calls if r.bb in f.dom.get(c.bb, ())]
            n += 1
            if dom:
                rep.ob("SALT", "%s|salt%s" % (f.path, tag), True,
                       "salt operand `%s` is RNG-written at %s, which dominates the Argon2 call" % (f.local_name(root), dom[0].loc()), loc=c.loc())
            elif from_param and not is_fresh_const(f, root):
                rep.ob("SALT", "%s|salt%s" % (f.path, tag), True,
                       "salt operand derives from a caller-supplied parameter (verification / explicit salt API)", loc=c.loc())
            else:
                rep.violation("SALT", "%s|salt%s" % (f.path, tag),
                              "salt operand `%s` of the Argon2 call is never written by the RNG on the paths reaching the call "
                              "(it degrades to a constant)" % f.local_name(root), loc=c.loc())
    rep.floor("Argon2 salt operands" + tag, n, 3)
    # HEADER: init_push
    for f in prog.by_path.get("classic::crypto_secretstream_xchacha20poly1305::crypto_secretstream_xchacha20poly1305_init_push", []):
        hs = [q for q in cm.params_of(f) if "[u8; 24]" in f.locals[q]["t"]]     # init_push(state, header, key)
        hdr = hs[0] if len(hs) == 1 else f.arg_local("header")
        rcs = [r for r in f.calls() if any(t.key in always for t in prog.callee_fns(r)) and r.args
               and any(cm.view_info(f, l) == (hdr, False) for l in operand_locals(r.args[0]))]
        uses = [u for u in f.calls() if u not in rcs and any(cm.view_info(f, l)[0] == hdr for a in u.args for l in operand_locals(a))
                and u.path not in RESLICE and u.rpath not in RESLICE]
        ok = bool(rcs) and all(rcs[0].bb in f.dom.get(u.bb, ()) for u in uses)
        rep.ob("HEADER", f.path + tag, ok and bool(uses),
               "the whole header is RNG-written (%s) before each of its %d uses" % (rcs[0].loc() if rcs else "never", len(uses)), loc=f.loc())
    # SEAL: ephemeral key pair
    sealers = prog.by_path.get("classic::crypto_box::crypto_box_seal", []) + cm.find_method(prog, "dryocbox::DryocBox", "seal")
    rep.floor("sealing functions" + tag, len(sealers), 2)
    from ..inline import inline as _inl2
    for f in [_inl2(prog, f_) for f_ in sealers]:      # builders taking closures / private helpers folded in
        kp = [c for c in f.calls() if any(t.key in always for t in prog.callee_fns(c)) and "keypair" in c.rpath]
        if not kp:
            rep.violation("SEAL", f.path + tag, "no call to a randomised key-pair generator", loc=f.loc())
            continue
        k = kp[0]
        fw = f.forward_slice([k.dest["l"]])
        enc = [c for c in f.calls() if c.is_local and c.bb in f.reachable_from_after(k.bb) and
               ("crypto_box_easy" in c.rpath or "crypto_box_detached" in c.rpath)]
        ok_sk = bool(enc) and all(operand_locals(c.args[-1]) & fw for c in enc)
        rep.ob("SEAL", f.path + "|esk" + tag, ok_sk and all(k.bb in f.dom.get(c.bb, ()) for c in enc),
               "the secret key passed to the box call derives from the freshly generated key pair (%s)" % k.loc(), loc=k.loc())
        # the emitted ephemeral public key derives from the same pair
        outs = f.backward_slice([0]) | set(range(1, f.argc + 1))
        rep.ob("SEAL", f.path + "|epk" + tag, k.dest["l"] in f.backward_slice([0]) or any(
            (p in f.forward_slice([k.dest["l"]])) for p in range(1, f.argc + 1) if f.locals[p]["t"].startswith("&mut")),
            "the generated public key flows into the output", loc=k.loc())


def is_fresh_const(f, root):
    d = def_sites(f, root)
    return len(d) == 1 and d[0][1] == "assign" and d[0][2]["rv"]["k"] == "repeat"
