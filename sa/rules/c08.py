"""C08 — incremental equals one-shot: the forwarding clause (FWD)."""
from ..core import operand_locals
from ..expr import expr_of_operand, call_arg_exprs, deep_repr
from . import common as cm

INNER_EXTERNAL = ("sha2::Digest::update", "digest::Digest::update", "digest::Update::update")
INNER_LOCAL_SUFFIX = ("blake2b::blake2b_soft::State::update", "blake2b::blake2b_simd::State::update",
                      "poly1305::poly1305_soft::Poly1305::update")

PUBLIC_UPDATES = [
    ("classic::crypto_auth::crypto_auth_update",),
    ("classic::crypto_onetimeauth::crypto_onetimeauth_update",),
    ("classic::crypto_generichash::crypto_generichash_update",),
    ("classic::crypto_hash::crypto_hash_sha512_update",),
    ("classic::crypto_sign::crypto_sign_update",),
    ("auth::Auth", "update"),
    ("onetimeauth::OnetimeAuth", "update"),
    ("generichash::GenericHash", "update"),
    ("sha512::Sha512", "update"),
    ("sign::IncrementalSigner", "update"),
]
ONE_SHOTS = [
    # (one-shot anchor, incremental update anchor)
    (("classic::crypto_auth::crypto_auth",), ("classic::crypto_auth::crypto_auth_update",)),
    (("classic::crypto_onetimeauth::crypto_onetimeauth",), ("classic::crypto_onetimeauth::crypto_onetimeauth_update",)),
    (("classic::crypto_generichash::crypto_generichash",), ("classic::crypto_generichash::crypto_generichash_update",)),
    (("classic::crypto_hash::crypto_hash_sha512",), ("classic::crypto_hash::crypto_hash_sha512_update",)),
    (("sha512::Sha512", "compute"), ("sha512::Sha512", "update")),
    (("sha512::Sha512", "compute_into_bytes"), ("sha512::Sha512", "update")),
    (("auth::Auth", "compute"), ("auth::Auth", "update")),
    (("onetimeauth::OnetimeAuth", "compute"), ("onetimeauth::OnetimeAuth", "update")),
    (("generichash::GenericHash", "hash"), ("generichash::GenericHash", "update")),
]

MULTI_CONFIG = True

EXPLANATION = (
    "FWD: every incremental update wrapper (10 public entry points and the private helpers below them, "
    "down to the inner hasher update: sha2::Digest::update, blake2b State::update, Poly1305::update) has on "
    "every path exactly one call that forwards the whole input parameter (no Index/split narrowing between "
    "the parameter and the argument), that call dominates every return and lies outside any loop, and no "
    "branch in the wrapper depends on the input. ONE-SHOT: each one-shot function reaches, through "
    "init -> update(whole message) -> final on one state object in dominance order, the same inner update "
    "function as the incremental wrapper. HMAC: final = finalize(inner) -> update(outer, inner digest) once "
    "-> finalize(outer); the pads are absorbed in init, once each, before init returns. Consequence: for "
    "SHA-512, HMAC-SHA-512-256 and pre-hashed signing the chunking property reduces to sha2::Sha512. FINAL: the "
    "output of every public finalisation entry point (returned value, or the &mut output parameter) depends on the "
    "contents of the accumulated state.")
NOT_DECIDED = ("the crate-local buffering arithmetic inside blake2b::State::update/finalize and Poly1305::update/"
               "finalize (generic hash, one-time auth): equality under every partition is value-level and is NOT decided.")


def get(prog, a):
    return prog.by_path.get(a[0], []) if len(a) == 1 else cm.find_method(prog, a[0], a[1])


def is_inner(c):
    if c.path in INNER_EXTERNAL:
        return "sha2"
    rp = c.rpath
    for s in INNER_LOCAL_SUFFIX:
        if rp.endswith(s):
            return s.split("::")[-2]
    return None


def data_param(f):
    """index of the input/message parameter of an update-like function: the last parameter"""
    return f.argc


def fwd_check(prog, f, memo, depth=0, inp=None):
    """Returns (ok, inner_kind, details).  `inp` = index of the data parameter (default: last)."""
    if inp is None:
        inp = data_param(f)
    mk = (f.key, inp)
    if mk in memo:
        return memo[mk]
    memo[mk] = (False, None, ["recursive wrapper"])
    problems = []
    fw = f.forward_slice([inp])
    cands = []
    for c in f.calls():
        # which argument carries (a view of) the input?
        carry = [i for i, a in enumerate(c.args) if operand_locals(a) and
                 any(cm.view_info(f, l)[0] == inp for l in operand_locals(a))]
        if not carry:
            continue
        if c.path in cm_reslice() or c.rpath in cm_reslice():
            continue
        ik = is_inner(c)
        kind = ik
        if ik is None:
            tg = [t for t in prog.callee_fns(c) if t.kind != "closure"]
            if not tg:
                problems.append("input is passed to external function %s" % c.path)
                kind = "bad"
            for t in tg:
                if depth >= 6:
                    problems.append("wrapper chain too deep")
                    kind = "bad"
                    break
                r = fwd_check(prog, t, memo, depth + 1, carry[0] + 1)
                if r[0]:
                    kind = r[1]
                else:
                    problems.append("callee %s is not a forwarding wrapper: %s" % (t.path, "; ".join(r[2])))
                    kind = "bad"
        cands.append((c, kind, carry[0]))
    if len(cands) != 1:
        problems.append("%d calls consume the input (expected exactly one forwarding call)" % len(cands))
        memo[mk] = (False, None, problems)
        return memo[mk]
    c, kind, ai = cands[0]
    if kind == "bad":
        memo[mk] = (False, None, problems)
        return memo[mk]
    darg = c.args[ai]
    ls = list(operand_locals(darg))
    root, narrowed = cm.view_info(f, ls[0]) if ls else (None, True)
    if root != inp or narrowed:
        problems.append("forwarded argument is %s of the input parameter" % ("a narrowed view" if root == inp else "not a view"))
    rets = [b for b in range(f.n) if f.blocks[b]["t"]["k"] == "return"]
    if not all(c.bb in f.dom.get(r, ()) for r in rets):
        problems.append("the forwarding call does not dominate every return (conditional forwarding)")
    if c.bb in f.reachable_from_after(c.bb):
        problems.append("the forwarding call is inside a loop")
    for b in range(f.n):
        t = f.blocks[b]["t"]
        if t["k"] == "switch" and b in f.reachable(0) and not f.blocks[b]["cleanup"]:
            if operand_locals(t["x"]) & fw:
                problems.append("branch at %s depends on the input" % f.loc(b))
    if f.argc >= 2:
        st = 1 if inp != 1 else 2
        views = set(f.forward_slice([st]))
        others = [o for o in f.calls() if o.bb != c.bb and any(
            a.get("k") in ("copy", "move") and a["l"] in views and f.locals[a["l"]]["t"].startswith("&mut") for a in o.args)
            and o.path not in cm_reslice() and o.rpath not in cm_reslice()]
        if others:
            problems.append("state is also written by %s" % [o.rpath.split("::")[-1] for o in others])
    memo[mk] = (not problems, kind, problems)
    return memo[mk]


def cm_reslice():
    from ..engines import RESLICE
    return RESLICE


def run(ctx, rep):
    rep.explanation = EXPLANATION
    rep.not_decided = NOT_DECIDED
    rep.trust("sha2::Sha512 (Digest::update) is chunking-invariant")
    # the SIMD BLAKE2b backend has its own buffering code: it is part of every run
    cfgs = ["full", "simd"] if ctx.tier == "quick" else ["full", "default", "simd"]
    for cfg in cfgs:
        check(ctx, rep, cfg)


def check(ctx, rep, cfg):
    prog = ctx.prog(cfg)
    tag = "" if cfg == "full" else "[%s]" % cfg
    memo = {}
    n = 0
    for a in PUBLIC_UPDATES:
        fs = get(prog, a)
        name = "::".join(a)
        if not fs:
            rep.violation("ANCHOR", name + tag, "public incremental update function not found")
            continue
        for f in fs:
            ok, kind, problems = fwd_check(prog, f, memo)
            n += 1
            rep.ob("FWD", name + tag, ok, ("forwards the whole input once, unconditionally, to the %s update" % kind) if ok else "; ".join(problems), loc=f.loc())
    for (k, _inp), (ok, kind, problems) in sorted(memo.items()):
        f = prog.by_key[k]
        if any(f in get(prog, a) for a in PUBLIC_UPDATES):
            continue
        n += 1
        rep.ob("FWD", f.path + tag, ok, ("private helper forwards the whole input once to the %s update" % kind) if ok else "; ".join(problems), loc=f.loc())
        rep.sample({"wrapper": f.path, "inner": kind})
    rep.floor("public update wrappers" + tag, sum(len(get(prog, a)) for a in PUBLIC_UPDATES), 10)
    # ---- one-shot ----------------------------------------------------------------------------
    m = 0
    for osa, upa in ONE_SHOTS:
        ofs, ufs = get(prog, osa), get(prog, upa)
        name = "::".join(osa)
        if not ofs or not ufs:
            rep.violation("ANCHOR", name + tag, "one-shot / update function not found")
            continue
        m += 1
        inner_inc = inner_update_fn(prog, ufs[0])
        ok, why = one_shot(prog, view_of(prog, ofs[0]), inner_inc)
        if not ok:
            ok, why = one_shot(prog, ofs[0], inner_inc)
        rep.ob("ONE-SHOT", name + tag, ok, why, loc=ofs[0].loc())
    rep.floor("one-shot functions" + tag, m, 9)
    hmac(rep, prog, tag)
    finals(rep, prog, tag)
    init_lengths(rep, prog, tag)
    buffer_invariants(rep, prog, tag)


PRIMITIVE_MODULES = ("blake2b::", "poly1305::", "sha512::", "<blake2b::", "<poly1305::", "<sha512::")


def view_of(prog, f):
    """f with its private wrappers folded in; the primitives' own init/update/finalize stay calls"""
    from ..inline import inline
    def api_of_primitive(g):
        # a primitive's crate-facing function: lives in a primitive module and is called from another file
        return g.path.startswith(PRIMITIVE_MODULES) and any(h.file != g.file for h in prog.callers(g))
    return inline(prog, f, keep=(api_of_primitive,))


def inner_update_fn(prog, f, depth=0, inp=None):
    """The innermost update callee identity (external path or local fn key) an update wrapper reaches."""
    if inp is None:
        inp = data_param(f)
    for c in f.calls():
        carry = [i for i, a in enumerate(c.args) if any(cm.view_info(f, l)[0] == inp for l in operand_locals(a))]
        if not carry or c.path in cm_reslice() or c.rpath in cm_reslice():
            continue
        if is_inner(c):
            return c.rkey or c.path
        for t in prog.callee_fns(c):
            if depth < 6 and t.kind != "closure":
                r = inner_update_fn(prog, t, depth + 1, carry[0] + 1)
                if r:
                    return r
    return None


def one_shot(prog, f, inner_inc, depth=0):
    """f (or a callee it delegates to entirely) performs init -> update(whole msg) -> final."""
    why_all = []
    for p in range(1, f.argc + 1):
        ups = []
        for c in f.calls():
            carry = [i for i, a in enumerate(c.args) if any(cm.view_info(f, l)[0] == p for l in operand_locals(a))]
            if not carry or c.path in cm_reslice() or c.rpath in cm_reslice():
                continue
            if is_inner(c):
                ups.append((c, c.rkey or c.path, carry[0]))
                continue
            for t in prog.callee_fns(c):
                if t.kind == "closure" or carry[0] == 0 or f.locals[c.dest["l"]]["t"] != "()":
                    continue
                if not t.locals[1]["t"].startswith("&mut"):
                    continue
                inner = inner_update_fn(prog, t, 0, carry[0] + 1)
                if inner:
                    ups.append((c, inner, carry[0]))
        if len(ups) != 1:
            continue
        c, inner, ai = ups[0]
        ok, why = _one_shot_at(prog, f, c, inner, ai, p, inner_inc)
        if ok:
            return True, why
        why_all.append(why)
    # pure delegation: a crate-local callee does it
    for c in f.calls():
        passed = set()
        for a in c.args:
            passed |= f.backward_slice(operand_locals(a))
        if not all(q in passed for q in range(1, f.argc + 1)):
            continue     # a delegate must receive every parameter (in particular the message)
        for t in prog.callee_fns(c):
            if depth < 4 and t.kind != "closure" and not t.path.startswith(("error::", "types::", "<")):
                ok, why = one_shot(prog, view_of(prog, t), inner_inc, depth + 1)
                if ok:
                    return True, "delegates to %s: %s" % (t.path.split("::")[-1], why)
    return False, "; ".join(why_all) or "no init → update(whole message) → final sequence found"


def _one_shot_at(prog, f, c, inner, ai, p, inner_inc):
    if inner != inner_inc:
        return False, "one-shot reaches update %s, incremental API reaches %s" % (inner, inner_inc)
    ls = list(operand_locals(c.args[ai]))
    root, narrowed = cm.view_info(f, ls[0]) if ls else (None, True)
    if root != p or narrowed:
        return False, "update argument is not the whole message parameter"
    st_root = cm.view_info(f, list(operand_locals(c.args[0]))[0])[0]
    back = f.backward_slice([st_root]) | {st_root}
    inits = [i for i in f.calls() if i.dest["l"] in back and i.bb != c.bb and i.bb in f.dom.get(c.bb, ())
             and f.locals[i.dest["l"]]["t"] not in ("()",)]
    fins = [x for x in f.calls() if x.bb != c.bb and c.bb in f.dom.get(x.bb, ()) and x.args and
            st_root in f.backward_slice(operand_locals(x.args[0])) and x.path not in cm_reslice() and x.rpath not in cm_reslice()]
    if not inits:
        return False, "no call producing the updated state dominates the update"
    if not fins:
        return False, "no finalisation of the same state after the update"
    rets = [b for b in range(f.n) if f.blocks[b]["t"]["k"] == "return"]
    if f.locals[0].get("path") != "std::result::Result" and not all(c.bb in f.dom.get(r, ()) for r in rets):
        return False, "update is conditional"
    return True, "%s → update(whole `%s`) → %s via the same inner update as the incremental API" % (
        inits[0].name, f.local_name(root), fins[0].name)


def init_lengths(rep, prog, tag):
    """INIT-LEN: an incremental hasher object whose digest length is a const parameter of its type
    (`GenericHash<KEY_LENGTH, OUTPUT_LENGTH>`) initialises the BLAKE2b state with *that* parameter: the
    digest length is part of the parameter block, so initialising with another length and emitting
    OUTPUT_LENGTH bytes is not BLAKE2b-OUTPUT_LENGTH (and differs from the one-shot result)."""
    from ..inline import inline
    n = 0
    for imp in prog.impls:
        gens = imp.get("generics", [])
        st = imp["self_ty"]["t"]
        if not st.startswith("generichash::GenericHash<") or "OUTPUT_LENGTH" not in gens or imp.get("trait"):
            continue
        for it in imp["items"]:
            f0 = prog.by_key.get(it["key"])
            if f0 is None or f0.kind == "closure":
                continue
            f = inline(prog, f0)
            for c in f.calls():
                if not c.rpath.endswith("crypto_generichash::crypto_generichash_init") or len(c.args) < 2:
                    continue
                n += 1
                e = call_arg_exprs(c)[1]
                ok = e.k == "const" and e.a is None and str(e.b) == "OUTPUT_LENGTH"
                rep.ob("INIT-LEN", "%s|digest length = OUTPUT_LENGTH%s" % (f0.path, tag), ok,
                       "the incremental state is initialised with digest length %s" % (deep_repr(e)[:60]), loc=c.loc())
    rep.floor("GenericHash incremental constructors" + tag, n, 1)
    # ... and finalises into OUTPUT_LENGTH bytes: an output buffer the method sizes itself (`vec![0; n]`,
    # `resize(n, 0)`) is sized by that parameter, not by a constant (a container typed `NewByteArray<OUTPUT_LENGTH>`
    # has the length by type)
    from ..core import def_sites
    from ..expr import evaluate
    m = 0
    for imp in prog.impls:
        gens = imp.get("generics", [])
        st = imp["self_ty"]["t"]
        if not st.startswith("generichash::GenericHash<") or "OUTPUT_LENGTH" not in gens or imp.get("trait"):
            continue
        for it in imp["items"]:
            f0 = prog.by_key.get(it["key"])
            if f0 is None or f0.kind == "closure":
                continue
            f = inline(prog, f0)
            for c in f.calls():
                oi = 1 if c.rpath.endswith("crypto_generichash::crypto_generichash_final") else 0 if c.rpath.endswith("crypto_generichash::crypto_generichash") else None
                if oi is None or len(c.args) <= oi or not operand_locals(c.args[oi]):
                    continue
                m += 1
                root = cm.view_info(f, list(operand_locals(c.args[oi]))[0])[0]
                sizes = []
                for d in def_sites(f, root):
                    if d[1] == "call" and d[2].name in ("from_elem", "with_capacity") and len(d[2].args) >= 1:
                        sizes.append(call_arg_exprs(d[2])[-1])
                for r in f.calls():
                    if r.name == "resize" and len(r.args) >= 2 and operand_locals(r.args[0]) and cm.view_info(f, list(operand_locals(r.args[0]))[0])[0] == root:
                        sizes.append(call_arg_exprs(r)[1])
                bad = [deep_repr(e)[:40] for e in sizes if not (e.k == "const" and e.a is None and str(e.b) == "OUTPUT_LENGTH")]
                rep.ob("INIT-LEN", "%s|output length = OUTPUT_LENGTH%s" % (f0.path, tag), not bad,
                       "the output buffer is sized by %s" % (bad or ("its type" if not sizes else "OUTPUT_LENGTH")), loc=c.loc())
    rep.floor("GenericHash finalisers / one-shot" + tag, m, 2)


def hmac(rep, prog, tag):
    # discovered from the public API: the function reachable from crypto_auth_final / crypto_auth_init that
    # drives two SHA-512 contexts
    from ..inline import inline

    def find_under(pub, pred):
        # the lowest function below the public entry point whose view (private helpers folded in) matches
        roots = prog.by_path.get(pub, [])
        hits = {}
        for k in prog.reach_fns(roots):
            v = inline(prog, prog.by_key[k])
            if pred(v):
                hits[k] = v
        low = [v for k, v in hits.items() if not any(h.key in hits and h.key != k for h in prog.callees(prog.by_key[k]))]
        return low[:1]
    sha_calls = lambda g, nm: [c for c in g.calls() if c.is_local and c.rpath == "sha512::Sha512::" + nm]
    fin = find_under("classic::crypto_auth::crypto_auth_final", lambda g: len(sha_calls(g, "finalize_into_bytes")) + len(sha_calls(g, "finalize")) >= 2)
    ini = find_under("classic::crypto_auth::crypto_auth_init", lambda g: len(sha_calls(g, "update")) >= 2 and len(sha_calls(g, "new")) >= 2)
    if not fin or not ini:
        rep.violation("ANCHOR", "HMAC init/final" + tag, "no function below crypto_auth_init/crypto_auth_final drives two SHA-512 contexts")
        return
    # roles of the two contexts, not their names: the inner context is the one message bytes go to
    # (below crypto_auth_update); the outer one is the other field of the same state record
    upd = find_under("classic::crypto_auth::crypto_auth_update", lambda g: any(
        c.args and len(c.args) == 2 and operand_locals(c.args[1]) and cm.view_info(g, list(operand_locals(c.args[1]))[0])[0] in range(1, g.argc + 1)
        for c in sha_calls(g, "update")))
    if not upd:
        rep.violation("ANCHOR", "HMAC update" + tag, "no function below crypto_auth_update feeds the message to a SHA-512 context")
        return
    u = upd[0]
    inner = None
    for c in sha_calls(u, "update"):
        e = expr_of_operand(u, c.args[0])
        if e.k == "field":
            inner = e.b.split(".")[-1]
    f = fin[0]
    seq = []
    calls_ = []
    for c in sorted(f.calls(), key=lambda c: (len(f.dom.get(c.bb, ())), c.bb)):
        if c.is_local and c.rpath.startswith("sha512::Sha512::"):
            fld = expr_of_operand(f, c.args[0])
            seq.append((c.name, repr(fld).split(".")[-1]))
            calls_.append(c)
    names = {n_ for _, n_ in seq}
    outer = next(iter(names - {inner}), None) if len(names) == 2 else None
    fin_names = ("finalize_into_bytes", "finalize")
    ok = inner is not None and outer is not None and len(seq) == 3 and seq[0][0] in fin_names and seq[0][1] == inner and \
        seq[1] == ("update", outer) and seq[2][0] in fin_names and seq[2][1] == outer
    if ok:
        # the outer context absorbs the inner digest
        d_in = cm.view_info(f, list(operand_locals(calls_[0].args[1]))[0])[0] if len(calls_[0].args) > 1 and operand_locals(calls_[0].args[1]) else calls_[0].dest["l"]
        d_up = cm.view_info(f, list(operand_locals(calls_[1].args[1]))[0])[0]
        ok = d_in == d_up
    rep.ob("HMAC", "final = H(opad-state || H(ipad-state...))" + tag, ok,
           "final performs %s; inner (message) context is `%s`, outer `%s`" % (seq, inner, outer), loc=f.loc())
    g = ini[0]
    ups = [c for c in g.calls() if c.rpath == "sha512::Sha512::update"]
    # which local context ends up in which field of the returned record
    role_of_local = {}
    for b_, i_, st_ in g.assigns():
        rv = st_["rv"]
        if rv["k"] == "agg" and rv.get("agg") == "adt" and rv.get("fields"):
            for nm, o in zip(rv["fields"], rv["ops"]):
                for l in operand_locals(o):
                    role_of_local[cm.view_info(g, l)[0]] = nm
    targets = []
    for c in ups:
        r = cm.view_info(g, list(operand_locals(c.args[0]))[0])[0]
        targets.append(role_of_local.get(r, g.local_name(r)))
    rets = [b for b in range(g.n) if g.blocks[b]["t"]["k"] == "return"]
    ok = len(ups) == 2 and sorted(targets) == sorted([inner or "?", outer or "?"]) and all(all(c.bb in g.dom.get(r, ()) for r in rets) for c in ups) and \
        not any(c.bb in g.reachable_from_after(c.bb) for c in ups)
    rep.ob("HMAC", "pads absorbed once each in init" + tag, ok, "init updates %s" % targets, loc=g.loc())
    # ipad (0x36) goes to the inner context, opad (0x5c) to the outer one
    from ..expr import call_arg_exprs, evaluate, deep_repr
    if len(ups) == 2:
        by_role = dict(zip(targets, ups))
        consts_ = {}
        for role, c in by_role.items():
            root = cm.view_info(g, list(operand_locals(c.args[1]))[0])[0]
            # the pad value in force at this update: the last whole-buffer fill dominating it, else the
            # buffer's initial repeat value
            from ..engines import views_of
            pv = views_of(g, [root])
            fills = [x for x in cm.fill_events(g, pv) if x[0] in g.dom.get(c.bb, ())]
            if fills:
                last = [x for x in fills if not any(x[0] in g.dom.get(y[0], ()) and x is not y and x[0] != y[0] for y in fills)]
                consts_[role] = last[0][3]
            else:
                e = expr_of_operand(g, {"k": "copy", "l": root, "p": []})
                consts_[role] = evaluate(e.a, {}) if e.k == "repeat" else None
        rep.ob("HMAC", "ipad 0x36 -> inner, opad 0x5c -> outer" + tag, consts_.get(inner) == 0x36 and consts_.get(outer) == 0x5c,
               "pad constants by context: %s" % consts_, loc=g.loc())


def buffer_invariants(rep, prog, tag):
    """BUFINV: forward abstract interpretation (disjunctive polyhedra over symbolic lengths) of the
    crate-local inner hashers' `update`: the pending-buffer length invariant that `finalize` relies on is
    inductive.  Poly1305: buffer < BLOCK on entry => buffer < BLOCK at every exit, and finalize hands exactly
    one block to the partial-block routine.  BLAKE2b: buf <= BLOCK is inductive and a non-empty input never
    leaves buf empty (the last block is always held back for finalisation)."""
    from .. import absint, lenck as L
    n = 0
    for f in prog.fns:
        if f.kind == "closure" or f.name != "update" or f.argc != 2:
            continue
        kind = None
        if f.path.endswith("poly1305::poly1305_soft::Poly1305::update"):
            kind = "poly"
        elif f.path.endswith("::State::update") and "blake2b::blake2b_" in f.path:
            kind = "blake"
        if not kind:
            continue
        mod = f.path.rsplit("::", 2)[0]
        cname = "BLOCK_SIZE" if kind == "poly" else "BLOCKBYTES"
        cv = [c["v"] for p_, c in prog.consts.items() if p_ == "%s::%s" % (mod, cname)]
        if not cv:
            rep.violation("ANCHOR", "%s block size%s" % (f.path, tag), "constant %s::%s not found" % (mod, cname))
            continue
        B = int(cv[0])
        # the tracked field: the Vec<u8> field of the state type
        imp = prog.fn_impl(f)
        adt = prog.adts.get(imp["self_ty"].get("path")) if imp else None
        fields = [fd["name"] for v in (adt["variants"] if adt else []) for fd in v["fields"] if fd["ty"]["t"].startswith("std::vec::Vec<u8")]
        if len(fields) != 1:
            rep.violation("ANCHOR", "%s pending buffer%s" % (f.path, tag), "expected one Vec<u8> field in the state, found %s" % fields)
            continue
        fld = fields[0]
        bound = B - 1 if kind == "poly" else B
        # private helpers (padding, buffering) are folded in; the block routine - the crate-local callee
        # shared by update and finalize - stays a call
        from ..inline import inline
        f0 = f
        fins0 = [g for g in prog.fns if g.path == f.path.rsplit("::", 1)[0] + "::finalize"]
        shared = {c.rkey for c in f0.calls() if c.is_local} & {c.rkey for g in fins0 for k_ in prog.reach_fns([g]) for c in prog.by_key[k_].calls() if c.is_local}
        f = inline(prog, f0, keep=(lambda g_: g_.key in shared,))
        it = absint.Interp(prog, f, [fld], lambda st: [L.ge(L.lin_const(bound), st.vec[fld])])
        exits = it.run()
        n += 1
        bad = []
        bad2 = []
        inp = L.lin_var(("len", f.local_name(2)))
        for b, st in exits:
            ln = st.vec[fld]
            g1 = L.ge(L.lin_const(bound), ln)
            if not absint.entails_int(st.cons, g1):
                bad.append(L.lin_repr(ln))
            if kind == "blake":
                g2 = L.ge(ln, L.lin_const(1))
                if not absint.entails_int(st.cons + [L.ge(inp, L.lin_const(1))], g2):
                    bad2.append(L.lin_repr(ln))
        rep.ob("BUFINV", "%s|pending %s %s %d is inductive%s" % (f.path, fld, "<" if kind == "poly" else "<=", B, tag), not bad and bool(exits),
               "%d abstract exit state(s); buffer length at exit: %s" % (len(exits), "all within bound" if not bad else "may be %s" % bad[:3]), loc=f.loc())
        if kind == "blake":
            rep.ob("BUFINV", "%s|non-empty input never leaves %s empty%s" % (f.path, fld, tag), not bad2 and bool(exits),
                   "the last block is held back for finalisation" if not bad2 else "buffer may be empty at exit after absorbing input: %s" % bad2[:3], loc=f.loc())
        # COVER: the sub-views of `input` handed on (to the pending buffer, to the block routine, to a
        # chunk iterator) partition the input: consecutive, no byte twice, none left out
        in_loop = []
        for c_ in f.calls():
            if c_.name in absint.PURE_VIEW_NAMES or c_.path in absint.INDEX or f.blocks[c_.bb]["cleanup"]:
                continue
            for a_ in c_.args:
                ls_ = list(operand_locals(a_))
                if ls_ and f.locals[ls_[0]]["t"].replace("'_ ", "").startswith("&") and "[u8" in f.locals[ls_[0]]["t"] and \
                        cm.view_info(f, ls_[0])[0] == 2 and c_.bb in f.reachable_from_after(c_.bb):
                    in_loop.append(c_.loc())
        if in_loop:
            # input handed on piece by piece inside a hand-written loop: the interval bookkeeping of the
            # interpreter does not follow loop-carried offsets; this clause is not decided for this shape
            rep.note("COVER %s: input sub-views are handed on inside a loop (%s): not decided" % (f.path, in_loop[:2]))
            if it.notes:
                rep.note("BUFINV %s: %s" % (f.path, sorted(set(it.notes))[:3]))
            continue_cover = False
        else:
            continue_cover = True
        it3 = absint.Interp(prog, f, [fld], lambda st: [L.ge(L.lin_const(bound), st.vec[fld])])
        it3.track_input = 2
        ex3 = it3.run() if continue_cover else []
        gaps = []
        n_cons = 0
        for b, st in ex3:
            pos = L.lin_const(0)
            for (start, ln, what, cb) in st.consumed:
                n_cons += 1
                if not absint.entails_int(st.cons, L.eq(start, pos)):
                    gaps.append("%s at %s takes input[%s..] after %s bytes were taken" % (what, f.loc(cb), L.lin_repr(start), L.lin_repr(pos)))
                    break
                pos = L.lin_add(start, ln)
            else:
                if not absint.entails_int(st.cons, L.eq(pos, inp)):
                    gaps.append("an exit at %s is reached with %s of %s input bytes handed on" % (f.loc(b), L.lin_repr(pos), L.lin_repr(inp)))
        if continue_cover:
          rep.ob("COVER", "%s|input absorbed exactly once, in order%s" % (f.path, tag), bool(ex3) and n_cons >= 1 and not gaps,
                 "%d abstract exit state(s), %d hand-over(s) of input sub-views, consecutive and complete" % (len(ex3), n_cons) if not gaps else gaps[0],
                 loc=f.loc())
        if it.notes and continue_cover:
            rep.note("BUFINV %s: %s" % (f.path, sorted(set(it.notes))[:3]))
        # finalize side (Poly1305): the partial-block call receives exactly one block
        if kind == "poly":
            for g0 in fins0:
                g = inline(prog, g0, keep=(lambda g_: g_.key in shared,))
                blocks_fns = {c.rkey for c in f.calls() if c.is_local and c.name not in ("update",)}
                it2 = absint.Interp(prog, g, [fld], lambda st: [L.ge(L.lin_const(bound), st.vec[fld])])
                it2.probe = lambda c: c.is_local and c.rkey in blocks_fns
                it2.run()
                okp = bool(it2.probes)
                detail = []
                for c, st in it2.probes:
                    # the block operand: the byte-slice argument of the block routine (wherever it sits)
                    bi = [i_ for i_, a_ in enumerate(c.args) if a_.get("k") in ("copy", "move") and not a_["p"]
                          and g.locals[a_["l"]]["t"].replace("'_ ", "") in ("&[u8]", "&std::vec::Vec<u8>") and i_ > 0]
                    r = it2.ref_of_operand(st, c.args[bi[0] if bi else 1])
                    ln = it2.len_of_ref(st, r)
                    if ln is None or not absint.entails_int(st.cons, L.eq(ln, L.lin_const(B))):
                        okp = False
                        detail.append(L.lin_repr(ln) if ln is not None else "unknown")
                rep.ob("BUFINV", "%s|final partial block is exactly %d bytes%s" % (g.path, B, tag), okp,
                       "%d abstract state(s) reach the block routine, each with a %d-byte block" % (len(it2.probes), B) if okp else
                       "the padded final block may have length %s" % detail[:3], loc=g.loc())
    rep.floor("crate-local inner update functions with a pending buffer" + tag, n, 2)


FINAL_MODULES = ("classic::crypto_auth::", "classic::crypto_onetimeauth::", "classic::crypto_generichash::", "classic::crypto_hash::",
                 "classic::crypto_sign::", "auth::Auth::", "onetimeauth::OnetimeAuth::", "generichash::GenericHash::", "sha512::Sha512::",
                 "sign::IncrementalSigner::")


def finals(rep, prog, tag):
    """FINAL: the result of an incremental computation is what the accumulated state says.  For every public
    finalisation entry point (`*_final*`, `finalize*` of the incremental interfaces, classic and object API) the
    output - the returned value, or the `&mut` output parameter when nothing is returned - depends on the
    *contents* of the state parameter.  (A `finalize` that allocates the output and forgets to call the
    finaliser returns zeros for every chunking, and the one-shot function does not.)"""
    import re
    from ..inline import inline
    n = 0
    for f0 in sorted(prog.fns, key=lambda f: f.path):
        if f0.vis != "pub" or f0.kind == "closure" or not f0.blocks or not f0.path.startswith(FINAL_MODULES):
            continue
        if not re.search(r"(^|::)(finalize\w*|\w+_final\w*)$", f0.path) or f0.argc < 1:
            continue
        f = inline(prog, f0)
        rt = f.locals[0]["t"]
        muts = [p for p in cm.params_of(f) if p != 1 and f.locals[p]["t"].startswith("&mut ")]
        outs = [0] if rt not in ("()", "std::result::Result<(), error::Error>") else muts
        if rt == "std::result::Result<(), error::Error>" and not muts:
            continue            # a verdict (final_verify): control-dependent on the state; C06's business
        if not outs:
            rep.violation("ANCHOR", f0.path + tag, "cannot tell the output of the finalisation entry point (fail closed)", loc=f0.loc())
            continue
        n += 1
        sl = cm.content_slice(f, outs)
        rep.ob("FINAL", f0.path + tag, 1 in sl, "the output %s the contents of the accumulated state" % ("depends on" if 1 in sl else "does NOT depend on"), loc=f0.loc())
    rep.floor("finalisation entry points" + tag, n, 15)
