"""Shared discovery helpers for the AEAD rules (C02, C03, C17) and others."""
import re

from ..core import full_range_index, strip_reborrow, operand_locals, def_sites, single_def, AnchorError
from ..engines import (auth_fixpoint, auth_check, CT_T, CT_F, OK, ERR, returns_result,
                       views_of)
from ..expr import expr_of_operand, atoms_of

CT_EQ = "subtle::ConstantTimeEq::ct_eq"
COPY = ("core::slice::<impl [T]>::copy_from_slice", "types::MutBytes::copy_from_slice")
POLY_FINAL = re.compile(r"(^|::)poly1305(::\w+)*::Poly1305::finalize")
POLY_UPDATE = re.compile(r"(^|::)poly1305(::\w+)*::Poly1305::update$")
POLY_NEW = re.compile(r"(^|::)poly1305(::\w+)*::Poly1305::new$")


def ct_eq_calls(fn):
    return [c for c in fn.calls() if c.path == CT_EQ]


def poly_final_locals(fn):
    """Locals holding a Poly1305 tag computed in fn: results of finalize_to_array and storage
    behind the out-parameter of finalize(&mut out)."""
    out = set()
    for c in fn.calls():
        if POLY_FINAL.search(c.rpath):
            out.add(c.dest["l"])
            for a in c.args[1:]:
                for l in operand_locals(a):
                    out |= fn.backward_slice([l]) & _storage(fn, l)
                    out.add(l)
    return out


def _storage(fn, l):
    return set(strip_reborrow(fn, l))


def array_width(fn, operand):
    """If the operand is (a reborrow / unsize coercion of) a whole `[u8; N]` array or `&[u8; N]`,
    return N, else None.  No Index/slicing may lie between the array and the operand."""
    ls = list(operand_locals(operand))
    if len(ls) != 1:
        return None
    for l in strip_reborrow(fn, ls[0]):
        ty = fn.locals[l]
        t = ty
        if t.get("k") == "ref":
            t = t.get("inner", {})
        if t.get("k") == "array":
            try:
                return int(t["n"])
            except (ValueError, KeyError):
                return None
    # also accept as_array()/as_slice() projections of fixed-size containers (StackByteArray<N>)
    cur = ls[0]
    for _ in range(6):
        d = def_sites(fn, strip_reborrow(fn, cur)[-1])
        if len(d) != 1 or d[0][1] != "call":
            return None
        c = d[0][2]
        if c.name in ("as_array", "as_slice", "as_ref", "deref", "as_mut_array") and c.args:
            src = c.args[0]
            sl = list(operand_locals(src))
            if len(sl) != 1:
                return None
            for l in strip_reborrow(fn, sl[0]):
                m = re.search(r"(?:StackByteArray|HeapByteArray)<(\d+)>|\[u8; (\d+)\]", fn.locals[l]["t"])
                if m:
                    return int(m.group(1) or m.group(2))
            cur = sl[0]
            continue
        return None
    return None


def view_root(fn, local, depth=8):
    """Storage root of a view: follow reborrows and pure view calls (as_slice, as_array, deref,
    index, as_ref ...) back to the local that owns the bytes."""
    from ..engines import RESLICE
    cur = local
    for _ in range(depth):
        cur = strip_reborrow(fn, cur)[-1]
        d = def_sites(fn, cur)
        if len(d) == 1 and d[0][1] == "call":
            c = d[0][2]
            if (c.path in RESLICE or c.rpath in RESLICE) and c.args and c.args[0].get("k") in ("copy", "move"):
                cur = c.args[0]["l"]
                continue
        break
    return cur


OPTION_ADAPTERS = {"std::option::Option::<T>::unwrap_or", "std::option::Option::<T>::unwrap_or_default",
                   "std::option::Option::<T>::unwrap", "std::option::Option::<T>::expect"}
NARROWING = {"std::ops::IndexMut::index_mut", "std::ops::Index::index",
             "core::slice::<impl [T]>::split_at_mut", "core::slice::<impl [T]>::split_at"}


def agg_field(fn, src):
    """`(t.i)` where t is (a move of) a tuple/struct built in this body from whole locals: the local
    that was stored in field i (so a value handed out of an extracted helper as part of a tuple is
    the same object as the one the helper built)."""
    fields = [pe for pe in src["p"] if pe != "deref"]
    if len(fields) != 1 or not isinstance(fields[0], dict) or "f" not in fields[0]:
        return None
    base = strip_reborrow(fn, src["l"])[-1]
    d = single_def(fn, base)
    if d is None or d[1] != "assign" or d[2]["rv"]["k"] != "agg":
        return None
    rv = d[2]["rv"]
    ops = rv["ops"]
    i = fields[0]["f"]
    if rv.get("agg") not in ("tuple", "adt", "closure") or i >= len(ops):
        return None
    o = ops[i]
    if o.get("k") in ("copy", "move") and not o["p"]:
        return o["l"]
    return None


def view_info(fn, local, depth=10):
    """(root, narrowed, path): like view_root but also reports whether an Index/split narrowing lies
    between the root storage and the view, and follows Option::unwrap_or(param, default)."""
    from ..engines import RESLICE
    cur = local
    narrowed = False
    for _ in range(depth):
        cur = strip_reborrow(fn, cur)[-1]
        d = def_sites(fn, cur)
        if len(d) == 1 and d[0][1] == "call":
            c = d[0][2]
            if c.args and c.args[0].get("k") in ("copy", "move"):
                local_view = fn.prog is not None and c.rkey in fn.prog.reslicers
                if c.path in RESLICE or c.rpath in RESLICE or c.path in OPTION_ADAPTERS or local_view:
                    if (c.path in NARROWING and not full_range_index(c)) or (local_view and c.rkey in fn.prog.narrowing_reslicers):
                        narrowed = True
                    cur = c.args[0]["l"]
                    continue
        elif len(d) == 1 and d[0][1] == "assign":
            rv = d[0][2]["rv"]
            # field projection of a tuple returned by split_at: `(_t.0)`
            src = None
            if rv["k"] == "use" and rv["x"].get("k") in ("copy", "move"):
                src = rv["x"]
            elif rv["k"] in ("ref", "rawptr"):
                src = rv["place"]
            if src is not None and src["l"] != cur:
                through = agg_field(fn, src)
                if through is not None:
                    cur = through
                    continue
                if any(isinstance(pe, dict) and ("sub_from" in pe or "idx" in pe or "cidx" in pe) for pe in src["p"]):
                    narrowed = True
                cur = src["l"]
                continue
        break
    return cur, narrowed


def mac_prim_atoms(fn, want_width=16):
    """ct_eq calls in fn one operand of which *is* (a view of) a freshly computed Poly1305 tag."""
    finals = set()
    for c in fn.calls():
        if POLY_FINAL.search(c.rpath):
            finals.add(c.dest["l"])
            for a in c.args[1:]:
                for l in operand_locals(a):
                    finals.add(view_root(fn, l))
    if not finals:
        return []
    out = []
    for c in ct_eq_calls(fn):
        roots = set()
        for a in c.args:
            for l in operand_locals(a):
                roots.add(view_root(fn, l))
        if roots & finals:
            out.append(c)
    return out


def find_method(prog, type_prefix, method):
    """Functions `type_prefix[::<generics>]::method` (public-API anchor; generic spelling ignored)."""
    out = []
    for f in prog.fns:
        if f.kind == "closure" or f.name != method:
            continue
        if f.path == "%s::%s" % (type_prefix, method) or (
                f.path.startswith(type_prefix + "::<") and f.path.endswith(">::" + method)):
            out.append(f)
    return out


def full_width(fn, c, want):
    ws = [array_width(fn, a) for a in c.args]
    return any(w == want for w in ws), ws


def can_reach(prog, targets):
    """Keys of all functions from which some function in `targets` is reachable (callers closure)."""
    prog.build_callgraph()
    seen = set(t.key for t in targets)
    stack = list(seen)
    while stack:
        k = stack.pop()
        for c in prog._callers.get(k, ()):
            if c not in seen:
                seen.add(c)
                stack.append(c)
    return seen


def openers(prog):
    """(roots, auth_keys, results, candidates): least fixpoint of authenticated openers."""
    # functions are analysed with their private helpers folded in, so a tag comparison extracted into
    # `fn macs_match(a, b)` still belongs to the function that computed the tag
    from ..inline import inline
    cache = getattr(prog, "_opener_views", None)
    if cache is None:
        cache = prog._opener_views = {}
    def view(f):
        if f.key not in cache:
            cache[f.key] = inline(prog, f) if any(c.is_local for c in f.calls()) else f
        return cache[f.key]
    roots = [view(f) for f in prog.fns if f.kind != "closure" and mac_prim_atoms(view(f))]
    if not roots:
        raise AnchorError("no function compares a Poly1305 tag with ct_eq")
    cand_keys = can_reach(prog, roots)
    cands = [view(prog.by_key[k]) for k in cand_keys]
    auth, results = auth_fixpoint(prog, [f for f in cands if returns_result(f)], mac_prim_atoms)
    return roots, auth, results, cands


def fmt_path(fn, blocks):
    if not blocks:
        return "?"
    out = []
    last = None
    for b in blocks:
        l = fn.loc(b)
        if l != last:
            out.append(l.split(":")[-1])
            last = l
    return "%s lines %s" % (fn.file, "→".join(out[:14]))


def params_of(fn):
    return list(range(1, fn.argc + 1))


def param_name(fn, l):
    return fn.argnames.get(l, "_%d" % l)


def write_events(fn, root):
    """Everything that writes the storage rooted at local `root`: stores to places based at the root
    (directly or through views), and calls handing a mutable view to a non-view function.
    Returns list of (bb, kind, text, call_or_None)."""
    from ..engines import views_of, RESLICE
    views = views_of(fn, [root])
    out = []
    for b, i, st in fn.assigns():
        pl = st["place"]
        if pl["l"] == root and pl["p"]:
            out.append((b, "store", "store into `%s` at %s:%s" % (fn.local_name(root), fn.file, _line(st)), None))
        elif pl["l"] in views and pl["l"] != root and "deref" in pl["p"]:
            out.append((b, "store", "store through a view of `%s` at %s:%s" % (fn.local_name(root), fn.file, _line(st)), None))
    for c in fn.calls():
        if fn.blocks[c.bb]["cleanup"]:
            continue
        if c.path in RESLICE or c.rpath in RESLICE or (fn.prog is not None and c.rkey in fn.prog.reslicers):
            continue
        for i, a in enumerate(c.args):
            if a.get("k") in ("copy", "move") and a["l"] in views and fn.locals[a["l"]]["t"].startswith("&mut"):
                out.append((c.bb, "call", "%s at %s" % (c.rpath.split("::")[-1], c.loc()), c))
                break
    return out


def _line(st):
    ln = st.get("ln")
    return ln[0] if isinstance(ln, list) else ln


def equal_widths(fn, c):
    """(ok, widths): static widths of both ct_eq operands; ok unless both are known and differ"""
    ws = [array_width(fn, a) for a in c.args]
    known = [w for w in ws if w is not None]
    return (len(known) < 2 or known[0] == known[1]), ws


ROLE_SECRET = ("secret", "_sk", "sk_", "privkey", "private")
ROLE_PUBLIC = ("public", "_pk", "pk_", "pubkey")


def pw_role_of_name(name):
    """'password' / 'salt' for names that say so (the two byte-string inputs of password hashing have the same type)"""
    n = (name or "").lower()
    if "salt" in n:
        return "salt"
    if "password" in n or "passwd" in n or n in ("pw", "pwd"):
        return "password"
    return None


def role_of_name(name):
    n = name.lower()
    if n in ("sk", "esk") or any(t in n for t in ROLE_SECRET) or n.endswith("sk"):
        return "secret"
    if n in ("pk", "epk", "rpk") or any(t in n for t in ROLE_PUBLIC) or n.endswith("pk"):
        return "public"
    return None


def named_origin(f, l, depth=10):
    """the source-level name of the variable a (view of a) value comes from: follows moves, reborrows and pure views
    from local l back to the first local that carries a user-written name"""
    from ..engines import RESLICE
    cur = l
    for _ in range(depth):
        nm = f.local_name(cur)
        if nm and not nm.startswith("_") and cur > f.argc:
            return nm
        if 1 <= cur <= f.argc:
            return param_name(f, cur)
        d = def_sites(f, cur)
        if len(d) != 1:
            return None
        if d[0][1] == "call":
            c = d[0][2]
            if c.args and c.args[0].get("k") in ("copy", "move") and (c.path in RESLICE or c.rpath in RESLICE or (f.prog is not None and c.rkey in f.prog.reslicers)):
                cur = c.args[0]["l"]
                continue
            return None
        rv = d[0][2]["rv"]
        if rv["k"] in ("use", "cast") and rv["x"].get("k") in ("copy", "move"):
            cur = rv["x"]["l"]
        elif rv["k"] in ("ref", "rawptr"):
            cur = rv["place"]["l"]
        else:
            return None
    return None


def role_consistency(rep, prog, tag="", role_of_name=None, kind="key"):
    if role_of_name is None:
        role_of_name = globals()["role_of_name"]
    """Key-role consistency across crate-internal calls: a parameter the caller names as a secret key is
    never passed in the position the callee names as a public key, and vice versa.  Both are 32-byte
    arrays (or the same generic ByteArray<32>), so the type checker cannot tell them apart; X25519 of the
    swapped pair is a different value, so a swap always changes the derived key."""
    n = 0
    for f in prog.fns:
        if f.kind == "closure":
            continue
        roles = {p: role_of_name(param_name(f, p)) for p in range(1, f.argc + 1)}
        for c in f.calls():
            if f.blocks[c.bb]["cleanup"] or "r_key" not in c.f or not c.f.get("r_local"):
                continue
            g = prog.by_key.get(c.f["r_key"])
            if g is None or g.kind == "closure":
                continue
            for i, a in enumerate(c.args):
                if i + 1 > g.argc:
                    break
                ls = list(operand_locals(a))
                if not ls:
                    continue
                root = view_info(f, ls[0])[0]
                r1 = roles.get(root)
                nm1 = param_name(f, root) if r1 else None
                r2 = role_of_name(param_name(g, i + 1))
                if not r1 and r2:
                    # a named local (`let mut secret_key = ..`) or a field of a record (`self.secret_key`, `res.public_key`)
                    import re as _re
                    from ..expr import expr_of_operand as _eo, deep_repr as _dr
                    flds = _re.findall(r"\.([a-z_][a-z0-9_]*)", _dr(_eo(f, a)))
                    cand = [x for x in flds if role_of_name(x)]
                    if cand:
                        nm1 = cand[-1]
                    else:
                        nm1 = named_origin(f, ls[0])
                    r1 = role_of_name(nm1) if nm1 else None
                if r1 and r2:
                    n += 1
                    rep.ob("ROLE", "%s -> %s|arg %d%s" % (f.path, g.path.split("::")[-1], i, tag), r1 == r2,
                           "caller's `%s` (%s%s) is passed as the callee's `%s` (%s%s)" % (
                               nm1, r1, " key" if kind == "key" else "", param_name(g, i + 1), r2, " key" if kind == "key" else ""), loc=c.loc(),
                           key="ROLE|%s|%s|%d%s" % (f.key, g.key, i, tag))
    return n


def is_zero_array_operand(fn, o):
    """operand is (a reference to) an all-zero byte array built in this body or promoted."""
    from ..expr import expr_of_operand, deep_repr
    t = deep_repr(expr_of_operand(fn, o))
    return t.replace("&", "").strip() in ("repeat(const(0))",) or t.startswith("repeat(const(0))")


def fill_events(fn, views):
    """Program points that overwrite every byte of a view in `views` with one constant byte, in the
    idioms a maintainer would use: slice.fill(v); copy_from_slice(&[0; N]); zeroize(); and
    `for b in view.iter_mut() { *b = v }` (a store of a constant through a pointer that derives from an
    iter_mut() over the view).  Returns [(bb, view_local, idiom, value)]."""
    from ..expr import expr_of_operand, evaluate, call_arg_exprs
    out = []
    iters = {}
    for c in fn.calls():
        a0 = c.args[0] if c.args else None
        l0 = a0["l"] if a0 is not None and a0.get("k") in ("copy", "move") else None
        if l0 is None or l0 not in views:
            continue
        if c.path == "core::slice::<impl [T]>::fill" and len(c.args) == 2:
            v = evaluate(call_arg_exprs(c)[1], {})
            if isinstance(v, int) and not isinstance(v, bool):
                out.append((c.bb, l0, "fill(%d)" % v, v))
        elif c.path in COPY and len(c.args) == 2 and is_zero_array_operand(fn, c.args[1]):
            out.append((c.bb, l0, "copy_from_slice(zeros)", 0))
        elif c.path.endswith("Zeroize::zeroize"):
            out.append((c.bb, l0, "zeroize", 0))
        elif c.path == "core::slice::<impl [T]>::iter_mut":
            iters[c.dest["l"]] = (l0, c.bb)
    if iters:
        for b, i, s in fn.assigns():
            pl = s["place"]
            if pl["p"] == ["deref"] and s["rv"]["k"] == "use":
                v = evaluate(expr_of_operand(fn, s["rv"]["x"]), {})
                if not isinstance(v, int) or isinstance(v, bool):
                    continue
                back = fn.backward_slice([pl["l"]])
                # the event is placed at the iter_mut() call: the loop that follows visits every
                # element of the view (a zero-trip loop means an empty view).  With several loops over
                # the same storage the store belongs to the nearest dominating iterator.
                cands = [(len(fn.dom.get(itb, ())), it, vw, itb) for it, (vw, itb) in iters.items() if it in back and itb in fn.dom.get(b, ())]
                if cands:
                    _, it, vw, itb = max(cands)
                    out.append((itb, vw, "iter_mut loop storing %d" % v, v))
    return out


def zero_events(fn, views):
    """fill_events with value 0: [(bb, view_local, idiom)]"""
    return [(b, v, idiom) for b, v, idiom, val in fill_events(fn, views) if val == 0]


def const_index_stores(fn, views):
    """[(bb, view_local, index, value)] for stores `view[const i] = const v`."""
    from ..expr import expr_of_operand, evaluate
    out = []
    for b, i, s in fn.assigns():
        pl = s["place"]
        if pl["l"] not in views or s["rv"]["k"] != "use" or s["rv"]["x"].get("k") != "const" or s["rv"]["x"].get("v") is None:
            continue
        idx = None
        for pe in pl["p"]:
            if isinstance(pe, dict) and "cidx" in pe:
                idx = pe["cidx"]
            elif isinstance(pe, dict) and "idx" in pe:
                idx = evaluate(expr_of_operand(fn, {"k": "copy", "l": pe["idx"], "p": []}), {})
        if isinstance(idx, int) and not isinstance(idx, bool):
            out.append((b, pl["l"], idx, s["rv"]["x"]["v"]))
    return out


IDX_CALLS = ("std::ops::Index::index", "std::ops::IndexMut::index_mut")
SPLIT_CALLS = ("core::slice::<impl [T]>::split_at", "core::slice::<impl [T]>::split_at_mut")


def view_span(fn, local, depth=14):
    """(root, start): the storage a view local points into and the constant byte offset of the view's
    first byte inside it (None if the offset is not a constant).  Follows reborrows, casts, pure views,
    constant index ranges and split_at halves."""
    return _view_walk(fn, local, depth)[:2]


def view_extent(fn, local, depth=14):
    """(root, start, end): like view_span, with the constant end offset of the view inside root (None = up to the
    end of the enclosing view / root).  (root, None, None) if any narrowing on the way is not a constant range."""
    root, start, rngs = _view_walk(fn, local, depth)
    if start is None or rngs is None:
        return root, None, None
    s, e = 0, None
    for lo, hi in reversed(rngs):          # from the root side towards the view
        e = s + hi if hi is not None else e
        s = s + lo
    return root, s, e


def const_set(fn, e, depth=0):
    """the set of integer values expression e can take when it is a constant or a local whose every definition is
    a constant (`let off = match x { Some(_) => 32, None => 0 }`); None otherwise"""
    from ..expr import evaluate
    v = evaluate(e, {})
    if isinstance(v, int) and not isinstance(v, bool):
        return {v}
    if depth > 3 or e is None:
        return None
    if e.k == "cast":
        return const_set(fn, e.a, depth + 1)
    if e.k == "local":
        out = set()
        ds = def_sites(fn, e.a)
        if not ds or len(ds) > 6:
            return None
        for b, kind, payload in ds:
            if kind != "assign" or payload["place"]["p"]:
                return None
            from ..expr import expr_of_def
            s = const_set(fn, expr_of_def(fn, e.a, kind, payload), depth + 1)
            if s is None:
                return None
            out |= s
        return out
    return None


def view_span_multi(fn, local, depth=14):
    """(root, set of possible constant starts) - like view_span when a range bound is a merged constant local"""
    root, starts, _ = _view_walk(fn, local, depth, multi=True)
    return root, starts


def _view_walk(fn, local, depth=14, multi=False):
    root, starts, rngs = _view_walk_set(fn, local, depth)
    if multi:
        return root, starts, rngs
    if starts is None or len(starts) != 1:
        return root, None, None
    return root, next(iter(starts)), rngs


def _view_walk_set(fn, local, depth=14):
    from ..engines import RESLICE
    from ..expr import expr_of_operand, call_arg_exprs, evaluate
    cur = local
    start = {0}
    rngs = []
    for _ in range(depth):
        cur = strip_reborrow(fn, cur)[-1]
        d = def_sites(fn, cur)
        if len(d) != 1:
            break
        if d[0][1] == "call":
            c = d[0][2]
            if not (c.args and c.args[0].get("k") in ("copy", "move")):
                break
            if c.path in IDX_CALLS and len(c.args) == 2:
                rng = call_arg_exprs(c)[1]
                if rng.k == "agg" and rng.a:
                    nm = rng.a.split("::")[-1]
                    vals = [evaluate(o, {}) for o in (rng.c or [])]
                    lo = 0 if nm in ("RangeTo", "RangeFull", "RangeToInclusive") else (vals[0] if vals else None)
                    los = {0} if nm in ("RangeTo", "RangeFull", "RangeToInclusive") else (const_set(fn, rng.c[0]) if rng.c else None)
                    if los is not None and start is not None and len(los) * len(start) <= 8:
                        start = {a + b for a in start for b in los}
                    else:
                        start = None
                    if los is None or len(los) != 1:
                        lo = None
                    hi = {"RangeTo": vals[0] if vals else "?", "RangeToInclusive": (vals[0] + 1) if vals and isinstance(vals[0], int) else "?",
                          "Range": vals[1] if len(vals) > 1 else "?", "RangeInclusive": (vals[1] + 1) if len(vals) > 1 and isinstance(vals[1], int) else "?",
                          "RangeFull": None, "RangeFrom": None}.get(nm, "?")
                    if rngs is not None and isinstance(lo, int) and not isinstance(lo, bool) and (hi is None or (isinstance(hi, int) and not isinstance(hi, bool))):
                        rngs.append((lo, hi))
                    else:
                        rngs = None
                else:
                    start = None
                    rngs = None
                cur = c.args[0]["l"]
                continue
            local_view = fn.prog is not None and c.rkey in fn.prog.reslicers
            if c.path in RESLICE or c.rpath in RESLICE or c.path in OPTION_ADAPTERS or local_view:
                if c.path in SPLIT_CALLS:
                    break       # reached through a tuple field below
                if (c.path in NARROWING and not full_range_index(c)) or (local_view and c.rkey in fn.prog.narrowing_reslicers):
                    start = None
                    rngs = None
                cur = c.args[0]["l"]
                continue
            break
        rv = d[0][2]["rv"]
        src = None
        if rv["k"] == "use" and rv["x"].get("k") in ("copy", "move"):
            src = rv["x"]
        elif rv["k"] in ("ref", "rawptr"):
            src = rv["place"]
        if src is None or src["l"] == cur:
            break
        through = agg_field(fn, src)
        if through is not None:
            cur = through
            continue
        flds = [pe for pe in src["p"] if isinstance(pe, dict) and "f" in pe]
        narrowing = [pe for pe in src["p"] if isinstance(pe, dict) and ("sub_from" in pe or "idx" in pe or "cidx" in pe)]
        if narrowing:
            start = None
            rngs = None
        if len(flds) == 1 and not narrowing:
            # half of a split_at result?
            base = strip_reborrow(fn, src["l"])[-1]
            dd = def_sites(fn, base)
            if len(dd) == 1 and dd[0][1] == "call" and dd[0][2].path in SPLIT_CALLS:
                sc = dd[0][2]
                k = evaluate(call_arg_exprs(sc)[1], {})
                if flds[0]["f"] == 1:
                    if isinstance(k, int) and not isinstance(k, bool) and start is not None:
                        start = {a + k for a in start}
                    else:
                        start = None
                if rngs is not None and isinstance(k, int) and not isinstance(k, bool):
                    rngs.append((k, None) if flds[0]["f"] == 1 else (0, k))
                else:
                    rngs = None
                cur = sc.args[0]["l"]
                continue
        cur = src["l"]
    return cur, start, rngs


def cut_points(prog, f):
    """{root_local: set of constant absolute offsets at which a view of root is cut} for every index
    range / split_at in f (closures included are NOT followed; pass an inlined view).  Offsets are
    relative to the root storage, so `split_at(32)` followed by `.1.split_at(16)` cuts at 32 and 48,
    exactly like `[..32]`, `[32..48]`, `[48..]`."""
    from ..expr import call_arg_exprs, evaluate
    out = {}
    for c in f.calls():
        if not (c.args and c.args[0].get("k") in ("copy", "move")):
            continue
        if c.path in IDX_CALLS and len(c.args) == 2:
            root, s0s = view_span_multi(f, c.args[0]["l"])
            rng = call_arg_exprs(c)[1]
            if rng.k == "agg" and rng.c is not None and s0s is not None:
                for o in rng.c:
                    for v in (const_set(f, o) or ()):
                        for s0 in s0s:
                            if s0 + v != 0:
                                out.setdefault(root, set()).add(s0 + v)
        elif c.path in SPLIT_CALLS and len(c.args) == 2:
            root, s0s = view_span_multi(f, c.args[0]["l"])
            for v in (const_set(f, call_arg_exprs(c)[1]) or ()):
                for s0 in (s0s or ()):
                    if s0 + v != 0:
                        out.setdefault(root, set()).add(s0 + v)
    return out


def E_(*a):
    from ..expr import E
    return E(*a)


def _iter_elements(e, depth=0):
    """If e is (a pure unary function of) the element of an iteration over an array literal -
    `next(into_iter([a, b, c])).Some.0`, `to_le_bytes(<that>)`, a cast of it - return
    ([expr for a, expr for b, ...], the next() call); unary calls are re-applied as
    E('apply', name, [arg], path) nodes."""
    from ..expr import call_arg_exprs
    if e is None or depth > 6:
        return None
    if e.k == "field" and e.b == "Some.0" and e.a.k == "call" and e.a.a.name == "next":
        it = call_arg_exprs(e.a.a)[0]
        hops = 0
        while it is not None and it.k == "call" and it.a.name in ("into_iter", "iter", "copied", "cloned") and it.a.args and hops < 4:
            it = call_arg_exprs(it.a)[0]
            hops += 1
        if it is not None and it.k == "agg" and it.a == "array" and it.c:
            return list(it.c), e.a.a
        return None
    if e.k == "cast":
        r = _iter_elements(e.a, depth + 1)
        if r is not None:
            return [E_("cast", y, e.b, e.c) for y in r[0]], r[1]
        return None
    if e.k == "call" and len(e.a.args) == 1:
        r = _iter_elements(call_arg_exprs(e.a)[0], depth + 1)
        if r is not None:
            return [E_("apply", e.a.name, [y], e.a.path) for y in r[0]], r[1]
    return None


def absorb_sequence(f, calls, argidx=1):
    """Ordered list of (root_local, call, anchor_block) of what a sequence of absorbing calls (hash/MAC updates)
    takes in: calls are ordered by dominance; a call inside `for part in [a, b, c] { h.update(part) }`
    (its operand is the element of an iteration over an array built from a, b, c) expands to a, b, c in
    that order.  Returns None if the order of two calls is not fixed by dominance."""
    from ..expr import expr_of_operand, call_arg_exprs
    cs = sorted(calls, key=lambda c: (len(f.dom.get(c.bb, ())), c.bb))
    for i in range(len(cs) - 1):
        if cs[i].bb not in f.dom.get(cs[i + 1].bb, ()) or cs[i].bb == cs[i + 1].bb:
            return None
    out = []
    for c in cs:
        e = call_arg_exprs(c)[argidx] if len(c.args) > argidx else None
        expanded = None
        hit = _iter_elements(e)
        if hit is not None:
            elems, nxt = hit
            expanded = []
            for y in elems:
                z = y
                for _ in range(6):
                    if z is not None and z.k == "cast":
                        z = z.a
                    elif z is not None and z.k == "call" and z.a.name in ("as_ref", "as_slice", "deref", "borrow") and z.a.args:
                        z = call_arg_exprs(z.a)[0]
                    else:
                        break
                expanded.append((z.a if z is not None and z.k == "local" else None, y))
            x = E_("field", E_("call", nxt), "Some.0")
        if expanded is not None:
            # anchor = the block of the iterator's next(): it runs once per element plus once at the end,
            # so it (not the loop body) is what dominates the code after the loop
            out += [Absorbed((r, c, x.a.a.bb), ex) for r, ex in expanded]
        else:
            ls = list(operand_locals(c.args[argidx])) if len(c.args) > argidx else []
            out.append(Absorbed((view_info(f, ls[0])[0] if ls else None, c, c.bb), e))
    return out


class Absorbed(tuple):
    """(root_local, call, anchor_block) with the operand's expression in `.expr`"""
    def __new__(cls, t, expr):
        o = super().__new__(cls, t)
        o.expr = expr
        return o


def expr_root(e, depth=0):
    """the local an expression is a view of (through index/slicing/borrow adapters and casts), or None"""
    from ..expr import call_arg_exprs
    while e is not None and depth < 12:
        depth += 1
        if e.k == "local":
            return e.a
        if e.k == "cast":
            e = e.a
            continue
        if e.k == "field" and e.b in ("0", "1") and e.a.k == "call" and "split_at" in e.a.a.name:
            e = call_arg_exprs(e.a.a)[0]
            continue
        if e.k == "call" and e.a.args and e.a.name in ("index", "index_mut", "as_slice", "as_mut_slice", "deref", "deref_mut", "as_ref",
                                                        "as_mut", "borrow", "as_array", "as_mut_array", "unwrap_or", "unwrap", "expect",
                                                        "try_from", "try_into", "from", "into"):
            e = call_arg_exprs(e.a)[0]
            continue
        return None
    return None


def expr_leaf_locals(e, out=None, depth=0):
    """locals at the leaves of an expression tree (not through calls' own bodies, but through their
    arguments)"""
    from ..expr import E, call_arg_exprs
    if out is None:
        out = set()
    if e is None or depth > 24:
        return out
    if e.k == "local":
        out.add(e.a)
        return out
    if e.k == "call":
        for a in call_arg_exprs(e.a):
            expr_leaf_locals(a, out, depth + 1)
        return out
    for x in (e.a, e.b, e.c):
        if isinstance(x, E):
            expr_leaf_locals(x, out, depth + 1)
        elif isinstance(x, (list, tuple)):
            for y in x:
                if isinstance(y, E):
                    expr_leaf_locals(y, out, depth + 1)
    return out


def cost_conversion(prog):
    """The crate's cost conversion (opslimit: u64, memlimit: usize) -> the (t, m) pair handed to
    Argon2, returned as a tuple or as a small private record: (function, {field name as it appears in
    a projection ('0'/'1' or 't_cost'/'m_cost'): 't' | 'm'}).  The roles are read off the returned
    aggregate: the component computed from parameter 1 is t, the one computed from parameter 2 is m."""
    if getattr(prog, "_cost_conv", None) is not None:
        return prog._cost_conv
    from ..expr import expr_of_local, ADTS
    best = (None, {})
    below = prog.reach_fns(prog.by_path.get("classic::crypto_pwhash::crypto_pwhash", []))
    for g in prog.fns:
        if g.kind == "closure" or g.argc != 2 or sorted(g.locals[i_].get("t") for i_ in (1, 2)) != ["u64", "usize"]:
            continue        # (opslimit: u64, memlimit: usize), in either order: the types tell them apart
        p_ops = 1 if g.locals[1].get("t") == "u64" else 2
        p_mem = 3 - p_ops
        if g.key not in below:
            continue        # the conversion is the one the public crypto_pwhash goes through
        e = expr_of_local(g, 0)
        if e is None or e.k != "agg" or not e.c or len(e.c) < 2:
            continue
        if e.a == "tuple":
            names = [str(i) for i in range(len(e.c))]
        else:
            vs = ADTS.get(e.a, {}).get("variants", [])
            if len(vs) != 1 or len(vs[0]["fields"]) != len(e.c):
                continue
            names = [fd["name"] for fd in vs[0]["fields"]]
        roles = {}
        for nm, comp in zip(names, e.c):
            ls = expr_leaf_locals(comp) & {1, 2}
            if ls == {p_ops}:
                roles[nm] = "t"
            elif ls == {p_mem}:
                roles[nm] = "m"
        if sorted(roles.values()) == ["m", "t"]:
            best = (g, roles)
    prog._cost_conv = best
    return best


def conv_component(prog, e):
    """'t' / 'm' if e (casts peeled) is a component of the result of a call to the cost conversion,
    with that call; else (None, None)"""
    g, roles = cost_conversion(prog)
    x = e
    while x is not None and x.k == "cast":
        x = x.a
    if g is None or x is None or x.k != "field" or x.a.k != "call":
        return None, None
    if not any(t.key == g.key for t in prog.callee_fns(x.a.a)):
        return None, None
    return roles.get(str(x.b).split(".")[-1]), x.a.a


def accepts_min_len(rep, prog, f0, param, minimum, rule, inst, cap=None, exact=True):
    """every Ok-capable exit of f0 (private helpers folded in) is dominated by edges that bound the
    length of byte parameter `param` from below by exactly `minimum` and not from above: the parser
    accepts every encoding the writer can produce, including the one of the empty payload"""
    from ..inline import inline
    from ..expr import result_kind_of_ret
    from ..guards import edge_facts, facts_at, bounds
    f = inline(prog, f0)
    ef = edge_facts(f, view_info)
    n = 0
    for b, kind, e in result_kind_of_ret(f):
        if kind == "err" or b not in f.reachable(0):
            continue
        n += 1
        lo, hi = bounds(("len", param), facts_at(f, b, ef))
        # cap: an upper limit at or above `cap` (a MESSAGEBYTES_MAX style limit) is not a narrowing
        rep.ob(rule, "%s|accepts len >= %d" % (inst, minimum), (lo == minimum or (not exact and (lo is None or lo <= minimum))) and (hi is None or (cap is not None and hi >= cap)),
               "Ok-capable exit at %s requires %s <= len%s (the shortest valid encoding has %d bytes)" % (
                   f.loc(b), lo, "" if hi is None else " <= %s" % hi, minimum), loc=f.loc(b))
    return n


WIPE_CALLS = ("zeroize::Zeroize::zeroize",)


def read_after_wipe(rep, prog, prefixes, rule="WIPE-ORDER", tag=""):
    """A local buffer that has been wiped (`x.zeroize()`) holds zeros: handing it on afterwards - as the
    source of a copy, as a shared-reference argument, as the returned value - uses the zeros instead of
    the value (`key.zeroize(); out.copy_from_slice(&key)`).  For every wipe of a local buffer in the
    given modules: no read of that buffer is reachable from the wipe unless the buffer is written again
    first (passed by `&mut`, assigned).  Returns the number of wipe sites checked."""
    n = 0
    for f in prog.fns:
        p = f.path.lstrip("<")
        if not p.startswith(tuple(prefixes)):
            continue
        for z in f.calls():
            if (z.path not in WIPE_CALLS and z.rpath not in WIPE_CALLS) or not z.args or f.blocks[z.bb]["cleanup"]:
                continue
            ls = list(operand_locals(z.args[0]))
            if not ls:
                continue
            root, narrowed = view_info(f, ls[0])
            if root is None or narrowed or 1 <= root <= f.argc:
                continue        # wiping (part of) a caller's buffer: the caller's business
            n += 1
            after = f.reachable_from_after(z.bb)
            writes, reads = [], []
            for c in f.calls():
                if c.bb not in after or c.bb == z.bb or f.blocks[c.bb]["cleanup"]:
                    continue
                for i, a in enumerate(c.args):
                    la = list(operand_locals(a))
                    if not la or view_info(f, la[0])[0] != root:
                        continue
                    ty = f.locals[la[0]]["t"]
                    if c.path in WIPE_CALLS or c.rpath in WIPE_CALLS or c.name in ("drop", "len", "is_empty", "as_ptr"):
                        continue
                    if ty.startswith("&mut") and not (c.name in ("copy_from_slice", "clone_from_slice") and i == 1):
                        writes.append(c.bb)
                    else:
                        reads.append(c)
            for b_, i_, st in f.assigns():
                if b_ in after and st["place"]["l"] == root and not st["place"]["p"] and b_ != z.bb:
                    writes.append(b_)
            ret_reads = root in f.backward_slice([0]) and f.locals[0]["t"] not in ("()",)
            bad = [c for c in reads if c.bb in f.reachable_from_after(z.bb, cut_blocks=writes)]
            rets = [b for b in range(f.n) if f.blocks[b]["t"]["k"] == "return"]
            bad_ret = ret_reads and any(b in f.reachable_from_after(z.bb, cut_blocks=writes) for b in rets) and \
                view_info(f, 0)[0] == root
            rep.ob(rule, "%s|`%s` not read after its wipe%s" % (f.path, f.local_name(root), tag), not bad and not bad_ret,
                   "no use of the wiped buffer is reachable from the wipe" if not bad and not bad_ret else
                   "`%s` is wiped at %s and then %s: the zeros are used instead of the value" % (
                       f.local_name(root), z.loc(), ("read by %s at %s" % (bad[0].name, bad[0].loc())) if bad else "returned"),
                   loc=bad[0].loc() if bad else z.loc())
    return n


def argon2_arg_index(prog):
    """{role: argument index} of the crate-internal `argon2::argon2_hash`, derived - not assumed - from
    the one call the public, positional `crypto_pwhash(output, password, salt, opslimit, memlimit, alg)`
    makes: output/password/salt are the arguments rooted in public parameters 1/2/3, t and m the two
    components of the cost conversion, the lane count is the constant 1, the type is the argument
    computed from the algorithm parameter.  Falls back to the declared order
    (t, m, lanes, password, salt, secret, ad, output, type) where a role cannot be established."""
    if getattr(prog, "_a2_idx", None) is not None:
        return prog._a2_idx
    from ..expr import call_arg_exprs, evaluate
    out = {"t": 0, "m": 1, "lanes": 2, "password": 3, "salt": 4, "output": 7, "type": 8}
    for f in prog.by_path.get("classic::crypto_pwhash::crypto_pwhash", []):
        cs = [c for c in f.calls() if is_argon2_call(prog, c)]
        if len(cs) != 1:
            continue
        c = cs[0]
        ax = call_arg_exprs(c)
        found = {}
        for i, a in enumerate(c.args):
            ls = list(operand_locals(a))
            comp = conv_component(prog, ax[i])[0]
            if comp in ("t", "m"):
                found[comp] = i
                continue
            v = evaluate(ax[i], {})
            if v == 1 and not isinstance(v, bool):
                found["lanes"] = i
                continue
            if not ls:
                continue
            root = view_info(f, ls[0])[0]
            ty = f.locals[ls[0]]["t"]
            if root == 1:
                found["output"] = i
            elif root == 2:
                found["password"] = i
            elif root == 3:
                found["salt"] = i
            elif "[u8]" not in ty and 6 in f.backward_slice(ls):
                found["type"] = i
        out.update(found)
    prog._a2_idx = out
    return out


def argon2_entry(prog):
    """The crate-internal Argon2 entry point, by role: the crate-local, non-public function the public
    `crypto_pwhash(output, ..)` hands its output buffer (parameter 1) to.  (On the pinned tree:
    `argon2::argon2_hash`; its name, module and parameter order are free.)"""
    if getattr(prog, "_a2_entry", 0) != 0:
        return prog._a2_entry
    found = None
    for f in prog.by_path.get("classic::crypto_pwhash::crypto_pwhash", []):
        for c in f.calls():
            if not c.is_local or f.blocks[c.bb]["cleanup"]:
                continue
            ts = [t for t in prog.callee_fns(c) if t.kind != "closure" and t.vis != "pub"]
            if len(ts) != 1 or len(c.args) < 6:
                continue
            for a in c.args:
                ls = list(operand_locals(a))
                if ls and f.locals[ls[0]]["t"].startswith("&mut") and view_info(f, ls[0])[0] == 1:
                    found = ts[0]
    prog._a2_entry = found
    return found


def is_argon2_call(prog, c):
    e = argon2_entry(prog)
    return e is not None and any(t.key == e.key for t in prog.callee_fns(c))


def blake2b_init_roles(prog, call):
    """{'outlen'|'key'|'salt'|'personal': argument index} of a call to the crate's BLAKE2b `State::init`:
    the digest length is the `u8` parameter, the key the optional byte *slice*; the two optional 16-byte
    arrays are told apart by the field of the parameter block they are stored in (BLAKE2b's parameter
    block ends with salt, then personal: field order of the record the constructor builds).  Falls back
    to the declared order (outlen, key, salt, personal)."""
    out = {"outlen": 0, "key": 1, "salt": 2, "personal": 3}
    gs = prog.callee_fns(call)
    if len(gs) != 1:
        return out
    g = gs[0]
    memo = prog.__dict__.setdefault("_b2_init_roles", {})
    if g.key in memo:
        return memo[g.key]
    res = dict(out)
    try:
        ps = list(range(1, g.argc + 1))
        u8s = [p for p in ps if g.locals[p]["t"] == "u8"]
        slices = [p for p in ps if g.locals[p]["t"].replace("'_ ", "") in ("std::option::Option<&[u8]>",)]
        arrays = [p for p in ps if "Option<&" in g.locals[p]["t"] and "[u8;" in g.locals[p]["t"]]
        if len(u8s) == 1:
            res["outlen"] = u8s[0] - 1
        if len(slices) == 1:
            res["key"] = slices[0] - 1
        if len(arrays) == 2:
            from ..inline import inline
            v = inline(prog, g)
            best = None
            for b, i, st in v.assigns():
                rv = st["rv"]
                if rv["k"] == "agg" and rv.get("agg") == "adt" and len(rv.get("ops", [])) >= 4 and not rv.get("path", "").startswith("std::"):
                    feeds = {}
                    for idx, o in enumerate(rv["ops"]):
                        ls = list(operand_locals(o))
                        if not ls:
                            continue
                        back = v.backward_slice(ls) & set(arrays)
                        if len(back) == 1:
                            feeds[list(back)[0]] = idx
                    if len(feeds) == 2:
                        best = feeds
            if best:
                (pa, ia), (pb, ib) = sorted(best.items(), key=lambda kv: kv[1])
                res["salt"], res["personal"] = pa - 1, pb - 1
    except Exception:
        res = dict(out)
    memo[g.key] = res
    return res


def accepted_intervals(f, term, starts=(0,), ef=None):
    """{(lo, hi)}: the constraints on integer `term` (e.g. ("len", p)) under which an Ok-capable exit of the
    (inlined) Result-returning view `f` is reachable from one of the blocks `starts`, following every path and
    refining the interval at each edge whose facts compare `term` with a constant.  An empty interval prunes
    the path.  Unlike `facts_at` (edges dominating the exit) this is per path, so a guard that only some
    paths pass (the `Some` arm of an optional key) is attributed to those paths only."""
    from ..expr import result_kind_of_ret
    from ..guards import edge_facts, bounds
    if ef is None:
        ef = edge_facts(f, view_info)
    oks = {b for b, kind, e in result_kind_of_ret(f) if kind != "err"}
    out = set()
    seen = set()
    st0 = (None,) * len(f.merges[0])
    work = [(s, None, None, st0) for s in starts]
    while work:
        b, lo, hi, st = work.pop()
        if (b, lo, hi, st) in seen or len(seen) > 50000:
            continue
        seen.add((b, lo, hi, st))
        if b in oks:
            out.add((lo, hi))
        st2, succ = f._step(b, st)          # feasible successors only (see Fn.merges)
        for s in succ:
            if f.blocks[s]["cleanup"]:
                continue
            l2, h2 = lo, hi
            fs = ef.get((b, s), [])
            if fs:
                bl, bh = bounds(term, fs)
                if bl is not None:
                    l2 = bl if l2 is None else max(l2, bl)
                if bh is not None:
                    h2 = bh if h2 is None else min(h2, bh)
                ne = [r for op, l, r in fs if op == "Ne" and l == term and isinstance(r, int)]
                if l2 is not None and l2 in ne:
                    l2 += 1
                if l2 is not None and h2 is not None and l2 > h2:
                    continue
            work.append((s, l2, h2, st2))
    return out


def some_arm_blocks(f, param):
    """targets of the `Some` edge of every switch on the discriminant of Option parameter `param` (through copies)"""
    out = []
    for b in range(f.n):
        t = f.blocks[b]["t"]
        if t["k"] != "switch":
            continue
        ls = list(operand_locals(t["x"]))
        if not ls:
            continue
        ds = def_sites(f, ls[0])
        if len(ds) != 1 or ds[0][1] != "assign" or ds[0][2]["rv"]["k"] != "discr":
            continue
        pl = ds[0][2]["rv"]["place"]
        if pl["p"]:
            continue
        root = strip_reborrow(f, pl["l"])[-1]
        if root != param:
            root = view_info(f, pl["l"])[0]      # through closure captures / record fields
        if root != param:
            continue
        for v, tb in t["arms"]:
            if v == 1:
                out.append(tb)
        if not any(v == 1 for v, tb in t["arms"]) and t.get("otherwise") is not None:
            out.append(t["otherwise"])
    return out


LENGTH_ONLY = ("len", "is_empty", "capacity")


def content_slice(f, targets):
    """Backward dependency slice of `targets` that is not continued through values which only carry the *length*
    of something (results of len / is_empty / capacity calls, slice metadata reads): what remains are the
    locals whose contents can reach the targets."""
    from collections import deque
    g = f._alias_closed_deriv()
    stop = set()
    for c in f.calls():
        if c.name in LENGTH_ONLY and len(c.args) == 1 and not c.dest["p"]:
            stop.add(c.dest["l"])
    for b, i, s in f.assigns():
        rv = s["rv"]
        if not s["place"]["p"] and (rv["k"] == "len" or rv["k"] == "unop" and rv.get("op") == "PtrMetadata"):
            stop.add(s["place"]["l"])
    seen = set(targets)
    q = deque(targets)
    while q:
        x = q.popleft()
        if x in stop:
            continue
        for y in g.get(x, ()):
            if y not in seen:
                seen.add(y)
                q.append(y)
    return seen
