"""C20 — forbidden accesses do not compile: generated compile witnesses + impl-table query.

WITNESS: for every cell of the type-state table a tiny misuse function is generated; all of them are
compiled in one rustc run (cargo +nightly check, JSON diagnostics) and each must be rejected with an
error of an accepted class inside its own function; a permitted twin differing only in the state (or,
for use-after-transition, in which binding is used) must compile with zero errors, so a witness
cannot pass merely because a path or method name is wrong.
IMPL: every impl that hands out a byte view of Protected<A, PM, LM> has a concrete, allowed PM.
"""
import json
import os
import shutil
import subprocess
import time

from ..core import parse_ty, ty_text

ERR_CLASSES = {"E0599", "E0596", "E0594", "E0277", "E0308", "E0382", "E0505", "E0507", "E0609", "E0614", "E0608", "E0369", "E0600"}

EXPLANATION = (
    "Type-level property decided by the compiler itself. A table {ReadWrite, ReadOnly, NoAccess} x {Locked, "
    "Unlocked} x {HeapBytes (resizable), HeapByteArray<32> (fixed)} x operations is expanded into one misuse "
    "function per forbidden cell (mutable views of read-only regions, any byte view / clone / serialisation of "
    "no-access regions, no-access transition on locked regions, use of a binding after each of the five "
    "consuming transitions, pull on a push stream and push on a pull stream) and one permitted twin per cell. "
    "Misuse functions are compiled together (one rustc run, --message-format=json): each must produce at "
    "least one error of class E0599/E0596/E0594/E0277/E0308/E0382/E0505/E0507 whose primary span lies inside "
    "that function, and no error may lie outside the generated cells; the twins must compile with zero "
    "errors. The impl-table query additionally names any impl that widens the API: view traits on Protected "
    "must have a concrete protect-mode parameter in the allowed set, ProtectNoAccess requires Unlocked, "
    "transitions take self by value, Protected has no public fields, push/pull methods live only in their "
    "own impl blocks.")
NOT_DECIDED = "that the permitted programs run without faulting (runtime; the twins are compiled, never executed)."

STATES = {
    ("RW", "L"): "{T}::new_locked().unwrap()",
    ("RW", "U"): "{T}::new_locked().unwrap().munlock().unwrap()",
    ("RO", "L"): "{T}::new_readonly_locked().unwrap()",
    ("RO", "U"): "{T}::new_locked().unwrap().munlock().unwrap().mprotect_readonly().unwrap()",
    ("NA", "U"): "{T}::new_locked().unwrap().munlock().unwrap().mprotect_noaccess().unwrap()",
}
CONTAINERS = {"bytes": "HeapBytes", "array": "HeapByteArray::<32>"}

READ_OPS = {
    "as_slice": "let _v = x.as_slice();",
    "len": "let _v = x.len();",
    "is_empty": "let _v = x.is_empty();",
    "index_read": "let _v = x[0];",
    "iter": "for _b in x.iter() {}",
    "as_ref": "let _v: &[u8] = x.as_ref();",
    "clone": "let _v = x.clone();",
}
READ_OPS_FIXED = {"as_array": "let _v = x.as_array();"}
MUT_OPS = {
    "as_mut_slice": "x.as_mut_slice()[0] = 1;",
    "index_write": "x[0] = 1;",
    "as_mut": "{ let _v: &mut [u8] = x.as_mut(); }",
    "copy_from_slice": "MutBytes::copy_from_slice(&mut x, &[]);",
}
MUT_OPS_BYTES = {"resize": "x.resize(4, 0);"}
MUT_OPS_FIXED = {"as_mut_array": "{ let _v: &mut [u8; 32] = MutByteArray::<32>::as_mut_array(&mut x); }"}

TRANSITIONS = {
    # name: (state to start from, call)
    "mlock": (("RW", "U"), "mlock"),
    "munlock": (("RW", "L"), "munlock"),
    "mprotect_readonly": (("RW", "L"), "mprotect_readonly"),
    "mprotect_readwrite": (("RO", "L"), "mprotect_readwrite"),
    "mprotect_noaccess": (("RW", "U"), "mprotect_noaccess"),
}

PRELUDE = """#![allow(unused_mut, unused_variables, dead_code, unused_imports, clippy::all)]
use dryoc::dryocstream::{DryocStream, Header, Key, Pull, Push, Tag};
use dryoc::protected::*;
use dryoc::types::*;

fn ser<T: serde::Serialize>(_t: &T) {}
"""


def cells():
    """yield (cell_id, misuse_body_lines, twin_body_lines)"""
    out = []
    for ck, T in CONTAINERS.items():
        mut_ops = dict(MUT_OPS)
        mut_ops.update(MUT_OPS_BYTES if ck == "bytes" else MUT_OPS_FIXED)
        read_ops = dict(READ_OPS)
        if ck == "array":
            read_ops.update(READ_OPS_FIXED)
        # mutable view of a read-only region
        for lm in ("L", "U"):
            for op, stmt in mut_ops.items():
                cid = "ro_%s_%s_%s" % (lm.lower(), ck, op)
                mis = ["let mut x = %s;" % STATES[("RO", lm)].format(T=T), stmt]
                twin = ["let mut x = %s;" % STATES[("RW", lm)].format(T=T), stmt]
                out.append((cid, mis, twin))
        # any view of a no-access region
        for op, stmt in read_ops.items():
            cid = "na_%s_%s" % (ck, op)
            mis = ["let mut x = %s;" % STATES[("NA", "U")].format(T=T), stmt]
            twin = ["let mut x = %s;" % STATES[("RO", "U")].format(T=T), stmt]
            out.append((cid, mis, twin))
        for op, stmt in mut_ops.items():
            cid = "na_%s_%s" % (ck, op)
            mis = ["let mut x = %s;" % STATES[("NA", "U")].format(T=T), stmt]
            twin = ["let mut x = %s;" % STATES[("RW", "U")].format(T=T), stmt]
            out.append((cid, mis, twin))
        # serialisation of a no-access region (locked read-write twin: Serialize exists for Locked<_>)
        cid = "na_%s_serialize" % ck
        out.append((cid, ["let mut x = %s;" % STATES[("NA", "U")].format(T=T), "ser(&x);"],
                    ["let mut x = %s;" % STATES[("RW", "L")].format(T=T), "ser(&x);"]))
        # no-access transition on a locked region
        for pm in ("RW", "RO"):
            cid = "noaccess_on_locked_%s_%s" % (pm.lower(), ck)
            mis = ["let mut x = %s;" % STATES[(pm, "L")].format(T=T), "let _y = x.mprotect_noaccess().unwrap();"]
            twin = ["let mut x = %s;" % STATES[(pm, "L")].format(T=T), "let _y = x.munlock().unwrap().mprotect_noaccess().unwrap();"]
            out.append((cid, mis, twin))
        # use after a consuming transition
        for tn, (st, call) in TRANSITIONS.items():
            cid = "use_after_%s_%s" % (tn, ck)
            mis = ["let mut x = %s;" % STATES[st].format(T=T), "let y = x.%s().unwrap();" % call, "let _p = &x;"]
            twin = ["let mut x = %s;" % STATES[st].format(T=T), "let y = x.%s().unwrap();" % call, "let _p = &y;"]
            out.append((cid, mis, twin))
    # streams
    push = "let key = Key::gen(); let (mut s, _h): (DryocStream<Push>, Header) = DryocStream::init_push(&key);"
    pull = "let key = Key::gen(); let h = Header::gen(); let mut s: DryocStream<Pull> = DryocStream::init_pull(&key, &h);"
    msg = "let m: Vec<u8> = vec![0u8; 32];"
    out.append(("stream_pull_on_push", [push, msg, "let _r = s.pull_to_vec(&m, None);"], [pull, msg, "let _r = s.pull_to_vec(&m, None);"]))
    out.append(("stream_pull_generic_on_push", [push, msg, "let _r: Result<(Vec<u8>, Tag), _> = s.pull(&m, None);"],
                [pull, msg, "let _r: Result<(Vec<u8>, Tag), _> = s.pull(&m, None);"]))
    out.append(("stream_push_on_pull", [pull, msg, "let _r = s.push_to_vec(&m, None, Tag::MESSAGE);"], [push, msg, "let _r = s.push_to_vec(&m, None, Tag::MESSAGE);"]))
    out.append(("stream_push_generic_on_pull", [pull, msg, "let _r: Result<Vec<u8>, _> = s.push(&m, None, Tag::MESSAGE);"],
                [push, msg, "let _r: Result<Vec<u8>, _> = s.push(&m, None, Tag::MESSAGE);"]))
    return out


def gen_file(cs, which):
    lines = PRELUDE.split("\n")
    ranges = {}
    for cid, mis, twin in cs:
        body = mis if which == "misuse" else twin
        start = len(lines) + 1
        lines.append("pub fn %s() {" % cid)
        for b in body:
            lines.append("    " + b)
        lines.append("}")
        ranges[cid] = (start, len(lines))
        lines.append("")
    if which == "misuse":
        lines.append("fn main() {}")
    return "\n".join(lines) + "\n", ranges


def build_harness(ctx, cs, hdir, isolated=None):
    os.makedirs(os.path.join(hdir, "src"), exist_ok=True)
    os.makedirs(os.path.join(hdir, "examples"), exist_ok=True)
    with open(os.path.join(hdir, "Cargo.toml"), "w") as fh:
        fh.write("[package]\nname = \"dryoc-witness\"\nversion = \"0.0.0\"\nedition = \"2021\"\n\n[dependencies]\n"
                 "dryoc = { path = \"%s\", features = [\"nightly\", \"serde\"] }\nserde = \"1\"\n\n[workspace]\n" % ctx.repo)
    shutil.copy(os.path.join(ctx.repo, "Cargo.lock"), os.path.join(hdir, "Cargo.lock"))
    twin_src, twin_ranges = gen_file(cs, "twin")
    mis_src, mis_ranges = gen_file(cs, "misuse")
    with open(os.path.join(hdir, "src", "lib.rs"), "w") as fh:
        fh.write(twin_src)
    with open(os.path.join(hdir, "examples", "misuse.rs"), "w") as fh:
        fh.write(mis_src)
    return twin_ranges, mis_ranges


def cargo_check(hdir, target_args, tgt):
    env = dict(os.environ)
    env["CARGO_NET_OFFLINE"] = "true"
    env["CARGO_TARGET_DIR"] = tgt
    env.pop("RUSTC_WORKSPACE_WRAPPER", None)
    r = subprocess.run(["cargo", "+nightly", "check", "--offline", "--message-format=json", "--manifest-path",
                        os.path.join(hdir, "Cargo.toml")] + target_args, capture_output=True, text=True, env=env)
    msgs = []
    dep_error = False
    for line in r.stdout.splitlines():
        try:
            j = json.loads(line)
        except ValueError:
            continue
        if j.get("reason") == "compiler-message":
            m = j["message"]
            if m.get("level") != "error":
                continue
            pkg = j.get("package_id", "")
            if "dryoc-witness" not in pkg and "witness" not in j.get("target", {}).get("name", "") and j.get("target", {}).get("name") not in ("dryoc_witness", "misuse"):
                dep_error = True
                continue
            code = (m.get("code") or {}).get("code")
            prim = [s for s in m.get("spans", []) if s.get("is_primary")]
            # macro-expanded spans: take the outermost expansion site in our file
            line_no = None
            fname = None
            for s in prim:
                cur = s
                while cur.get("expansion") and cur["expansion"].get("span"):
                    cur = cur["expansion"]["span"]
                line_no = cur.get("line_start")
                fname = cur.get("file_name")
            msgs.append({"code": code, "line": line_no, "file": fname, "text": m.get("message", "")[:160]})
    return r.returncode, msgs, dep_error, r.stderr[-2000:]


def run(ctx, rep):
    rep.explanation = EXPLANATION
    rep.not_decided = NOT_DECIDED
    rep.level = "proof"
    rep.trust("rustc's type checker, trait solver and borrow checker (nightly 1.97)")
    rep.assume("features nightly,serde (protected memory exists only with `nightly`)")
    t0 = time.time()
    cs = cells()
    hdir = os.path.join(ctx.verif, ".work", "witness-%s-%d" % (ctx.digest, os.getpid()))    # per run: two runs on identical trees must not share it
    tgt = os.environ.get("VERIF_TARGET_DIR") or os.path.join(ctx.verif, ".work", "target")
    tgt = tgt + "-witness"
    twin_ranges, mis_ranges = build_harness(ctx, cs, hdir)
    rep.floor("type-state cells", len(cs), 60)
    # twins
    rc, msgs, dep_error, err = cargo_check(hdir, ["--lib"], tgt)
    tries = 0
    while rc != 0 and not msgs and not dep_error and tries < 3:
        tries += 1
        time.sleep(2 * tries)
        rc, msgs, dep_error, err = cargo_check(hdir, ["--lib"], tgt)
    if dep_error or (rc != 0 and not msgs):
        rep.violation("BUILD", "witness harness", "the harness (or /repo with nightly,serde) does not build: %s" % err[-300:])
        shutil.rmtree(hdir, ignore_errors=True)
        return
    bad_twins = {}
    for m in msgs:
        for cid, (a, b) in twin_ranges.items():
            if m["line"] is not None and a <= m["line"] <= b:
                bad_twins.setdefault(cid, []).append(m)
    stray = [m for m in msgs if not any(m["line"] is not None and a <= m["line"] <= b for a, b in twin_ranges.values())]
    if stray:
        rep.violation("HARNESS", "twin file stray errors", "errors outside any generated cell: %s" % stray[:3])
    for cid, _, _ in cs:
        ok = cid not in bad_twins
        rep.ob("TWIN", cid, ok, "permitted twin compiles" if ok else "the PERMITTED twin no longer compiles: %s" % bad_twins[cid][0]["text"],
               key="TWIN|%s" % cid)
    # misuse
    rc2, msgs2, dep_error2, err2 = cargo_check(hdir, ["--example", "misuse"], tgt)
    tries = 0
    while rc2 != 0 and not msgs2 and not dep_error2 and tries < 3:
        # cargo failed without a single compiler message (killed / interrupted under load): not a verdict
        tries += 1
        time.sleep(2 * tries)
        rc2, msgs2, dep_error2, err2 = cargo_check(hdir, ["--example", "misuse"], tgt)
    if rc2 != 0 and not msgs2 and not dep_error2:
        rep.violation("BUILD", "witness harness (misuse)", "cargo check of the misuse programs failed without compiler messages (rc=%s): %s" % (rc2, err2[-300:]))
        shutil.rmtree(hdir, ignore_errors=True)
        return
    if dep_error2:
        rep.violation("BUILD", "witness harness (misuse)", "dependency build error: %s" % err2[-300:])
        shutil.rmtree(hdir, ignore_errors=True)
        return
    by_cell = {}
    stray2 = []
    for m in msgs2:
        hit = None
        for cid, (a, b) in mis_ranges.items():
            if m["line"] is not None and a <= m["line"] <= b:
                hit = cid
        if hit:
            by_cell.setdefault(hit, []).append(m)
        elif m["code"] is not None:
            stray2.append(m)
    if stray2:
        rep.violation("HARNESS", "misuse file stray errors", "errors outside any generated cell (harness out of date): %s" % stray2[:3])
    for cid, mis, _ in cs:
        ms = by_cell.get(cid, [])
        good = [m for m in ms if m["code"] in ERR_CLASSES]
        ok = bool(good)
        rep.ob("WITNESS", cid, ok,
               "rejected by rustc: %s %s" % (good[0]["code"], good[0]["text"][:90]) if ok else
               ("the misuse program `%s` COMPILES (no error inside the cell)" % " ".join(mis) if not ms else
                "rejected only with unexpected error class %s" % [m["code"] for m in ms]),
               key="WITNESS|%s" % cid)
        if len(rep.samples) < 10:
            rep.sample({"cell": cid, "program": mis, "verdict": good[0]["code"] if good else None})
    rep.extra["witness_seconds"] = round(time.time() - t0, 1)
    rep.extra["programs"] = 2 * len(cs)
    shutil.rmtree(hdir, ignore_errors=True)
    impl_query(ctx, rep)


VIEW_SHARED = ("types::Bytes", "std::convert::AsRef", "std::ops::Deref", "types::ByteArray", "std::clone::Clone",
               "std::ops::Index", "std::cmp::PartialEq", "std::fmt::Debug")
VIEW_MUT = ("types::MutBytes", "std::convert::AsMut", "std::ops::DerefMut", "types::MutByteArray", "types::ResizableBytes",
            "types::NewBytes", "types::NewByteArray", "std::ops::IndexMut", "std::default::Default")


def impl_query(ctx, rep):
    prog = ctx.prog("full")
    n = 0
    for imp in prog.impls:
        st = imp["self_ty"]
        if st.get("path") != "protected::Protected":
            continue
        tr = imp.get("trait") or ""
        args = st.get("args", [])
        if len(args) != 3:
            continue
        pm, lm = args[1], args[2]
        pm_name = pm["t"].split("::")[-1] if pm.get("k") == "adt" else None
        lm_name = lm["t"].split("::")[-1] if lm.get("k") == "adt" else None
        loc = "%s:%d" % (imp["span"]["file"], imp["span"]["lo"])
        inst = "impl %s for %s" % (tr.split("::")[-1] or "<inherent>", st["t"].replace("protected::", ""))
        if tr in VIEW_SHARED or tr.endswith("ser::Serialize") or tr.endswith("::Serialize"):
            n += 1
            rep.ob("IMPL", inst, pm_name in ("ReadOnly", "ReadWrite"),
                   "shared byte view requires a concrete ReadOnly/ReadWrite protect mode; impl has PM = %s" % pm["t"], loc=loc)
        elif tr in VIEW_MUT:
            n += 1
            rep.ob("IMPL", inst, pm_name == "ReadWrite", "mutable byte view / resize requires PM = ReadWrite; impl has PM = %s" % pm["t"], loc=loc)
        elif tr.endswith("ProtectNoAccess"):
            n += 1
            rep.ob("IMPL", inst, lm_name == "Unlocked", "no-access transition requires LM = Unlocked; impl has LM = %s" % lm["t"], loc=loc)
        elif tr.endswith("protected::Lock"):
            n += 1
            rep.ob("IMPL", inst, lm_name == "Unlocked", "mlock is offered on Unlocked regions; impl has LM = %s" % lm["t"], loc=loc)
        elif not tr:
            # inherent impl: public methods must not hand out byte views when PM is generic
            for it in imp["items"]:
                f = prog.by_key.get(it["key"])
                if f is None or f.vis != "pub":
                    continue
                rt = f.locals[0]["t"]
                if pm_name is None and ("[u8" in rt or "&" in rt and "u8" in rt):
                    rep.violation("IMPL", inst + "::" + it["name"], "public inherent method on Protected with generic PM returns a byte view: %s" % rt, loc=f.loc())
    rep.floor("Protected view/transition impls", n, 30)
    # transitions consume self
    for imp in prog.impls:
        tr = imp.get("trait") or ""
        if tr.startswith("protected::") and tr.split("::")[-1] in ("Lock", "Unlock", "ProtectReadOnly", "ProtectReadWrite", "ProtectNoAccess", "Lockable"):
            for it in imp["items"]:
                f = prog.by_key.get(it["key"])
                if f is None:
                    continue
                t1 = f.locals[1]
                rep.ob("IMPL", "%s::%s consumes self [%s]" % (tr.split("::")[-1], it["name"], imp["self_ty"]["t"].replace("protected::", "")[:60]),
                       t1.get("k") not in ("ref", "ptr"), "receiver type %s" % t1["t"][:80], loc=f.loc())
    # no public fields on Protected
    adt = prog.adts.get("protected::Protected")
    if adt:
        pubf = [fd["name"] for v in adt["variants"] for fd in v["fields"] if fd["pub"]]
        rep.ob("IMPL", "Protected has no public fields", not pubf, "public fields: %s" % pubf)
    else:
        rep.violation("ANCHOR", "protected::Protected", "type not found")
    # streams
    for f in prog.fns:
        if f.kind == "closure" or not f.path.startswith("dryocstream::DryocStream"):
            continue
        if f.name.startswith("push") or f.name == "init_push":
            rep.ob("IMPL", "DryocStream::%s lives in impl DryocStream<Push>" % f.name, "DryocStream::<dryocstream::Push>::" in f.path, f.path, loc=f.loc())
        if f.name.startswith("pull") or f.name == "init_pull":
            rep.ob("IMPL", "DryocStream::%s lives in impl DryocStream<Pull>" % f.name, "DryocStream::<dryocstream::Pull>::" in f.path, f.path, loc=f.loc())
