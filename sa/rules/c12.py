"""C12 — key derivation: guard, operand provenance and constants."""
from ..core import operand_locals, def_sites
from ..expr import expr_of_operand, call_arg_exprs, evaluate, atoms_of, result_kind_of_ret, deep_repr
from ..guards import edge_facts, facts_at, bounds, term_of
from . import common as cm
from . import consts

EXPLANATION = (
    "GUARD: every definition of the return place of crypto_kdf_derive_from_key that can be Ok is dominated "
    "by branch edges implying 16 <= subkey.len() <= 64 (bounds read from the edges, compared with libsodium's "
    "BYTES_MIN/MAX). PROV: the operands of the BLAKE2b init call are rebuilt as expression trees: digest "
    "length must be built from len(subkey) (not a constant), the key operand from the master key parameter, "
    "the salt buffer is written from subkey_id.to_le_bytes() into its first 8 of 16 bytes, the personal "
    "buffer from the context parameter; finalize writes the subkey parameter. CONST: crypto_kdf_* constants "
    "equal libsodium's. The object API (Kdf::derive_subkey*) must reach the classic function with its own "
    "key/context and the requested id.")
NOT_DECIDED = "the digest bytes (BLAKE2b as a function); that different ids/contexts/lengths give different subkeys."


def run(ctx, rep):
    rep.explanation = EXPLANATION
    rep.not_decided = NOT_DECIDED
    rep.trust("blake2b::State::{init,finalize} parameter positions: (outlen, key, salt, personal) / (self, output)")
    prog = ctx.prog("full")
    n = consts.compare(prog, rep, prefix_filter="CRYPTO_KDF")
    rep.floor("KDF constants", n, 6)
    fs = prog.by_path.get("classic::crypto_kdf::crypto_kdf_derive_from_key", [])
    if not fs:
        rep.violation("ANCHOR", "crypto_kdf_derive_from_key", "public function not found")
        return
    # "rejects other lengths with an error": the refusal is an Err, never a panic - no panic-capable site (index,
    # slice, arithmetic overflow, unwrap) of the derivation is reachable for any subkey length (C04's engine, with
    # the derivation and the object API as entry points)
    from . import c04 as _c04
    _c04.check(ctx, rep, prog, "", entries_spec=[("classic::crypto_kdf::crypto_kdf_derive_from_key",),
                                                ("kdf::Kdf", "derive_subkey"), ("kdf::Kdf", "derive_subkey_to_vec")])
    from ..inline import inline
    f = inline(prog, fs[0])      # salt/personal builders and the like folded in
    subkey = 1                   # public signature (positional): (subkey, subkey_id, context, main_key)
    sid, ctxp, mk = 2, 3, 4
    ef = edge_facts(f, cm.view_info)
    nok = 0
    for b, kind, e in result_kind_of_ret(f):
        if kind == "err" or b not in f.reachable(0):
            continue
        nok += 1
        lo, hi = bounds(("len", subkey), facts_at(f, b, ef))
        rep.ob("GUARD", "Ok exit|16<=len<=64|bb-kind:%s#%d" % (kind, nok), lo == 16 and hi == 64,
               "dominating edges imply subkey.len() in [%s, %s]; required [16, 64]" % (lo, hi), loc=f.loc(b))
    rep.floor("Ok-capable exits of derive_from_key", nok, 1)
    inits = [c for c in f.calls() if c.rpath.endswith("::State::init") and "blake2b" in c.rpath]
    fins = [c for c in f.calls() if c.rpath.endswith("::State::finalize") and "blake2b" in c.rpath]
    if len(inits) != 1 or len(fins) != 1:
        rep.violation("ANCHOR", "blake2b init/finalize", "expected one BLAKE2b init and one finalize, found %d/%d" % (len(inits), len(fins)), loc=f.loc())
        return
    ini, fin = inits[0], fins[0]
    ax = call_arg_exprs(ini)
    R = cm.blake2b_init_roles(prog, ini)        # which argument is the digest length / key / salt / personal
    I_OUT, I_KEY, I_SALT, I_PERS = R["outlen"], R["key"], R["salt"], R["personal"]
    t = term_of(f, ax[I_OUT], cm.view_info)
    if ax[I_OUT].k == "cast" and term_of(f, ax[I_OUT].a, cm.view_info) == ("len", subkey):
        # `subkey.len() as u8`: the same value as long as the dominating guard keeps it below 256
        lo_, hi_ = bounds(("len", subkey), facts_at(f, ini.bb, edge_facts(f, cm.view_info, interproc=False)))
        if hi_ is not None and hi_ <= 255:
            t = ("len", subkey)
    rep.ob("PROV", "digest length = subkey.len()", t == ("len", subkey),
           "digest-length operand of the BLAKE2b init is %s" % (("the constant %r" % t) if isinstance(t, int) else repr(t)), loc=ini.loc())
    rep.ob("PROV", "key <- master key", mk in f.backward_slice(operand_locals(ini.args[I_KEY])) and
           sid not in f.backward_slice(operand_locals(ini.args[I_KEY])), "key operand depends on the master-key parameter", loc=ini.loc())

    def buffer_written_from(arg, src_pred, want_prefix):
        ls = list(operand_locals(arg))
        if not ls:
            return False, "constant operand"
        # Option<&[u8]> built from Some(&buf): find array-typed local in the backward slice
        back = f.backward_slice(ls)
        bufs = [l for l in back if f.locals[l]["t"].startswith("[u8; ") and l > f.argc]
        for bl in bufs:
            for c in f.calls():
                if c.path not in cm.COPY:
                    continue
                droot, dn = cm.view_info(f, list(operand_locals(c.args[0]))[0])
                if droot != bl:
                    continue
                sb = f.backward_slice(operand_locals(c.args[1]))
                if src_pred(sb, c):
                    # prefix boundary
                    d = def_sites(f, cm.strip_reborrow(f, list(operand_locals(c.args[0]))[0])[-1])
                    return True, "buffer `%s` (%s) filled at %s" % (f.local_name(bl), f.locals[bl]["t"], c.loc())
        # other ways of filling the buffer (element loops, iterator zips): the buffer's own
        # dependency slice must contain the expected source
        for bl in bufs:
            if src_pred(f.backward_slice([bl]), None):
                return True, "buffer `%s` (%s) is filled from the expected source (element-wise)" % (f.local_name(bl), f.locals[bl]["t"])
        return False, "no buffer in the operand's slice is filled from the expected source"
    le = [c for c in f.calls() if c.path.endswith("::to_le_bytes")]
    ok, why = buffer_written_from(ini.args[I_SALT], lambda sb, c: any(x.dest["l"] in sb for x in le) and sid in sb, 8)
    rep.ob("PROV", "salt <- subkey_id.to_le_bytes()", ok and bool(le), why, loc=ini.loc())
    ok, why = buffer_written_from(ini.args[I_PERS], lambda sb, c: ctxp in sb, 8)
    rep.ob("PROV", "personal <- context", ok, why, loc=ini.loc())
    # each optional operand is passed unconditionally (Some(&buffer)) and depends only on its own source:
    # key <- master key, salt <- subkey id, personal <- context (no cross-gating between them)
    own = {I_KEY: ("key", {mk}), I_SALT: ("salt", {sid}), I_PERS: ("personal", {ctxp})}
    for i, (nm, allowed) in own.items():
        e = ax[i]
        uncond = e.k == "agg" and e.a == "std::option::Option" and e.b == "Some"
        back = f.backward_slice(operand_locals(ini.args[i])) & {sid, ctxp, mk, subkey}
        rep.ob("PROV", "%s operand is unconditional and depends only on its own source" % nm, uncond and back <= allowed,
               "%s operand is %s and depends on parameters %s" % (nm, "Some(..)" if uncond else deep_repr(e)[:70], sorted(f.local_name(x) for x in back)),
               loc=ini.loc())
    # the 8-byte context / id are *zero*-padded to the 16-byte personal / salt parameters: a widening
    # cast from a signed integer would sign-extend (bytes 8.. become 0xff when the top bit is set), and
    # a big-endian conversion would reorder the bytes
    from ..expr import INT_BITS
    SIGNED = ("i8", "i16", "i32", "i64", "i128", "isize")
    for i, nm in ((I_SALT, "salt"), (I_PERS, "personal")):
        back = f.backward_slice(operand_locals(ini.args[i]))
        bad = []
        for bb, si, st in f.assigns():
            rv = st["rv"]
            if st["place"]["l"] not in back or rv["k"] != "cast" or rv.get("kind") != "IntToInt":
                continue
            x = rv["x"]
            src_t = f.locals[x["l"]]["t"] if x.get("k") in ("copy", "move") and not x["p"] else x.get("ty", "")
            if src_t in SIGNED and INT_BITS.get(rv.get("ty"), 0) > INT_BITS.get(src_t, 0) + 1:
                bad.append("%s as %s at %s" % (src_t, rv.get("ty"), f.loc(bb)))
        be = [c for c in f.calls() if c.dest and c.dest["l"] in back and (c.path.endswith("::from_be_bytes") or c.path.endswith("::to_be_bytes") or c.path.endswith("::swap_bytes"))]
        rep.ob("PROV", "%s is zero-padded, byte order kept" % nm, not bad and not be,
               ("value-preserving widening only" if not bad and not be else
                "sign-extending / byte-reordering step on the way to the %s operand: %s" % (nm, bad + [c.path.split("::")[-1] for c in be])), loc=ini.loc())
    out_root = cm.view_info(f, list(operand_locals(fin.args[1]))[0])
    rep.ob("PROV", "output -> subkey", out_root == (subkey, False), "finalize writes the whole subkey parameter", loc=fin.loc())
    st = cm.view_info(f, list(operand_locals(fin.args[0]))[0])[0]
    rep.ob("PROV", "finalize on the initialised state", ini.dest["l"] in f.backward_slice([st]) | {st}, "same state object", loc=fin.loc())
    # little-endian (not big-endian) id encoding
    rep.ob("PROV", "id encoding is little-endian", all(c.path.endswith("to_le_bytes") for c in f.calls() if "_bytes" in c.path and "to_" in c.path),
           "integer encodings used: %s" % sorted({c.path.split("::")[-1] for c in f.calls() if "to_" in c.path and "_bytes" in c.path}), loc=f.loc())
    # object API forwards to the classic function
    n = 0
    for m in ("derive_subkey", "derive_subkey_to_vec"):
        for g in cm.find_method(prog, "kdf::Kdf", m):
            n += 1
            seen = prog.reach_fns([g])
            rep.ob("FORWARD", "Kdf::%s reaches crypto_kdf_derive_from_key" % m, f.key in seen, "call-graph reachability", loc=g.loc())
            # the whole id space: the object API takes the same 64-bit id as the classic function
            idp_ = g.arg_local("subkey_id") or 2
            ints_ = [g.locals[p_]["t"] for p_ in cm.params_of(g) if g.locals[p_]["t"] in ("u8", "u16", "u32", "u64", "usize", "u128", "i32", "i64")]
            rep.ob("FORWARD", "Kdf::%s takes a 64-bit id" % m, ints_ == ["u64"],
                   "integer parameter(s) of the object-API derive function: %s (libsodium's subkey id is a uint64_t)" % ints_, loc=g.loc())
            for c in g.calls():
                if c.rpath.endswith("crypto_kdf_derive_from_key"):
                    selfp = 1
                    idp = g.arg_local("subkey_id") or 2
                    b_id = f.backward_slice  # noqa
                    rep.ob("FORWARD", "Kdf::%s passes its id, context and key" % m,
                           idp in g.backward_slice(operand_locals(c.args[1])) and selfp in g.backward_slice(operand_locals(c.args[2]))
                           and selfp in g.backward_slice(operand_locals(c.args[3])),
                           "subkey_id -> arg1, self.context -> arg2, self.main_key -> arg3", loc=c.loc())
    rep.floor("object-API derive functions", n, 1)
    _nw = cm.read_after_wipe(rep, prog, ("classic::crypto_kdf", "kdf::"))
    rep.note("WIPE-ORDER: %d wipe(s) of local buffers checked in the key-derivation code" % _nw)
