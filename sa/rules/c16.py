"""C16 — encodings: framing, fixed-length enforcement, slice constructors (structural clauses)."""
from ..core import operand_locals, def_sites
from ..expr import (expr_of_operand, call_arg_exprs, evaluate, result_kind_of_ret, deep_repr, expr_of_local)
from ..guards import edge_facts, facts_at, term_of
from . import common as cm
from ..inline import inline
from .c01 import boundaries, PAIRS, get as get_anchor

EXPLANATION = (
    "FRAMING: to_bytes/from_bytes(/from_sealed_bytes) of DryocBox, DryocSecretBox and SignedMessage use the "
    "same constant boundary offsets, equal to libsodium's combined layout (tag 16 | data; epk 32 | tag 16 | "
    "data; signature 64 | message). FIXED-LEN: every fixed-length decoder (TryFrom<&[u8]> for the array "
    "containers, from_slice_into_locked of the fixed container, visit_bytes and visit_seq of every hand-"
    "written serde visitor whose value type has a LENGTH parameter) reaches Ok only through an edge on which "
    "LENGTH equals the actual input length (len of the input slice) or a counter that is incremented once per "
    "element read from the sequence; SeqAccess::size_hint must not be in the dependency slice of that "
    "comparison. SIZED-COPY: slice constructors and variable-length visitors size the destination from the "
    "source before copy_from_slice, and every element store arr[idx] is preceded on every path by idx < len "
    "or a resize to more than idx. PARTS: from_parts/into_parts are pure field moves. WRITER: on every path of "
    "to_bytes the copies from fields of self tile the output buffer (first piece at offset 0, each constant end "
    "is the next start, exactly the last piece open-ended, no field written twice). STRUCT-SER: every struct "
    "serializer emits every field on every path (each serialize_field dominates `end`, no skip_field, the announced "
    "count equals the number of fields written): the derived deserializers read sequence formats positionally.")
NOT_DECIDED = ("equality of the decoded object with the encoded one; serde_json/bincode format specifics; that decoded "
               "objects still decrypt/verify.")


def run(ctx, rep):
    rep.explanation = EXPLANATION
    rep.not_decided = NOT_DECIDED
    rep.trust("serde's Visitor protocol: next_element yields each element once; size_hint is only a hint")
    prog = ctx.prog("full")
    framing(rep, prog)
    fixed(rep, prog)
    sized(rep, prog)
    parts(rep, prog)
    struct_ser(rep, prog)


def framing(rep, prog):
    n = 0
    for name, w, r, want in PAIRS:
        if "bytes" not in name:
            continue
        wf, rf = get_anchor(prog, w), get_anchor(prog, r)
        if not wf or not rf:
            rep.violation("ANCHOR", name, "writer/reader not found")
            continue
        n += 1
        wo, _ = boundaries(prog, wf[0], delegate=True)
        ro, _ = boundaries(prog, rf[0], delegate=True)
        rep.ob("FRAMING", name, want <= wo and want <= ro and (wo - want) == (ro - want),
               "writer offsets %s reader offsets %s expected %s" % (sorted(wo), sorted(ro), sorted(want)), loc=rf[0].loc())
    tb = cm.find_method(prog, "dryocbox::DryocBox", "to_bytes")
    fb = cm.find_method(prog, "dryocbox::DryocBox", "from_bytes")
    fs = cm.find_method(prog, "dryocbox::DryocBox", "from_sealed_bytes")
    if tb and fb and fs:
        n += 1
        to, _ = boundaries(prog, tb[0], delegate=True)
        bo, _ = boundaries(prog, fb[0], delegate=True)
        so, _ = boundaries(prog, fs[0], delegate=True)
        rep.ob("FRAMING", "DryocBox plain", {16} <= to and bo == {16}, "to_bytes %s from_bytes %s" % (sorted(to), sorted(bo)), loc=fb[0].loc())
        rep.ob("FRAMING", "DryocBox sealed", {32, 48} <= to and so == {32, 48}, "to_bytes %s from_sealed_bytes %s" % (sorted(to), sorted(so)), loc=fs[0].loc())
        # minimum-length guards of the parsers
        for f, minimum in ((fb[0], 16), (fs[0], 48)):
            from ..inline import inline as _inl
            f = _inl(prog, f)       # the length guard may sit in a private helper
            ef = edge_facts(f, cm.view_info)
            for b, kind, e in result_kind_of_ret(f):
                if kind == "err" or b not in f.reachable(0):
                    continue
                from ..guards import bounds
                lo, hi = bounds(("len", 1), facts_at(f, b, ef))
                rep.ob("FRAMING", "%s|min length %d" % (f.name, minimum), lo == minimum, "Ok-capable exit at %s requires len >= %s" % (f.loc(b), lo), loc=f.loc(b))
    else:
        rep.violation("ANCHOR", "DryocBox bytes", "to_bytes/from_bytes/from_sealed_bytes not found")
    for (ty, m, minimum) in (("dryocsecretbox::DryocSecretBox", "from_bytes", 16), ("sign::SignedMessage", "from_bytes", 64)):
        for f in cm.find_method(prog, ty, m):
            cm.accepts_min_len(rep, prog, f, 1, minimum, "FRAMING", "%s::%s" % (ty.split("::")[-1], m))
    rep.floor("framing pairs", n, 3)
    # WRITER: the boundary offsets above say where a writer cuts its output, not that it fills every piece
    nw = 0
    for ty in ("sign::SignedMessage", "dryocsecretbox::DryocSecretBox", "dryocbox::DryocBox"):
        for f in cm.find_method(prog, ty, "to_bytes"):
            nw += 1
            writer_fills(rep, prog, f, ty.split("::")[-1])
    rep.floor("to_bytes writers examined", nw, 3)


def writer_fills(rep, prog, f0, nm):
    """On every path of `to_bytes` from entry to return, the copies from fields of `self` into the output buffer
    tile it: the first piece starts at offset 0, every piece with a constant end is followed by a piece that
    starts there, exactly the last piece is open-ended, and no field is written twice.  (Deleting one of
    `s[..64].copy_from_slice(signature)` / `s[64..].copy_from_slice(message)` leaves the cut offsets in place
    and a zero-filled piece in the output.)  Returns the number of paths followed; writers that do not use
    constant-range copies are reported as not decided (no alarm)."""
    f = inline(prog, f0)
    copies = {}
    for c in f.calls():
        if (c.path in cm.COPY or c.rpath in cm.COPY) and len(c.args) == 2 and not f.blocks[c.bb]["cleanup"]:
            ld, ls = list(operand_locals(c.args[0])), list(operand_locals(c.args[1]))
            if not ld or not ls:
                continue
            droot, ds, de = cm.view_extent(f, ld[0])
            sroot = cm.view_info(f, ls[0])[0]
            if sroot != 1 or droot is None or 1 <= droot <= f.argc:
                continue
            copies[c.bb] = (ds, de, deep_repr(expr_of_operand(f, c.args[1])), c)
    if not copies or any(v[0] is None for v in copies.values()):
        rep.note("WRITER: %s::to_bytes does not assemble its output from constant-range copies of its fields: not decided" % nm)
        return 0
    # loops: not this rule's shape
    rets = [b for b in range(f.n) if f.blocks[b]["t"]["k"] == "return"]
    paths = []
    st0 = (None,) * len(f.merges[0])
    work = [(0, st0, ())]
    seen_states = 0
    visited = set()
    while work:
        b, st, seq = work.pop()
        if (b, st, seq) in visited:
            continue
        visited.add((b, st, seq))
        seen_states += 1
        if seen_states > 20000 or len(paths) > 64:
            rep.note("WRITER: %s::to_bytes has too many paths: not decided" % nm)
            return 0
        if b in copies:
            if b in seq:
                rep.note("WRITER: %s::to_bytes copies inside a loop: not decided" % nm)
                return 0
            seq = seq + (b,)
        if b in rets:
            paths.append(seq)
            continue
        st2, succ = f._step(b, st)
        for s in succ:
            if not f.blocks[s]["cleanup"]:
                work.append((s, st2, seq))
        if len(work) > 5000:
            rep.note("WRITER: %s::to_bytes has too many paths: not decided" % nm)
            return 0
    n = 0
    for seq in sorted(set(paths)):
        n += 1
        segs = sorted((copies[b][0], copies[b][1], copies[b][2]) for b in seq)
        ok, why = True, "pieces %s" % ([(s, e) for s, e, _ in segs],)
        if not segs:
            ok, why = False, "a path returns without copying any field into the output"
        else:
            if segs[0][0] != 0:
                ok, why = False, "no piece starts at offset 0: pieces %s" % ([(s, e) for s, e, _ in segs],)
            for (s1, e1, _), (s2, e2, _) in zip(segs, segs[1:]):
                if e1 != s2:
                    ok, why = False, "the piece [%s..%s) is followed by [%s..%s): a piece of the output is never written (or written twice)" % (s1, e1, s2, e2 if e2 is not None else "")
            if segs[-1][1] is not None:
                ok, why = False, "nothing is written from offset %s on (the last piece ends at a constant offset)" % segs[-1][1]
            srcs = [x for _, _, x in segs]
            if len(set(srcs)) != len(srcs):
                ok, why = False, "the same field is the source of two pieces: %s" % srcs
        rep.ob("WRITER", "%s::to_bytes|pieces %s" % (nm, "+".join(str(s) for s, _, _ in segs) or "none"), ok, why,
               loc=copies[seq[0]][3].loc() if seq else f.loc())
    return n


def fixed_decoders(prog):
    out = []
    for imp in prog.impls:
        tr = imp.get("trait") or ""
        gens = imp.get("generics", [])
        if "LENGTH" not in gens:
            continue
        if tr == "std::convert::TryFrom" and "&[u8]" in (imp.get("trait_full") or ""):
            for it in imp["items"]:
                if it["name"] == "try_from" and it["key"] in prog.by_key:
                    out.append((prog.by_key[it["key"]], "bytes"))
        elif tr.endswith("de::Visitor"):
            for it in imp["items"]:
                if it["key"] in prog.by_key and it["name"] in ("visit_bytes", "visit_seq", "visit_byte_buf", "visit_borrowed_bytes"):
                    out.append((prog.by_key[it["key"]], "seq" if it["name"] == "visit_seq" else "bytes"))
        elif tr.endswith("NewLockedFromSlice"):
            for it in imp["items"]:
                if it["name"] == "from_slice_into_locked" and it["key"] in prog.by_key:
                    out.append((prog.by_key[it["key"]], "bytes"))
    return out


def fixed(rep, prog):
    decs = fixed_decoders(prog)
    rep.floor("fixed-length decoders", len(decs), 7)
    from ..inline import inline as _inl
    for f, kind in decs:
        f = _inl(prog, f)       # shared private helpers (`check_length::<E, LENGTH>(n)?`, `read_seq_exact(..)`) folded in
        ef = edge_facts(f, cm.view_info)
        hints = [c for c in f.calls() if c.name == "size_hint"]
        hint_locals = set(c.dest["l"] for c in hints)
        nok = 0
        for b, k, e in result_kind_of_ret(f):
            if k == "err" or b not in f.reachable(0):
                continue
            nok += 1
            facts = facts_at(f, b, ef)
            eqs = [(l, r) for op, l, r in facts if op == "Eq" and (("constparam", "LENGTH") in (l, r))]
            ok = False
            why = "no dominating edge equates LENGTH with the input length"
            for l, r in eqs:
                other = r if l == ("constparam", "LENGTH") else l
                if kind == "bytes":
                    if isinstance(other, tuple) and other[0] == "len" and 1 <= other[1] <= f.argc:
                        ok = True
                        why = "Ok exit is dominated by len(%s) == LENGTH" % f.local_name(other[1])
                else:
                    if isinstance(other, tuple) and other[0] == "local":
                        cnt = other[1]
                        back = f.backward_slice([cnt])
                        if back & hint_locals:
                            why = "the compared value depends on SeqAccess::size_hint (unreliable)"
                            continue
                        if counter_per_element(f, cnt):
                            ok = True
                            why = "Ok exit is dominated by LENGTH == `%s`, a counter incremented once per element read" % f.local_name(cnt)
                        else:
                            why = "`%s` is compared with LENGTH but is not a per-element counter" % f.local_name(cnt)
            rep.ob("FIXED-LEN", "%s|Ok exit #%d" % (f.path, nok), ok, why, loc=f.loc(b))
        if nok == 0:
            rep.violation("FIXED-LEN", f.path + "|no Ok exit", "decoder has no Ok exit?", loc=f.loc())
        # size_hint must not steer accept/reject at all in fixed-length decoders
        steer = []
        for b in range(f.n):
            t = f.blocks[b]["t"]
            if t["k"] == "switch" and f.backward_slice(operand_locals(t["x"])) & hint_locals:
                steer.append(f.loc(b))
        rep.ob("FIXED-LEN", "%s|size_hint does not steer control flow" % f.path, not steer,
               "branches depending on size_hint: %s" % steer, loc=f.loc())
        rep.sample({"decoder": f.path, "kind": kind, "ok_exits": nok})


def counter_per_element(f, cnt):
    """cnt has exactly: one constant-0 initialisation and increments by 1 that are located in the body of
    the loop that calls next_element (reachable from it and reaching it)."""
    nexts = [c for c in f.calls() if c.name in ("next_element", "next_element_seed")]
    if not nexts:
        return False
    defs = def_sites(f, cnt)
    incs, inits, other = [], [], []
    for b, kind, payload in defs:
        if kind != "assign":
            other.append(b)
            continue
        e = expr_of_operand(f, payload["rv"]["x"]) if payload["rv"]["k"] == "use" else None
        rv = payload["rv"]
        if rv["k"] == "use" and rv["x"].get("k") == "const" and rv["x"].get("v") == 0:
            inits.append(b)
        elif e is not None and e.k == "field" and e.a.k == "binop" and e.a.a.startswith("Add") and evaluate(e.a.c, {}) == 1 and e.a.b.k == "local" and e.a.b.a == cnt:
            incs.append(b)
        elif rv["k"] == "binop" and rv["op"].startswith("Add") and evaluate(expr_of_operand(f, rv["r"]), {}) == 1:
            incs.append(b)
        else:
            other.append(b)
    if other or len(inits) != 1 or not incs:
        return False
    nb = nexts[0].bb
    for b in incs:
        if not (b in f.reachable_from_after(nb) and nb in f.reachable_from_after(b)):
            return False
    # the increment happens on every iteration that yields an element: every path from the Some-edge of
    # next_element back to next_element passes an increment
    from ..expr import decisive_edges
    from ..engines import SOME, NONE
    return all_paths_pass(f, nb, incs)


def all_paths_pass(f, loop_head_bb, inc_blocks):
    """every cycle through loop_head_bb passes one of inc_blocks (exactly one increment per iteration
    is checked as: at most one increment block on any simple path is not attempted; we require >= 1)."""
    after = f.reachable_from_after(loop_head_bb, cut_blocks=inc_blocks)
    return loop_head_bb not in after


def sized(rep, prog):
    n = 0
    # From<&[u8]> for variable-length containers in protected::
    for imp in prog.impls:
        if imp.get("trait") == "std::convert::From" and "&[u8]" in (imp.get("trait_full") or "") and imp["self_ty"]["t"].startswith("protected::"):
            for it in imp["items"]:
                f = prog.by_key.get(it["key"])
                if f is None:
                    continue
                n += 1
                cps = [c for c in f.calls() if c.path in cm.COPY or c.rpath.endswith("copy_from_slice")]
                rs = [c for c in f.calls() if c.path.endswith("::resize") or c.name == "resize" or c.path.endswith("extend_from_slice")]
                ok = False
                why = "destination is never sized from the source before the copy"
                for c in cps:
                    for r in rs:
                        if r.name == "extend_from_slice":
                            ok = True
                            why = "extends from the source"
                            continue
                        t = term_of(f, call_arg_exprs(r)[1], cm.view_info)
                        same = cm.view_info(f, list(operand_locals(r.args[0]))[0])[0] == cm.view_info(f, list(operand_locals(c.args[0]))[0])[0]
                        if t == ("len", 1) and r.bb in f.dom.get(c.bb, ()) and same:
                            ok = True
                            why = "destination resized to len(src) at %s before the copy" % r.loc()
                if not cps:
                    ok = any(r.name == "extend_from_slice" for r in rs) or not cps
                    why = "no copy_from_slice"
                rep.ob("SIZED-COPY", f.path, ok, why, loc=f.loc())
    # element stores in hand-written sequence visitors
    for imp in prog.impls:
        tr = imp.get("trait") or ""
        if not tr.endswith("de::Visitor") or "bytes_serde" not in imp["self_ty"]["t"]:
            continue
        for it in imp["items"]:
            if it["name"] != "visit_seq":
                continue
            f = prog.by_key.get(it["key"])
            if f is None:
                continue
            f = inline(prog, f)      # a shared sequence-reading helper is analysed in each visitor
            ef = edge_facts(f, cm.view_info)
            # element stores: `container[idx] = x` through IndexMut, or directly into a slice / array
            # (MIR bounds check `assert(idx < len)` in front of the store)
            stores = []
            for c in f.calls():
                if c.path == "std::ops::IndexMut::index_mut" and len(c.args) == 2:
                    stores.append((c.bb, cm.view_info(f, list(operand_locals(c.args[0]))[0])[0],
                                   term_of(f, call_arg_exprs(c)[1], cm.view_info), call_arg_exprs(c)[1], c.loc()))
            for b_ in sorted(f.reachable(0)):
                t_ = f.blocks[b_]["t"]
                if t_["k"] == "assert" and str(t_.get("msg", "")).startswith("BoundsCheck") and not f.blocks[b_]["cleanup"]:
                    ce = expr_of_operand(f, t_["cond"])
                    if ce.k == "binop" and ce.a == "Lt":
                        tn = term_of(f, ce.c, cm.view_info)
                        arr_ = tn[1] if isinstance(tn, tuple) and tn[0] == "len" else None
                        stores.append((b_, arr_, term_of(f, ce.b, cm.view_info), ce.b, f.loc(b_)))
            for sbb, arr, idx, idx_e, sloc in stores:
                n += 1
                c = type("S", (), {"bb": sbb, "loc": staticmethod(lambda sloc=sloc: sloc)})
                # edges on which idx < len(arr) or idx < LENGTH
                safe_edges = []
                for edge, fs in ef.items():
                    for op, l, r in fs:
                        if op == "Lt" and l == idx and (r == ("len", arr) or r == ("constparam", "LENGTH")):
                            safe_edges.append(edge)
                        if op == "Gt" and r == idx and (l == ("len", arr) or l == ("constparam", "LENGTH")):
                            safe_edges.append(edge)
                grow = []
                for r in f.calls():
                    if r.name == "resize" and cm.view_info(f, list(operand_locals(r.args[0]))[0])[0] == arr:
                        t = deep_repr(call_arg_exprs(r)[1])
                        it_ = deep_repr(idx_e)
                        if ("%s AddWithOverflow const(1)" % it_) in t or ("(%s Add const(1))" % it_) in t:
                            grow.append(r.bb)
                reach = f.reachable(0, cut_blocks=grow, cut_edges=safe_edges)
                ok = c.bb not in reach and (bool(grow) or bool(safe_edges))
                rep.ob("SIZED-COPY", "%s|arr[idx] store" % f.path, ok,
                       "every path to the element store passes `idx < len`/`idx < LENGTH` (%d edge(s)) or a resize to at least idx+1 (%d call(s))" % (len(safe_edges), len(grow))
                       if ok else "an element store arr[idx] is reachable with idx >= len (no dominating bound, no growing resize)", loc=c.loc())
    # variable-length visitors that over-allocate (size hint, doubling) give back exactly the elements
    # read: every Ok exit lies behind a resize / truncate of the container to the element counter
    for imp in prog.impls:
        tr = imp.get("trait") or ""
        if not tr.endswith("de::Visitor") or "bytes_serde" not in imp["self_ty"]["t"]:
            continue
        for it in imp["items"]:
            if it["name"] != "visit_seq":
                continue
            f0 = prog.by_key.get(it["key"])
            if f0 is None:
                continue
            f = inline(prog, f0)
            rs = [c for c in f.calls() if c.name in ("resize", "truncate") and len(c.args) >= 2 and not f.blocks[c.bb]["cleanup"]]
            if not rs:
                continue
            exact, loose = [], []
            for c in rs:
                e = call_arg_exprs(c)[1]
                while e.k == "cast":
                    e = e.a
                if e.k == "local" and counter_per_element(f, e.a):
                    exact.append(c)
                else:
                    loose.append(c)
            if not loose:
                continue
            oks = [b for b, kind, e in result_kind_of_ret(f) if kind != "err" and b in f.reachable(0)]
            free = f.reachable(0, cut_blocks=[c.bb for c in exact])
            bad = [b for b in oks if b in free]
            rep.ob("SIZED-COPY", "%s|final length = elements read" % f0.path, bool(exact) and not bad,
                   ("every Ok exit lies behind a resize of the container to the element counter (%d over-allocating resize(s) before it)" % len(loose))
                   if exact and not bad else
                   "the container is grown beyond the elements read (%s) and an Ok exit is reachable without trimming it to the element counter" % [c.loc() for c in loose][:2],
                   loc=f.loc(bad[0]) if bad else f0.loc())
    rep.floor("slice constructors / element stores", n, 4)


def struct_ser(rep, prog):
    """STRUCT-SER: every struct serializer (an impl of serde's Serialize that opens `serialize_struct`) emits every
    field on every path: each `serialize_field` call dominates the closing `end`, there is no `skip_field`, and
    when the announced field count is a constant it equals the number of `serialize_field` calls.  The derived
    deserializers read the fields positionally from sequence formats (bincode), so a field that is left out
    for some values (`skip_serializing_if`) round-trips through JSON and not through a sequence format."""
    n = 0
    last = lambda c: (c.rpath or c.path).split("::")[-1]
    for f0 in sorted(prog.fns, key=lambda f: f.path):
        # derived impls live in anonymous consts ("impl .. Serialize for T"), hand-written ones are "<T as ..Serialize>"
        if f0.kind == "closure" or f0.name != "serialize" or "Deserialize" in f0.path or not (
                "Serialize for " in f0.path or "Serialize>::serialize" in f0.path):
            continue
        f = inline(prog, f0)      # a private helper that opens the struct serializer is folded in
        live = [c for c in f.calls() if not f.blocks[c.bb]["cleanup"]]
        opens = [c for c in live if last(c) == "serialize_struct"]
        if not opens:
            continue
        n += 1
        fields = [c for c in live if last(c) == "serialize_field"]
        skips = [c for c in live if last(c) == "skip_field"]
        ends = [c for c in live if last(c) == "end"]
        nm = (f0.path.split("Serialize for ")[-1].split(">::serialize")[0] if "Serialize for " in f0.path
              else f0.path.lstrip("<").split(" as ")[0])[:60]
        ok = bool(ends) and not skips and all(all(c.bb in f.dom.get(e.bb, ()) for e in ends) for c in fields)
        rep.ob("STRUCT-SER", "%s|every field on every path" % nm, ok,
               "%d serialize_field call(s), %d skip_field, %d end; every serialize_field dominates end: %s" % (
                   len(fields), len(skips), len(ends), ok), loc=f.loc())
        try:
            cnt = evaluate(call_arg_exprs(opens[0])[2], {})
        except Exception:
            cnt = None
        if isinstance(cnt, int) and not isinstance(cnt, bool):
            rep.ob("STRUCT-SER", "%s|announced field count" % nm, cnt == len(fields),
                   "serialize_struct announces %d field(s), %d serialize_field call(s)" % (cnt, len(fields)), loc=opens[0].loc())
    rep.floor("struct serializers", n, 9)


def parts(rep, prog):
    n = 0
    for f in prog.fns:
        if f.kind == "closure" or f.name not in ("from_parts", "into_parts") or f.vis != "pub":
            continue      # the public positional constructors / destructors
        n += 1
        calls = [c for c in f.calls() if not f.blocks[c.bb]["cleanup"]]
        arith = [s for b, i, s in f.assigns() if s["rv"]["k"] in ("binop", "unop", "cast")]
        rep.ob("PARTS", f.path, not calls and not arith, "pure field move (%d calls, %d computations)" % (len(calls), len(arith)), loc=f.loc())
    rep.floor("from_parts/into_parts", n, 6)
