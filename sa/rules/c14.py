"""C14 — protected memory: what is in the shape of the code.

LEN-ARG   every libc mprotect/mlock/munlock/madvise call passes (as_ptr(S), len(S)) of one slice S,
          the length unmodified (no subtraction, no division).
MODE      each wrapper's PROT/MADV constant matches the transition that reaches it, the runtime mode
          recorded in the state, and the marker type returned; the state is updated only on the
          wrapper's Ok edge.
DROP      Protected's wipe is preceded by an unprotect (unless recorded ReadWrite) and followed by an
          unlock (if recorded Locked), in that order.
GUARD     allocate() protects [base, page) and [base+page+round(size), page) no-access, returns
          base+page; deallocate() mirrors the same offsets.
"""
from ..core import operand_locals, def_sites
from ..expr import (E, expr_of_operand, call_arg_exprs, evaluate, decisive_edges, atoms_of)
from ..engines import OK, ERR
from . import common as cm
from ..inline import inline

LIBC = {"libc::mprotect": 3, "libc::mlock": 2, "libc::munlock": 2, "libc::madvise": 3}
PROT = {0: "NoAccess", 1: "ReadOnly", 3: "ReadWrite"}
MADV = {16: "DONTDUMP", 17: "DODUMP"}

MULTI_CONFIG = True

EXPLANATION = (
    "PROV/SIB/MUSTCALL over MIR expressions. For each libc memory call the address and length "
    "arguments are rebuilt as expression trees and must be as_ptr(S)/len(S) of the same slice S. Each "
    "wrapper is classified by the libc call and the evaluated flag constant it contains (not by name); "
    "each public transition (method returning Result<Protected<A,PM,LM>, io::Error>, with its closures) "
    "is checked for agreement between the wrapper it calls, the mode it stores in the runtime state, the "
    "marker types of the value it constructs, and for the store being dominated by the wrapper's Ok edge. "
    "Drop order and guard-page offsets are checked as reachability/ordering facts between call sites. "
    "LOCK-UNDO: every Err return of the lock wrapper after its mlock call lies behind a munlock of the region, no Ok "
    "return does. WIPE-LEN: the Zeroize impls of the storage containers do not change the storage's length. MODE must-call: no Ok return of a transition is reachable without the wrapper's Ok edge or an edge on which the "
    "recorded mode already is the target mode. EMPTY-GUARD: the wrappers agree on having an Ok return that asks the "
    "OS nothing (the empty-region shortcut). CLONE-COPY/CLONE-LEN: the value returned by every Clone impl of a protected region depends on the contents "
    "of self (a dependency through its length alone does not count), and a fresh region is resized to self.len() "
    "before copy_from_slice.")
NOT_DECIDED = (
    "the kernel's actual page rights, VmLck accounting, faults on access and preservation of contents across "
    "transitions (runtime observations); the Windows branch (not compiled here).")


def run(ctx, rep):
    rep.explanation = EXPLANATION
    rep.not_decided = NOT_DECIDED
    rep.trust("libc constant values as evaluated by rustc for this target (PROT_*, MADV_*)")
    rep.trust("Linux mlock(2) marks the range VM_LOCKED before faulting the pages in: a refused mlock (ENOMEM on a PROT_NONE mapping) "
              "can leave the range locked, munlock(2) clears it (observed with a probe, DESIGN 8.17)")
    rep.assume("cfg(unix, target_os=linux)")
    for cfg in (["full"] if ctx.tier == "quick" else ["full", "nightly", "simd"]):
        check(ctx, rep, cfg)


def same_slice(f, e_ptr, e_len):
    """(ok, why): e_ptr == as_ptr(S) [cast], e_len == len(S) for the same S."""
    if e_ptr.k == "cast":
        e_ptr = e_ptr.a
    if e_ptr.k != "call" or not e_ptr.a.path.endswith("::as_ptr") and not e_ptr.a.path.endswith("::as_mut_ptr"):
        return False, "address argument is not slice.as_ptr()"
    if e_len.k != "call" or e_len.a.path not in ("core::slice::<impl [T]>::len", "std::vec::Vec::<T, A>::len"):
        if e_len.k == "binop":
            return False, "length argument is computed (%s) rather than the slice length" % e_len.a
        return False, "length argument is not slice.len()"
    ls = list(operand_locals(e_ptr.a.args[0]))
    ll = list(operand_locals(e_len.a.args[0]))
    if not ls or not ll:
        return False, "constant operands"
    r1 = cm.view_info(f, ls[0])
    r2 = cm.view_info(f, ll[0])
    if r1[0] != r2[0]:
        return False, "address and length come from different slices"
    if r1[1] or r2[1]:
        return False, "a narrowed sub-slice is protected instead of the whole region"
    return True, "as_ptr(%s), len(%s)" % (f.local_name(r1[0]), f.local_name(r2[0]))


def _libc_kinds(f):
    kinds = []
    for c in f.calls():
        if c.path in LIBC:
            ex = call_arg_exprs(c)
            flag = evaluate(ex[2], {}) if len(ex) > 2 else None
            kinds.append((c, c.path.split("::")[-1], flag))
    return kinds


def _flags_const(kinds):
    return all(isinstance(flag, int) for c, name, flag in kinds if LIBC[c.path] == 3)


def _wrapper_shape(f):
    """`fn(&[u8]) -> Result<(), io::Error>`: the signature of an OS-call wrapper on a region"""
    if f.kind == "closure" or f.argc != 1:
        return False
    a, r = f.locals[1]["t"], f.locals[0]["t"]
    return a.replace("'_ ", "") in ("&[u8]", "&mut [u8]") and r.startswith("std::result::Result<(), std::io::Error")


def wrappers(prog):
    """crate functions of wrapper shape (`fn(&[u8]) -> io::Result<()>`) whose body - private helpers
    folded in - issues libc memory calls with *constant* flags -> classification.  Layers are
    transparent: with `dryoc_mprotect_readonly -> dryoc_mprotect(data, access) -> sys::protect(..) ->
    libc::mprotect(.., access.flags())` the wrapper is the outermost function of that shape (the one the
    transitions, the allocator and Drop call); a function that calls libc with a flag it receives as a
    parameter is a generic helper, not a wrapper.  Functions that call libc directly but are not of
    wrapper shape (none on the pinned tree) are kept as wrappers too, so their calls are still checked."""
    if getattr(prog, "_c14_ws", None) is not None:
        return prog._c14_ws
    direct = [f for f in prog.fns if _libc_kinds(f)]
    reach = cm.can_reach(prog, direct)
    cand, views, generic = {}, {}, set()
    for k in reach:
        f = prog.by_key[k]
        if f.kind == "closure":
            continue
        own = _libc_kinds(f)
        if not (_wrapper_shape(f) or own):
            continue
        v = inline(prog, f, pick=lambda call, t: t.kind != "closure" and t.vis != "pub" and t.path.startswith("protected::") and not _is_transition(t))
        kinds = _libc_kinds(v)
        if kinds and _flags_const(kinds):
            cand[k] = kinds
            views[k] = v
        elif kinds:
            generic.add(k)
    # inner layers: every caller is itself a wrapper candidate (or a generic helper folded into one)
    out = {}
    for k, kinds in cand.items():
        callers = [g for g in prog.callers(prog.by_key[k]) if g.kind != "closure" or True]
        inner = bool(callers) and all(g.key in cand or g.key in generic for g in callers)
        if not inner:
            out[k] = kinds
    prog._c14_views = views
    prog._c14_generic = generic
    prog._c14_ws = out
    return out


def _is_transition(t):
    return "Protected<" in t.locals[0]["t"]


def rec_of(prog):
    if getattr(prog, "_c14_rec_cache", None) is None:
        prog._c14_rec_cache = record_info(prog)
        if prog._c14_rec_cache is None:
            from ..core import AnchorError
            raise AnchorError("runtime record of protected regions (struct with lock-mode and protect-mode fields)")
    return prog._c14_rec_cache


def record_info(prog):
    """The runtime record of a protected region, found by shape (not by name): the ADT with one field
    whose type is an enum with variants {Locked, Unlocked} and one whose type is an enum with variants
    {ReadOnly, ReadWrite, NoAccess} (the variant names mirror the public marker types)."""
    enums = {}
    for a in prog.adts.values():
        names = [v["name"] for v in a["variants"]]
        if set(names) == {"Locked", "Unlocked"}:
            enums[a["path"]] = ("lock", names)
        elif set(names) == {"ReadOnly", "ReadWrite", "NoAccess"}:
            enums[a["path"]] = ("protect", names)
    for a in prog.adts.values():
        if len(a["variants"]) != 1:
            continue
        got = {}
        for fd in a["variants"][0]["fields"]:
            t = fd["ty"].get("path") or fd["ty"]["t"]
            if t in enums:
                got[enums[t][0]] = (fd["name"], enums[t][1])
        if set(got) == {"lock", "protect"}:
            return {"record": a["path"], "short": a["path"].split("::")[-1], "lock_field": got["lock"][0], "protect_field": got["protect"][0],
                    "lock_variants": got["lock"][1], "protect_variants": got["protect"][1]}
    return None


def classify(kinds):
    names = [k[1] for k in kinds]
    if "mprotect" in names:
        flags = {k[2] for k in kinds if k[1] == "mprotect"}
        if len(flags) == 1:
            return ("protect", PROT.get(list(flags)[0], "?%s" % flags))
        return ("protect", "mixed%s" % sorted(map(str, flags)))
    if "mlock" in names:
        return ("lock", "Locked")
    if "munlock" in names:
        return ("lock", "Unlocked")
    return ("other", "?")


def check(ctx, rep, cfg):
    prog = ctx.prog(cfg)
    tag = "" if cfg == "full" else "[%s]" % cfg
    ws = wrappers(prog)
    n_sites = 0
    rec = record_info(prog)
    if rec is None:
        rep.violation("ANCHOR", "runtime record" + tag, "no struct with a {Locked,Unlocked} field and a {ReadOnly,ReadWrite,NoAccess} field found")
        return
    for k, kinds in sorted(ws.items()):
        f = prog._c14_views[k]
        for c, name, flag in kinds:
            n_sites += 1
            ex = call_arg_exprs(c)
            ok, why = same_slice(f, ex[0], ex[1])
            rep.ob("LEN-ARG", "%s|%s%s" % (f.path, name, tag), ok,
                   "%s(%s)" % (name, why) if ok else "%s: %s — the call must cover exactly the region it is given" % (name, why),
                   loc=c.loc())
            if name == "madvise":
                want = 16 if classify(kinds)[1] == "Locked" else 17 if classify(kinds)[1] == "Unlocked" else None
                rep.ob("MODE", "%s|madvise flag%s" % (f.path, tag), want is not None and flag == want,
                       "madvise advice %s (%s) in the %s wrapper" % (flag, MADV.get(flag, "?"), classify(kinds)[1]), loc=c.loc())
            rep.sample({"wrapper": f.path, "call": name, "flag": flag, "args": why})
    rep.floor("libc memory call sites" + tag, n_sites, 7)
    kinds_seen = {classify(v) for v in ws.values()}
    for need in [("protect", "ReadOnly"), ("protect", "ReadWrite"), ("protect", "NoAccess"), ("lock", "Locked"), ("lock", "Unlocked")]:
        rep.ob("MODE", "wrapper exists: %s %s%s" % (need[0], need[1], tag), need in kinds_seen,
               "wrappers found: %s" % sorted(kinds_seen))
    # EMPTY-GUARD (sibling agreement): an empty region has no pages of its own (a never-allocated container hands
    # out a dangling, unaligned pointer), so the wrappers return Ok for it without asking the OS.  Whatever the
    # wrappers do about it they do alike: a wrapper that has lost the shortcut its siblings have makes one
    # transition fail (EINVAL) where all the others succeed.
    short = {}
    for k, kinds in sorted(ws.items()):
        f = prog._c14_views[k]
        if not _wrapper_shape(prog.by_key[k]):
            continue
        from ..expr import result_kind_of_ret
        libc_blocks = [c.bb for c, name, flag in kinds]
        free_ = f.reachable(0, cut_blocks=libc_blocks)
        short[k] = any(b_ in free_ for b_, k_, e_ in result_kind_of_ret(f) if k_ != "err")
    if short:
        maj = sum(1 for v in short.values() if v) * 2 >= len(short)
        for k, v in sorted(short.items()):
            f = prog._c14_views[k]
            rep.ob("EMPTY-GUARD", f.path + tag, v == maj,
                   "%s an Ok return that asks the OS nothing (the empty-region shortcut), like %d of its %d siblings" % (
                       "has" if v else "has NOT", sum(1 for x in short.values() if x == v) - 1, len(short) - 1) if v == maj else
                   "%s the Ok-without-OS-call shortcut for the empty region that %d of the %d wrappers %s" % (
                       "lacks" if maj else "has", sum(1 for x in short.values() if x == maj), len(short), "have" if maj else "lack"), loc=f.loc())
    # LOCK-UNDO (pairing on the failure exit): `mlock()` marks the range as locked *before* it faults the pages in; when
    # that fails (ENOMEM on a PROT_NONE mapping, or part of the way through a range) the mark stays.  The handle
    # that asked is still typed `Unlocked`, so nothing will ever unlock those pages: the lock wrapper itself has to
    # undo a refused lock - every Err return after the `mlock` call lies behind a `munlock` of the same region, and
    # no Ok return does.
    for k, kinds in sorted(ws.items()):
        if classify(kinds) != ("lock", "Locked"):
            continue
        f = prog._c14_views[k]
        from ..expr import result_kind_of_ret
        locks = [c for c, name, flag in kinds if name == "mlock"]
        unlocks = [c.bb for c, name, flag in kinds if name == "munlock"]
        for c in locks:
            after = f.reachable_from_after(c.bb)
            free_ = f.reachable_from_after(c.bb, cut_blocks=unlocks)
            errs = [b_ for b_, k_, e_ in result_kind_of_ret(f) if k_ == "err" and b_ in after]
            oks = [b_ for b_, k_, e_ in result_kind_of_ret(f) if k_ == "ok" and b_ in after]
            bad = [b_ for b_ in errs if b_ in free_]
            rep.ob("LOCK-UNDO", "%s|refused lock undone%s" % (f.path, tag), bool(errs) and not bad,
                   "every Err return after mlock lies behind a munlock of the region (%d site(s))" % len(unlocks) if errs and not bad else
                   "the Err return at %s is reachable after the mlock call without a munlock: a refused lock can leave the "
                   "range marked locked (VM_LOCKED is set before the pages are faulted in) and no handle will unlock it" % (f.loc(bad[0]) if bad else "?"),
                   loc=f.loc(bad[0]) if bad else c.loc())
            rep.ob("LOCK-UNDO", "%s|granted lock kept%s" % (f.path, tag), bool(oks) and all(b_ in free_ for b_ in oks),
                   "no Ok return after mlock passes a munlock", loc=c.loc())
    transitions(rep, prog, ws, tag)
    drop_order(rep, prog, ws, tag)
    guard_pages(rep, prog, ws, tag)
    lock_extent(rep, prog, tag)
    drop_discipline(rep, prog, tag)
    record_discipline(rep, prog, tag)
    clone_contents(rep, prog, tag)


def clone_contents(rep, prog, tag):
    """CLONE-COPY ("the contents are unchanged by ... clone"): the value returned by every `Clone` impl of a
    protected region depends on the *contents* of `self`, not only on its length (a clone that allocates
    `self.len()` zero bytes and forgets the copy has the right type state and the wrong bytes)."""
    from ..inline import inline
    n = 0
    for imp in prog.impls:
        if (imp.get("trait") or "") != "std::clone::Clone" or not imp["self_ty"]["t"].startswith("protected::Protected<"):
            continue
        for it in imp["items"]:
            f0 = prog.by_key.get(it["key"])
            if it["name"] != "clone" or f0 is None or not f0.blocks:
                continue
            f = inline(prog, f0)
            n += 1
            sl = cm.content_slice(f, [0])
            rep.ob("CLONE-COPY", imp["self_ty"]["t"].replace("protected::traits::", "").replace("protected::", "") + tag, 1 in sl,
                   "the clone %s the contents of `self`" % ("depends on" if 1 in sl else "does NOT depend on"), loc=f0.loc())
            # CLONE-LEN: a clone assembled by copying into a fresh region gives that region the length of `self`
            # first (`copy_from_slice` needs equal lengths; a fresh region is empty for the variable-length kind)
            from ..guards import term_of
            for c in f.calls():
                if f.blocks[c.bb]["cleanup"] or not (c.path in cm.COPY or c.rpath in cm.COPY) or len(c.args) != 2:
                    continue
                ld, ls = list(operand_locals(c.args[0])), list(operand_locals(c.args[1]))
                if not ld or not ls or cm.view_info(f, ls[0]) != (1, False):
                    continue
                droot, dnar = cm.view_info(f, ld[0])
                if dnar or droot is None or 1 <= droot <= f.argc:
                    continue
                sized = [r for r in f.calls() if r.name == "resize" and len(r.args) >= 2 and operand_locals(r.args[0]) and
                         cm.view_info(f, list(operand_locals(r.args[0]))[0])[0] == droot and
                         term_of(f, call_arg_exprs(r)[1], cm.view_info) == ("len", 1) and r.bb in f.dom.get(c.bb, ())]
                rep.ob("CLONE-LEN", imp["self_ty"]["t"].replace("protected::traits::", "").replace("protected::", "") + tag, bool(sized),
                       "the fresh region is resized to `self.len()` at %s before the copy" % sized[0].loc() if sized else
                       "the fresh region is not given the length of `self` before `copy_from_slice` (which needs equal lengths)", loc=c.loc())
    rep.floor("Clone impls of protected regions" + tag, n, 4)


def transitions(rep, prog, ws, tag):
    n = 0
    for f in prog.fns:
        if f.kind == "closure" or not f.path.startswith(("protected::", "<protected::")):
            continue
        rt = f.locals[0]
        if rt.get("path") != "std::result::Result" or not rt.get("args"):
            continue
        okty = rt["args"][0]["t"]
        if not okty.startswith("protected::Protected<") or "std::io::Error" not in rt["t"]:
            continue
        # the transition with its private helpers and closures folded in (wrappers stay calls; a wrapper
        # handed over as a function pointer / item is called directly in the view)
        fv = inline(prog, f, keep=(lambda g_: g_.key in ws,))
        unit = [fv] + [u for u in prog.unit(f) if u.key != f.key and u.path not in set(getattr(fv, "inlined", []))]
        direct = []
        for g in unit:
            for c in g.calls():
                for t in prog.callee_fns(c):
                    if t.key in ws:
                        direct.append((g, c, t))
        if not direct:
            continue
        # marker types of the declared result
        parts = prog_parse(okty)
        if parts is None:
            continue
        _, pm_marker, lm_marker = parts
        for g, c, t in direct:
            n += 1
            kind, mode = classify(ws[t.key])
            inst = "%s|%s%s" % (f.path, t.path.split("::")[-1], tag)
            if kind == "protect":
                decl = pm_marker.split("::")[-1]
                rep.ob("MODE", inst + "|result-type", decl == mode,
                       "transition returns Protected<_, %s, _> and calls the wrapper whose mprotect flag means %s" % (decl, mode), loc=c.loc())
                field = rec_of(prog)["protect_field"]
            else:
                decl = lm_marker.split("::")[-1]
                rep.ob("MODE", inst + "|result-type", decl == mode,
                       "transition returns Protected<_, _, %s> and calls the %s wrapper" % (decl, "mlock" if mode == "Locked" else "munlock"), loc=c.loc())
                field = rec_of(prog)["lock_field"]
            # recorded runtime mode
            stores = []
            for bb, i, s in g.assigns():
                pl = s["place"]
                if any(isinstance(pe, dict) and pe.get("n") == field for pe in pl["p"]):
                    rv = s["rv"]
                    if rv["k"] == "agg" and rv.get("agg") == "adt":
                        stores.append((bb, rv["variant"], s))
                    elif rv["k"] == "use":
                        e = expr_of_operand(g, rv["x"])
                        # a clone of the mode value is the mode value
                        dd = 0
                        while e.k == "call" and e.a.name == "clone" and "Clone" in e.a.path and len(e.a.args) == 1 and dd < 4:
                            e = call_arg_exprs(e.a)[0]
                            dd += 1
                        if e.k == "agg" and e.b:
                            stores.append((bb, e.b, s))
                        elif e.k == "const" and e.c:
                            stores.append((bb, str(e.c).split("::")[-1], s))
                        else:
                            stores.append((bb, "<computed>", s))
                    else:
                        stores.append((bb, "<computed>", s))
            rep.ob("MODE", inst + "|recorded", len(stores) >= 1 and all(v == mode for _, v, _ in stores),
                   "runtime state field `%s` is set to %s; wrapper means %s" % (field, [v for _, v, _ in stores], mode), loc=c.loc())
            # store only on the wrapper's Ok edge
            good, bad = decisive_edges(g, c, OK, ERR)
            # ... or behind an edge on which the recorded mode already is the wrapper's mode (skipping the
            # OS call when nothing would change leaves pages and record in agreement)
            rec_ = rec_of(prog)
            variants_ = rec_["protect_variants"] if kind == "protect" else rec_["lock_variants"]
            already = mode_edges(g, field, variants_, mode, True) if mode in variants_ else []
            for bb, v, s in stores:
                dominated = any(g.edge_dominates(e, bb) for e in good) or \
                    (bool(good) and bb not in g.reachable(0, cut_edges=list(good) + list(already)))
                rep.ob("MODE", inst + "|on-ok-only", dominated,
                       "the state update %s the Ok edge of the wrapper call%s" % ("is dominated by" if dominated else "is NOT dominated by",
                                                                                  "" if dominated else " (nor by an edge on which the recorded mode already is %s)" % mode),
                       loc=g.loc(bb))
            # must-call: no Ok-capable return of the function holding the wrapper call is reachable without passing
            # the wrapper's Ok edge - or an edge on which the recorded mode already is the wrapper's mode
            if g.locals[0].get("path") == "std::result::Result" and good:
                from ..expr import result_kind_of_ret
                free_ = g.reachable(0, cut_edges=list(good) + list(already))
                bad_ = [b_ for b_, k_, e_ in result_kind_of_ret(g) if k_ != "err" and b_ in free_]
                rep.ob("MODE", inst + "|must-call", not bad_,
                       "every Ok return lies behind the Ok edge of the wrapper call%s" % (" or an edge on which the recorded mode already is %s" % mode if already else "") if not bad_ else
                       "an Ok return at %s is reachable without the wrapper call having succeeded and without the recorded mode being known to be %s: "
                       "the type says %s, the pages may not be" % (g.loc(bad_[0]), mode, mode), loc=g.loc(bad_[0]) if bad_ else c.loc())
            # constructed value's marker = declared (Protected::<A, PM, LM>::new())
            for cc in g.calls():
                if cc.name == "new" and "Protected::<" in cc.full:
                    pp = prog_parse(cc.full.replace("::<", "<", 1).rsplit("::new", 1)[0])
                    if pp:
                        got = (pp[1] if kind == "protect" else pp[2]).split("::")[-1]
                        rep.ob("MODE", inst + "|constructed", got == mode,
                               "constructs %s; wrapper means %s" % (cc.full[:90], mode), loc=cc.loc())
    rep.floor("transition/wrapper pairs" + tag, n, 5)


def prog_parse(t):
    from ..core import parse_ty, ty_text
    p = parse_ty(t)
    if not p[0].endswith("Protected") or len(p[1]) != 3:
        return None
    return ty_text(p[1][0]), ty_text(p[1][1]), ty_text(p[1][2])


def mode_edges(g, field, variants, variant, when_equal):
    """Edges of g taken exactly when the record's `field` == `variant` (when_equal) or != `variant`:
    through PartialEq::eq/ne against the variant literal, or through a switch on the field's
    discriminant (match / if let)."""
    out = []
    idx = variants.index(variant)
    for b in range(g.n):
        t = g.blocks[b]["t"]
        if t["k"] != "switch":
            continue
        e = expr_of_operand(g, t["x"])
        arms = {v: tb for v, tb in t["arms"]}
        if e.k == "call" and e.a.path in ("std::cmp::PartialEq::ne", "std::cmp::PartialEq::eq"):
            ax = call_arg_exprs(e.a)
            if any(a.k == "field" and a.b.split(".")[-1] == field for a in ax) and any(a.k == "agg" and a.b == variant for a in ax):
                is_ne = e.a.path.endswith("::ne")
                eq_t = arms.get(0, t["otherwise"]) if is_ne else t["otherwise"]
                ne_t = t["otherwise"] if is_ne else arms.get(0, t["otherwise"])
                if eq_t != ne_t:
                    out.append((b, eq_t if when_equal else ne_t))
        elif e.k == "discr" and e.a.k == "field" and e.a.b.split(".")[-1] == field:
            targets = {}
            for i in range(len(variants)):
                targets[i] = arms.get(i, t["otherwise"])
            eq_t = targets[idx]
            others = {tb for i, tb in targets.items() if i != idx}
            if when_equal:
                if eq_t not in others:
                    out.append((b, eq_t))
            else:
                for tb in others:
                    if tb != eq_t:
                        out.append((b, tb))
    return out


LENGTH_CHANGING = ("clear", "truncate", "set_len", "resize", "drain", "pop", "split_off", "shrink_to")


def wipe_keeps_length(rep, prog, tag):
    """WIPE-LEN: Drop wipes the region first and unlocks / un-protects it afterwards - over `as_slice()` of the
    storage, i.e. over its *current length*.  The wipe therefore must not change that length: the hand-written or
    derived `Zeroize` impl of every storage container in `protected::` contains no length-changing call on its
    storage (`clear`, `truncate`, ... - `Vec`'s own `Zeroize` clears, which is why it is not used here), otherwise the
    unlock that follows covers an empty slice and the pages stay locked after the last handle is gone."""
    n = 0
    for imp in prog.impls:
        if (imp.get("trait") or "") != "zeroize::Zeroize" or not imp["self_ty"]["t"].startswith("protected::Heap"):
            continue
        for it in imp["items"]:
            f0 = prog.by_key.get(it["key"])
            if it["name"] != "zeroize" or f0 is None or not f0.blocks:
                continue
            f = inline(prog, f0)
            n += 1
            bad = []
            for c in f.calls():
                if f.blocks[c.bb]["cleanup"] or not c.args or c.args[0].get("k") not in ("copy", "move"):
                    continue
                a0 = c.args[0]["l"]
                if cm.view_info(f, a0)[0] != 1:
                    continue
                aty = f.locals[a0]["t"]
                if c.name in LENGTH_CHANGING and "Vec<" in aty:
                    bad.append("%s at %s" % (c.name, c.loc()))
                if c.name == "zeroize" and aty.replace("'_ ", "").startswith("&mut std::vec::Vec<"):
                    bad.append("Vec's own Zeroize (which clears the vector) at %s" % c.loc())
            rep.ob("WIPE-LEN", imp["self_ty"]["t"].replace("protected::", "") + tag, not bad,
                   "the wipe leaves the length alone" if not bad else "the wipe changes the length of the storage: %s" % "; ".join(bad), loc=f0.loc())
    rep.floor("Zeroize impls of the storage containers" + tag, n, 2)


def drop_order(rep, prog, ws, tag):
    wipe_keeps_length(rep, prog, tag)
    drops = [i for i in prog.impls if i.get("trait") == "std::ops::Drop" and i["self_ty"]["t"].startswith("protected::Protected<")]
    rep.ob("DROP", "Drop impl for Protected" + tag, len(drops) == 1, "%d Drop impl(s) for Protected" % len(drops))
    if len(drops) != 1:
        return
    dfn = prog.by_key.get(drops[0]["items"][0]["key"])
    # the drop path as one view: Drop::drop with everything it reaches inside the module folded in
    # (Zeroize::zeroize of the container, helpers such as `with_write_access(|a| a.zeroize())` /
    # `release_lock()`, closures); the OS wrappers stay calls
    gv = inline(prog, dfn, pick=lambda call, t: t.kind != "closure" and t.key not in ws and t.path.lstrip("<").startswith("protected::")
                and (t.vis == "restricted" or t.path.endswith("as zeroize::Zeroize>::zeroize")))
    cands = []
    cs = [(c, t) for c in gv.calls() for t in prog.callee_fns(c) if t.key in ws]
    if cs:
        cands.append((gv, cs))
    if not cands:
        rep.violation("DROP", "drop path" + tag, "Drop for Protected reaches no unprotect/unlock wrapper", loc=dfn.loc())
        return
    for g, cs in cands:
        rw = [c for c, t in cs if classify(ws[t.key]) == ("protect", "ReadWrite")]
        ul = [c for c, t in cs if classify(ws[t.key]) == ("lock", "Unlocked")]
        wipes = [c for c in g.calls() if c.path == "zeroize::Zeroize::zeroize"]
        inst = g.path + tag
        rep.ob("DROP", inst + "|calls", bool(rw) and bool(ul) and bool(wipes),
               "drop path calls unprotect=%d wipe=%d unlock=%d" % (len(rw), len(wipes), len(ul)), loc=g.loc())
        if not (rw and ul and wipes):
            continue
        z = wipes[0]
        # order: rw before wipe before unlock; never the other way round
        o1 = z.bb in g.reachable_from_after(rw[0].bb) and rw[0].bb not in g.reachable_from_after(z.bb)
        o2 = ul[0].bb in g.reachable_from_after(z.bb) and z.bb not in g.reachable_from_after(ul[0].bb)
        rep.ob("DROP", inst + "|order", o1 and o2,
               "unprotect(rw) %s wipe %s munlock" % ("→" if o1 else "✗", "→" if o2 else "✗"), loc=z.loc())
        # bypassing the unprotect is only possible on the `recorded protect mode == ReadWrite` edge
        rec = rec_of(prog)
        bypass_edges = mode_edges(g, rec["protect_field"], rec["protect_variants"], "ReadWrite", True)
        reach = g.reachable(0, cut_blocks=[c.bb for c in rw], cut_edges=bypass_edges)
        rep.ob("DROP", inst + "|unprotect-before-wipe", z.bb not in reach,
               "every path to the wipe passes the read-write unprotect or the `recorded mode == ReadWrite` edge", loc=z.loc())
        # munlock may only be skipped when the recorded lock mode is not Locked
        skip_edges = mode_edges(g, rec["lock_field"], rec["lock_variants"], "Locked", False)
        rets = [b for b in range(g.n) if g.blocks[b]["t"]["k"] == "return"]
        after = g.reachable_from_after(z.bb, cut_blocks=[c.bb for c in ul], cut_edges=skip_edges)
        rep.ob("DROP", inst + "|unlock-after-wipe", not any(r in after for r in rets),
               "after the wipe every path to return passes munlock or the `recorded lock mode != Locked` edge", loc=z.loc())


def guard_pages(rep, prog, ws, tag):
    alloc_impls = [i for i in prog.impls if i.get("trait") in ("std::alloc::Allocator", "core::alloc::Allocator")]
    if len(alloc_impls) != 1:
        rep.violation("GUARD", "allocator" + tag, "expected one Allocator impl, found %d" % len(alloc_impls))
        return
    items = {i["name"]: prog.by_key.get(i["key"]) for i in alloc_impls[0]["items"]}
    al, de = items.get("allocate"), items.get("deallocate")
    if not al or not de:
        rep.violation("GUARD", "allocator bodies" + tag, "allocate/deallocate bodies missing")
        return

    # every private helper of the allocator (per-guard-page functions, page rounding, offset helpers,
    # system alloc/free shims) is folded in; only the wrappers stay calls.  Addresses and lengths are then
    # compared as *linear forms* over P = page size, S = layout.size(), and opaque remainders, relative
    # to a base pointer symbol - not as text.
    al = inline(prog, al, keep=(lambda g: g.key in ws,))
    de = inline(prog, de, keep=(lambda g: g.key in ws,))
    from .. import lenck as L

    def int_form(e, depth=0):
        if e is None or depth > 25:
            return None
        v = evaluate(e, {})
        if isinstance(v, int) and not isinstance(v, bool):
            return L.lin_const(v)
        if e.k == "cast":
            return int_form(e.a, depth + 1)
        if e.k == "field" and e.b == "0" and e.a.k == "binop":
            return int_form(E("binop", e.a.a.replace("WithOverflow", ""), e.a.b, e.a.c), depth + 1)
        if e.k == "call":
            p_ = e.a.path
            if p_ in ("std::alloc::Layout::size", "core::alloc::Layout::size"):
                return L.lin_var("S")
            if (p_.endswith("::deref") and "PAGESIZE" in e.a.full) or p_ == "std::ops::Deref::deref":
                return L.lin_var("P")
            return L.lin_var(("expr", cm_repr(e)))
        if e.k == "binop":
            op = e.a.replace("WithOverflow", "").replace("Unchecked", "")
            l_, r_ = int_form(e.b, depth + 1), int_form(e.c, depth + 1)
            if l_ is None or r_ is None:
                return None
            if op == "Add":
                return L.lin_add(l_, r_)
            if op == "Sub":
                return L.lin_add(l_, r_, -1)
            if op == "Mul" and L.lin_is_const(l_):
                return L.lin_scale(r_, l_[1])
            if op == "Mul" and L.lin_is_const(r_):
                return L.lin_scale(l_, r_[1])
            if op == "Rem":
                return L.lin_var(("rem", L.lin_repr(l_), L.lin_repr(r_)))
            return L.lin_var(("expr", cm_repr(e)))
        if e.k == "unop" and e.a == "Neg":
            x = int_form(e.b, depth + 1)
            return L.lin_scale(x, -1) if x is not None else None
        return L.lin_var(("expr", cm_repr(e)))

    def ptr_form(e, depth=0):
        """(base symbol, byte offset as a linear form)"""
        if e is None or depth > 25:
            return None
        if e.k == "cast":
            return ptr_form(e.a, depth + 1)
        if e.k == "call":
            p_ = e.a.path
            ax = call_arg_exprs(e.a)
            if p_.endswith("ptr::<impl *mut T>::add") or p_.endswith("ptr::<impl *const T>::add") or p_.endswith("::offset") or p_.endswith("ptr::<impl *mut T>::sub") or p_.endswith("ptr::<impl *const T>::sub"):
                b0 = ptr_form(ax[0], depth + 1)
                n = int_form(ax[1], depth + 1)
                if b0 is None or n is None:
                    return None
                return (b0[0], L.lin_add(b0[1], n, -1 if p_.endswith("::sub") else 1))
        return (cm_repr(e), L.lin_const(0))

    def regions(g, want_kind):
        out = []
        for c in g.calls():
            for t in prog.callee_fns(c):
                if t.key in ws and classify(ws[t.key]) == want_kind:
                    ex = call_arg_exprs(c)[0]
                    # slice built by from_raw_parts_mut(ptr_expr, len_expr)
                    if ex.k == "call" and ex.a.path.endswith("from_raw_parts_mut"):
                        pe, le = call_arg_exprs(ex.a)
                        out.append((c, ptr_form(pe), int_form(le)))
                    else:
                        out.append((c, None, None))
        return out

    def show(r):
        c, pf, lf = r
        return "(%s + %s, %s)" % (pf[0][:30] if pf else "?", L.lin_repr(pf[1]) if pf else "?", L.lin_repr(lf) if lf is not None else "?")
    P, S = L.lin_var("P"), L.lin_var("S")
    same = lambda a_, b_: a_ is not None and b_ is not None and not L.lin_vars(L.lin_add(a_, b_, -1)) and L.lin_add(a_, b_, -1).get(1, 0) == 0
    na = regions(al, ("protect", "NoAccess"))
    rw_al = regions(al, ("protect", "ReadWrite"))
    rw_de = regions(de, ("protect", "ReadWrite"))
    good_shapes = all(r[1] is not None and r[2] is not None for r in na + rw_al + rw_de)
    rep.ob("GUARD", "allocate: two no-access guard regions" + tag, len(na) == 2 and good_shapes,
           "no-access regions in allocate: %s" % [show(r) for r in na], loc=al.loc())
    if len(na) != 2 or not good_shapes:
        return
    # total size requested from the system: X + 2P, X = the room reserved for the data
    sizes = []
    for c in al.calls():
        if c.path in ("libc::posix_memalign",) and len(c.args) == 3:
            sizes.append(int_form(call_arg_exprs(c)[2]))
    total = sizes[0] if len(sizes) == 1 else None
    X = L.lin_add(total, L.lin_scale(P, 2), -1) if total is not None else None
    bases = {r[1][0] for r in na + rw_al}
    fore = [r for r in na if same(r[1][1], L.lin_const(0))]
    aft = [r for r in na if r not in fore]
    ok_al = len(bases) == 1 and len(fore) == 1 and len(aft) == 1 and X is not None and same(fore[0][2], P) and same(aft[0][2], P) and \
        same(aft[0][1][1], L.lin_add(P, X))
    rep.ob("GUARD", "allocate: fore guard at base, aft guard at base+page+room(size), one page each" + tag, ok_al,
           "guard regions %s; system allocation of %s bytes" % ([show(r) for r in na], L.lin_repr(total) if total is not None else "?"), loc=al.loc())
    # the room for the data is at least layout.size() and less than one page more: X - S = P - (S % P)
    if X is not None:
        slack = L.lin_add(X, S, -1)
        vs = L.lin_vars(slack)
        okx = len(vs) == 2 and "P" in vs and slack.get("P") == 1 and slack.get(1, 0) == 0 and \
            any(isinstance(v_, tuple) and v_[0] == "rem" and slack[v_] == -1 and v_[1] == "S" and v_[2] == "P" for v_ in vs)
        rep.ob("GUARD", "allocate: data room is size rounded up to the next page boundary" + tag, okx,
               "room for the data = %s (expected S + P - S %% P)" % L.lin_repr(X), loc=al.loc())
    for r in rw_al:
        rep.ob("GUARD", "allocate: data region at base+page, layout.size() bytes" + tag,
               same(r[1][1], P) and same(r[2], S), "data region %s" % show(r), loc=r[0].loc())
    # deallocate mirrors the same offsets relative to its pointer (data pointer = base + page)
    dbases = {r[1][0] for r in rw_de}
    want_de = [(L.lin_const(0), S), (L.lin_scale(P, -1), P), (X, P)] if X is not None else []
    got = [(r[1][1], r[2]) for r in rw_de]
    ok_de = len(dbases) == 1 and len(got) == 3 and all(any(same(o, wo) and same(l_, wl) for o, l_ in got) for wo, wl in want_de)
    rep.ob("GUARD", "deallocate mirrors the guard offsets" + tag, ok_de,
           "regions made read-write again in deallocate: %s (expected data at ptr, fore guard at ptr-P, aft guard at ptr+room)" % [show(r) for r in rw_de], loc=de.loc())
    frees = [c for c in de.calls() if c.path == "libc::free"]
    if frees:
        pf = ptr_form(call_arg_exprs(frees[0])[0])
        rep.ob("GUARD", "deallocate frees the allocation base (ptr - page)" + tag, pf is not None and pf[0] in dbases and same(pf[1], L.lin_scale(P, -1)),
               "free(%s + %s)" % (pf[0][:30] if pf else "?", L.lin_repr(pf[1]) if pf else "?"), loc=frees[0].loc())


def cm_repr(e):
    from ..expr import deep_repr
    return deep_repr(e)


def shape(e, depth=0):
    """Symbolic shape of a pointer/length expression in the allocator, in terms of
    base (posix_memalign result / ptr parameter), pagesize, size = Layout::size, round()."""
    if depth > 12:
        return "?"
    if e.k == "cast":
        return shape(e.a, depth + 1)
    if e.k == "const":
        return str(e.a)
    if e.k == "local":
        return "base" if e.a <= 3 else "base"
    if e.k == "field":
        return shape(e.a, depth + 1)
    if e.k == "call":
        p = e.a.path
        ax = call_arg_exprs(e.a)
        if p in ("std::alloc::Layout::size", "core::alloc::Layout::size"):
            return "size"
        if p.endswith("::deref") and "PAGESIZE" in e.a.full or p == "std::ops::Deref::deref":
            return "pagesize"
        if p.endswith("mut_ptr::<impl *mut T>::add") or p.endswith("const_ptr::<impl *const T>::add"):
            return "%s+add(%s)" % (shape(ax[0], depth + 1), shape(ax[1], depth + 1))
        if p.endswith("mut_ptr::<impl *mut T>::offset"):
            off = shape(ax[1], depth + 1)
            if off.startswith("neg("):
                return "%s-page" % shape(ax[0], depth + 1) if "pagesize" in off else "%s-?" % shape(ax[0], depth + 1)
            return "%s+offset(%s)" % (shape(ax[0], depth + 1), off)
        if p in ("std::ptr::NonNull::<T>::as_ptr",):
            return "base"
        if p in ("std::ptr::null_mut",):
            return "base"
        if e.a.is_local and e.a.name.lstrip("_") == "page_round" or (e.a.is_local and len(ax) == 2):
            return "round(%s)" % shape(ax[0], depth + 1)
        return "call:%s" % p.split("::")[-1]
    if e.k == "binop":
        l, r = shape(e.b, depth + 1), shape(e.c, depth + 1)
        op = e.a.replace("WithOverflow", "").replace("Unchecked", "")
        if op == "Add":
            return "%s+%s" % (l, r)
        if op == "Mul":
            return "%s*%s" % (l, r)
        if op == "Sub":
            return "%s-%s" % (l, r)
        return "%s(%s,%s)" % (op, l, r)
    if e.k == "unop":
        if e.a == "Neg":
            return "neg(%s)" % shape(e.b, depth + 1)
        return "%s(%s)" % (e.a, shape(e.b, depth + 1))
    return "?"


LEN_CHANGERS = ("std::vec::Vec::<T, A>::resize", "types::ResizableBytes::resize", "std::vec::Vec::<T, A>::truncate",
                "std::vec::Vec::<T, A>::push", "std::vec::Vec::<T, A>::pop", "std::vec::Vec::<T, A>::clear",
                "std::vec::Vec::<T, A>::extend_from_slice", "std::vec::Vec::<T, A>::shrink_to_fit", "std::vec::Vec::<T, A>::shrink_to",
                "std::vec::Vec::<T, A>::reserve", "std::vec::Vec::<T, A>::set_len")


def lock_extent(rep, prog, tag):
    """A region that is (or may be) locked must not change its length in place: mlock covered the old
    extent, every later munlock/mprotect uses the current length.  Only impls whose lock-mode
    parameter is the concrete `Unlocked` may resize the inner container in place."""
    n = 0
    for imp in prog.impls:
        st = imp["self_ty"]
        if st.get("path") != "protected::Protected" or len(st.get("args", [])) != 3:
            continue
        lm = st["args"][2]
        lm_name = lm["t"].split("::")[-1] if lm.get("k") == "adt" else None
        for it in imp["items"]:
            f = prog.by_key.get(it["key"])
            if f is None or f.argc < 1:
                continue
            for g in prog.unit(f):
                selfv = set(g.forward_slice([1])) if g is f else set()
                for c in g.calls():
                    if g.blocks[c.bb]["cleanup"]:
                        continue
                    if c.path in LEN_CHANGERS or c.rpath in LEN_CHANGERS or (c.name in ("resize", "truncate", "shrink_to_fit") and c.args):
                        ls = list(operand_locals(c.args[0])) if c.args else []
                        if not ls:
                            continue
                        root = cm.view_info(g, ls[0])[0]
                        on_self = root == 1 and g is f
                        if not on_self:
                            continue
                        n += 1
                        rep.ob("LOCK-EXTENT", "%s|%s%s" % (f.path, c.name, tag), lm_name == "Unlocked",
                               "in-place %s of the region's storage in an impl with lock mode %s (only Unlocked may resize in place; "
                               "a locked region must be re-created so that lock and unlock cover the same extent)" % (c.name, lm["t"]),
                               loc=c.loc())
    rep.floor("in-place length changes of protected storage" + tag, n, 1)


def _holds_record_by_value(ty, rn):
    """the type text names the record other than behind a reference or inside a callable's signature
    (`impl FnOnce(&mut InternalData<A>)`, `fn(&InternalData<A>)` own no record)"""
    import re
    if ty.startswith("&") or re.match(r"^(impl |dyn |for<[^>]*> )*(Fn|FnMut|FnOnce)\b", ty) or ty.startswith(("fn(", "unsafe fn(", "extern ")):
        return False
    for m in re.finditer(re.escape(rn) + "<", ty):
        i = m.start()
        while i > 0 and (ty[i - 1].isalnum() or ty[i - 1] in "_:"):
            i -= 1
        before = ty[:i].rstrip()
        if before.endswith("&") or before.endswith("&mut") or re.search(r"&'\w+( mut)?$", before) or before.endswith(("*const", "*mut")):
            continue
        return True
    return False


def drop_discipline(rep, prog, tag):
    """The raw storage record of a protected region is never dropped by crate code: it may only die
    inside Protected's own Drop (unprotect -> wipe -> unlock).  A `Drop` terminator on a value of type
    InternalData<_> / Option<InternalData<_>> (e.g. on an early-return path after moving it out of the
    handle) would wipe read-only/no-access pages and skip munlock."""
    bad = []
    n = 0
    for f in prog.fns:
        RN = rec_of(prog)["short"]
        if not any((RN in l["t"]) for l in f.locals):
            continue
        n += 1
        for b in range(f.n):
            t = f.blocks[b]["t"]
            if t["k"] == "drop" and _holds_record_by_value(t.get("place_ty", ""), RN):
                bad.append((f, b, t["place_ty"]))
            if t["k"] == "call":
                c = f.call_at(b)
                if c.path in ("std::mem::drop", "core::mem::drop", "std::mem::forget") and (RN + "<") in c.full:
                    bad.append((f, b, c.full))
    rep.ob("DROP-DISCIPLINE", "no crate function drops a region's storage record" + tag, not bad,
           "%d functions handle the storage record; drops outside Protected::drop: %s" % (n, [(f.path[:60], f.loc(b)) for f, b, _ in bad][:4]),
           loc=bad[0][0].loc(bad[0][1]) if bad else None)


def record_discipline(rep, prog, tag):
    """The runtime record (storage, lock mode, protect mode) is created only for fresh storage, as
    (Unlocked, ReadWrite) -- which is what the allocator hands out -- and is never duplicated: cloning a
    record would attach a ReadOnly/NoAccess/Locked claim to freshly allocated read-write, unlocked pages.
    Every other mode is reached through a transition (MODE rule)."""
    from ..expr import expr_of_operand, deep_repr
    n_rec = 0
    rec = rec_of(prog)
    RN = rec["short"]
    makers = set()
    for f in prog.fns:
        imp = prog.fn_impl(f)
        own_clone = bool(imp and imp.get("trait") == "std::clone::Clone" and imp["self_ty"].get("path") == rec["record"])
        for b, i, st in f.assigns():
            if own_clone:
                break   # the record's derived Clone impl itself; *calling* it is what the rule forbids (below)
            rv = st["rv"]
            if rv["k"] == "agg" and rv.get("agg") == "adt" and rv.get("path") == rec["record"]:
                n_rec += 1
                fields = dict(zip(rv.get("fields", []), rv["ops"]))
                txt = {k: deep_repr(expr_of_operand(f, v)) for k, v in fields.items()}
                lmv, pmv = txt.get(rec["lock_field"], ""), txt.get(rec["protect_field"], "")
                ok = lmv.endswith("Unlocked{}") and pmv.endswith("ReadWrite{}")
                rep.ob("RECORD", "%s|record created as (Unlocked, ReadWrite)%s" % (f.path, tag), ok,
                       "record literal with lock mode %s, protect mode %s" % (lmv, pmv), loc="%s:%s" % (f.file, _ln(st)))
                makers.add(f.key)
        for c in f.calls():
            if f.blocks[c.bb]["cleanup"]:
                continue
            if c.path == "std::clone::Clone::clone" and (RN + "<") in (c.f.get("self_ty") or c.full):
                rep.violation("RECORD", "%s|record cloned%s" % (f.path, tag),
                              "the storage record (with its recorded lock/protect mode) is cloned: %s; the copy's pages are fresh "
                              "(read-write, unlocked) whatever the record says" % c.full[:90], loc=c.loc())
            if c.path in ("std::mem::replace", "std::mem::take") and (RN + "<") in c.full:
                rep.violation("RECORD", "%s|record moved out%s" % (f.path, tag), "record moved out of its handle by %s" % c.path, loc=c.loc())
    rep.ob("RECORD", "record literals exist" + tag, n_rec >= 1, "%d storage-record literal(s) in the crate" % n_rec)
    # a fresh record says (Unlocked, ReadWrite): the handle it is wrapped in must say the same in its type.
    # The constructor is generic over the markers, so every instantiation (call site) is checked.
    n_inst = 0
    for f in prog.fns:
        for c in f.calls():
            if f.blocks[c.bb]["cleanup"]:
                continue
            for t in prog.callee_fns(c):
                if t.key not in makers:
                    continue
                pp = prog_parse(c.full.replace("::<", "<", 1).rsplit("::", 1)[0]) if "Protected::<" in c.full else None
                if pp is None:
                    continue
                n_inst += 1
                pm_, lm_ = pp[1].split("::")[-1], pp[2].split("::")[-1]
                rep.ob("RECORD", "%s|fresh record wrapped as <ReadWrite, Unlocked>%s" % (f.path, tag), (pm_, lm_) == ("ReadWrite", "Unlocked"),
                       "a handle over fresh storage (record Unlocked / ReadWrite, pages read-write and unlocked) is built at type Protected<_, %s, %s>" % (pm_, lm_),
                       loc=c.loc())
    rep.floor("instantiations of the fresh-record constructor" + tag, n_inst, 3)


def _ln(st):
    ln = st.get("ln")
    return ln[0] if isinstance(ln, list) else ln
