"""C05 — X25519 / DH / key exchange (structural clauses)."""
from ..core import operand_locals, def_sites
from ..engines import auth_fixpoint, returns_result, CT_T, CT_F
from ..expr import expr_of_operand, call_arg_exprs, evaluate
from . import common as cm

REDUCERS = ("curve25519_dalek::Scalar::from_bytes_mod_order", "curve25519_dalek::Scalar::from_bytes_mod_order_wide",
            "curve25519_dalek::Scalar::from_hash", "curve25519_dalek::Scalar::hash_from_bytes",
            "curve25519_dalek::Scalar::from_canonical_bytes", "curve25519_dalek::Scalar::from_bits",
            "curve25519_dalek::Scalar::from_bits_clamped")
VARBASE_OK = ("curve25519_dalek::MontgomeryPoint::mul_clamped", "curve25519_dalek::MontgomeryPoint::mul_bits_be",
              "curve25519_dalek::montgomery::MontgomeryPoint::mul_clamped")

EXPLANATION = (
    "FORBID: in everything reachable from crypto_scalarmult, no operand of a multiplication involving a "
    "MontgomeryPoint may depend on a Scalar produced by a reducing decoder (from_bytes_mod_order*, ...); "
    "the variable-base product must be computed from the point parameter and the scalar parameter and "
    "written to the output. A clamped scalar is >= 2^254 > L, so reducing it always changes the integer and "
    "changes the result for every point outside the prime-order subgroup. KX-AUTH: the session-key functions "
    "return Ok only behind the not-all-zero edge of a comparison of the X25519 output with zeros (least "
    "fixpoint through the shared helper). MIRROR: client passes (rx,tx), server (tx,rx); both hash "
    "shared||client_pk||server_pk into 2*SESSIONKEYBYTES and split at SESSIONKEYBYTES. BEFORENM: "
    "HSalsa20(zero input, X25519(sk, pk)). PRECALC: every public two-argument constructor returning a "
    "PrecalcSecretKey returns a value that depends on crypto_box_beforenm(both arguments) or on a constructor it "
    "delegates to. ROLE: at every crate-internal call edge, a value the caller names as a secret key (parameter, "
    "named local or record field) is not passed where the callee names a public key, and vice versa. KX-WRAP: every "
    "public function that returns a kx::Session and whose public name says client (server) reaches, in the crate's "
    "call graph (resolved calls, closures, function items used as values), the classic session-key function of "
    "that side; when neither side is visible the wrapper is reported as not decided.")
NOT_DECIDED = ("numerical correctness of the Montgomery ladder / X25519 output for every scalar and point; "
               "commutativity of DH; equality of session keys with libsodium (BLAKE2b as a function).")


def run(ctx, rep):
    rep.explanation = EXPLANATION
    rep.not_decided = NOT_DECIDED
    rep.trust("curve25519-dalek 4.1.3 API semantics: from_bytes_mod_order* reduce mod L; MontgomeryPoint::mul_clamped clamps without reducing")
    prog = ctx.prog("full")
    for cfg in ([] if ctx.tier == "quick" else ["default", "simd"]):
        ctx.prog(cfg)
    scalarmult(rep, prog)
    kx(rep, prog)
    beforenm(rep, prog)
    n_roles = cm.role_consistency(rep, prog)
    rep.floor("key-role call edges", n_roles, 40)
    _nw = cm.read_after_wipe(rep, ctx.prog("full"), ("classic::crypto_kx", "kx::", "scalarmult_curve25519::", "classic::crypto_core"))
    rep.note("WIPE-ORDER: %d wipe(s) of local buffers checked in the key-exchange / scalarmult code" % _nw)


def scalarmult(rep, prog):
    roots = prog.by_path.get("classic::crypto_core::crypto_scalarmult", [])
    if not roots:
        rep.violation("ANCHOR", "crypto_scalarmult", "public function not found")
        return
    seen = prog.reach_fns(roots)
    n_mul = 0
    for k in seen:
        f = prog.by_key[k]
        reduced = set()
        for c in f.calls():
            if c.path in REDUCERS or ("Scalar::from_" in c.path and "mod_order" in c.path):
                reduced.add(c.dest["l"])
        for c in f.calls():
            var = None
            if c.path == "std::ops::Mul::mul" and ("MontgomeryPoint" in c.full or "EdwardsPoint" in c.full) and "BasepointTable" not in c.full:
                var = "Mul"
            elif c.path.startswith("curve25519_dalek::") and c.name in ("mul", "mul_base", "multiscalar_mul", "vartime_multiscalar_mul", "mul_clamped_reduced") \
                    and "BasepointTable" not in c.full and c.name != "mul_base":
                var = c.name
            elif c.path in VARBASE_OK or c.path.endswith("MontgomeryPoint::mul_clamped"):
                var = "mul_clamped"
            if not var:
                continue
            n_mul += 1
            back = set()
            for a in c.args:
                back |= f.backward_slice(operand_locals(a))
            bad = back & reduced
            rep.ob("FORBID", "%s|%s" % (f.path, var), not bad,
                   "variable-base multiplication %s: %s" % (c.full[:80], "no operand depends on a mod-L reduced scalar" if not bad else
                                                            "an operand depends on a Scalar reduced mod L (%s)" % [f.local_name(l) for l in bad]),
                   loc=c.loc())
            # operands derive from the point and scalar parameters; output written from the product
            # public crypto_scalarmult(q, n, p) is positional
            pq, pn, pp = (1, 2, 3) if f.key in {r_.key for r_ in roots} else (None, None, None)
            if pq is None:
                # a function the root forwards its parameters to
                for r_ in roots:
                    for c2 in r_.calls():
                        if f in prog.callee_fns(c2):
                            m = {}
                            for i, a in enumerate(c2.args):
                                ls = list(operand_locals(a))
                                if ls:
                                    m[cm.view_info(r_, ls[0])[0]] = i + 1
                            if {1, 2, 3} <= set(m):
                                pq, pn, pp = m[1], m[2], m[3]
            if pn and pp and pq:
                rep.ob("PROV", "%s|operands" % f.path, pn in back and pp in back,
                       "product depends on scalar parameter n and point parameter p", loc=c.loc())
                fw = f.forward_slice([c.dest["l"]])
                rep.ob("PROV", "%s|output" % f.path, pq in fw, "the product is written to the output parameter q", loc=c.loc())
    all_paths(rep, prog, roots[0], seen)
    rep.floor("variable-base multiplications reachable from crypto_scalarmult", n_mul, 1)
    rep.sample({"reachable_from_crypto_scalarmult": [prog.by_key[k].path for k in seen][:8]})


def _is_varbase(c):
    if c.path == "std::ops::Mul::mul" and ("MontgomeryPoint" in c.full or "EdwardsPoint" in c.full) and "BasepointTable" not in c.full:
        return True
    if c.path.startswith("curve25519_dalek::") and c.name in ("mul", "multiscalar_mul", "vartime_multiscalar_mul", "mul_clamped_reduced") and "BasepointTable" not in c.full:
        return True
    return c.path in VARBASE_OK or c.path.endswith("MontgomeryPoint::mul_clamped")


def all_paths(rep, prog, root, seen):
    """X25519(n, p) is computed from the caller's point on *every* path: each return of
    crypto_scalarmult (helpers folded in) lies behind the variable-base product of n and p.  The only
    path that may bypass it is the equal edge of a comparison of the *whole* point with a value that
    does not depend on the inputs (then p is known, e.g. a base-point table shortcut); a comparison of
    a sub-slice of p does not determine p."""
    from ..inline import inline
    v = inline(prog, root, pick=lambda call, t: t.key in seen and t.kind != "closure")
    pn, pp = 2, 3
    mult = []
    for c in v.calls():
        if _is_varbase(c):
            back = set()
            for a in c.args:
                back |= v.backward_slice(operand_locals(a))
            if pn in back and pp in back:
                mult.append(c.bb)
    exempt = []
    for b in range(v.n):
        t = v.blocks[b]["t"]
        if t["k"] != "switch":
            continue
        e = expr_of_operand(v, t["x"])
        if e.k != "call" or e.a.name not in ("eq", "ne") or "PartialEq" not in e.a.path or len(e.a.args) != 2:
            continue
        sides = []
        for a in e.a.args:
            ls = list(operand_locals(a))
            if not ls:
                sides.append(("const", None))
                continue
            r_, narrowed = cm.view_info(v, ls[0])
            dep = v.backward_slice(ls) & {1, 2, 3}
            sides.append(("p" if (r_ == pp and not narrowed) else ("input" if dep else "const"), r_))
        kinds = sorted(k for k, _ in sides)
        if kinds == ["const", "p"]:
            arms = {val: tb for val, tb in t["arms"]}
            eq_t = t["otherwise"] if e.a.name == "eq" else arms.get(0)
            ne_t = arms.get(0) if e.a.name == "eq" else t["otherwise"]
            if eq_t is not None and eq_t != ne_t:
                exempt.append((b, eq_t))
    rets = [b for b in range(v.n) if v.blocks[b]["t"]["k"] == "return"]
    free = v.reachable(0, cut_blocks=mult, cut_edges=exempt)
    bad = [b for b in rets if b in free]
    why = "every return lies behind the product of n and p (%d product site(s), %d whole-point shortcut edge(s))" % (len(mult), len(exempt))
    if bad:
        path = v.path_between(0, bad[0], cut_blocks=mult, cut_edges=exempt) or []
        sw = [v.loc(b) for b in path if v.blocks[b]["t"]["k"] == "switch"]
        why = "a path returns without multiplying the caller's point (branching at %s): the output on that path does not depend on p" % (sw[-1:] or [v.loc(bad[0])])
    rep.ob("PROV", "%s|every path multiplies the caller's point" % root.path, bool(mult) and not bad, why, loc=v.loc(bad[0]) if bad else root.loc())


def half_of(f, operand):
    """0 / 1 if the operand is a view of the first / second 32 bytes of a 64-byte buffer (by index
    range or split_at), else None; also returns the buffer root."""
    e = expr_of_operand(f, operand)
    ls = list(operand_locals(operand))
    root = cm.view_info(f, ls[0])[0] if ls else None
    if e.k == "field" and e.b in ("0", "1") and e.a.k == "call" and e.a.a.path in cm.NARROWING and "split_at" in e.a.a.path:
        if evaluate(call_arg_exprs(e.a.a)[1], {}) == 32:
            return int(e.b), root
        return None, root
    if e.k == "call" and len(e.a.args) == 2:
        rng = call_arg_exprs(e.a)[1]
        if rng.k == "agg" and rng.a:
            nm = rng.a.split("::")[-1]
            vals = [evaluate(o, {}) for o in (rng.c or [])]
            if nm == "RangeTo" and vals == [32]:
                return 0, root
            if nm == "RangeFrom" and vals == [32]:
                return 1, root
            if nm == "Range" and vals == [0, 32]:
                return 0, root
            if nm == "Range" and vals == [32, 64]:
                return 1, root
    return None, root


def kx(rep, prog):
    from ..inline import inline
    from ..engines import auth_check
    cl = prog.by_path.get("classic::crypto_kx::crypto_kx_client_session_keys", [])
    sv = prog.by_path.get("classic::crypto_kx::crypto_kx_server_session_keys", [])
    if not cl or not sv:
        rep.violation("ANCHOR", "crypto_kx session key functions", "public functions not found")
        return
    kx_wrappers(rep, prog, cl[0], sv[0])
    sm = prog.by_path.get("classic::crypto_core::crypto_scalarmult", [None])[0]
    # both sides are analysed with their private helpers (shared derivation, zero test, ...) folded in
    # public signature (positional): (rx, tx, own_pk, own_sk, peer_pk)
    for side, f0, want_copy, want_hash in (("client", cl[0], {(1, 0), (2, 1)}, [3, 5]), ("server", sv[0], {(2, 0), (1, 1)}, [5, 3])):
        f = inline(prog, f0)
        s = set()
        for c in f.calls():
            if sm in prog.callee_fns(c):
                for l in operand_locals(c.args[0]):
                    s.add(cm.view_info(f, l)[0])
        prims = []
        for c in cm.ct_eq_calls(f):
            roots = [cm.view_info(f, l)[0] for a in c.args for l in operand_locals(a)]
            # one operand is the X25519 output, the *other* one an all-zero array (the output buffer itself starts
            # out as zeros: it does not count as the zero operand)
            others = [a for a in c.args if not any(cm.view_info(f, l)[0] in s for l in operand_locals(a))]
            if (set(roots) & s) and len(others) == 1 and _is_zero_array(f, others[0]):
                prims.append(c)
        for c in prims:
            ok, ws = cm.equal_widths(f, c)
            known = [w for w in ws if w is not None]
            rep.ob("KX-WIDTH", "%s|zero comparison width" % f.path, ok and len(known) == 2 and known[0] == 32,
                   "shared-secret comparison operand widths %s: a slice ct_eq of unequal lengths is constantly false, "
                   "so the all-zero check could never fire" % (ws,), loc=c.loc())
        r = auth_check(prog, f, prims, set(), success=(CT_F, CT_T))
        rep.ob("KX-AUTH", f.path, bool(prims) and r.authenticated,
               "Ok only behind the not-all-zero edge of a shared-secret comparison" if prims and r.authenticated else
               "an Ok return is reachable without a check of the shared secret against all-zero: %s" % (
                   "; ".join("exit %s" % f.loc(b) for b, p in r.bad_exits) or "no check found"), loc=f.loc())
        # the X25519 operands: own secret key (#4) as scalar, peer public key (#5) as point
        for c in f.calls():
            if sm in prog.callee_fns(c):
                sk = cm.view_info(f, list(operand_locals(c.args[1]))[0])[0]
                pk = cm.view_info(f, list(operand_locals(c.args[2]))[0])[0]
                rep.ob("MIRROR", "%s|X25519(own secret key, peer public key)" % side, (sk, pk) == (4, 5),
                       "scalar <- parameter #%s, point <- parameter #%s" % (sk, pk), loc=c.loc())
        # hash: BLAKE2b-512(shared || client_pk || server_pk)
        inits = [c for c in f.calls() if c.rpath.endswith("crypto_generichash_init")]
        ups = [c for c in f.calls() if c.rpath.endswith("crypto_generichash_update")]
        fins = [c for c in f.calls() if c.rpath.endswith("crypto_generichash_final")]
        seq = cm.absorb_sequence(f, ups) if ups else None
        okc = len(inits) == 1 and seq is not None and len(seq) == 3 and len(fins) == 1
        rep.ob("KX-HASH", "%s|init/3 updates/final" % side, okc, "init=%d update=%d (absorbing %s operands) final=%d" % (
            len(inits), len(ups), len(seq) if seq is not None else "unordered", len(fins)), loc=f.loc())
        if not okc:
            continue
        roots = [x[0] for x in seq]
        rep.ob("KX-HASH", "%s|order shared||client_pk||server_pk" % side, roots[0] in s and roots[1:] == want_hash and all(
            x[2] in f.dom.get(fins[0].bb, ()) for x in seq),
            "updates absorb %s (expected the X25519 output, then parameters #%s and #%s)" % (
                [("shared" if r_ in s else "#%s" % r_) for r_ in roots], want_hash[0], want_hash[1]), loc=ups[0].loc())
        outlen = evaluate(call_arg_exprs(inits[0])[1], {})
        rep.ob("KX-HASH", "%s|output length 64" % side, outlen == 64, "generichash output length %s" % outlen, loc=inits[0].loc())
        # rx/tx: which half of the hash output goes to which output parameter
        hroot = cm.view_info(f, list(operand_locals(fins[0].args[1]))[0])[0]
        got = set()
        for c in f.calls():
            if c.path in cm.COPY and len(c.args) == 2 and fins[0].bb in f.dom.get(c.bb, ()):
                half, root = half_of(f, c.args[1])
                dst = cm.view_info(f, list(operand_locals(c.args[0]))[0])[0] if operand_locals(c.args[0]) else None
                if root == hroot and dst in (1, 2):
                    got.add((dst, half))
        rep.ob("MIRROR", "%s|rx/tx halves" % side, got == want_copy,
               "(output parameter, half of the hash) pairs %s; expected %s (client: rx=first, tx=second; server mirrored)" % (sorted(got, key=repr), sorted(want_copy)),
               loc=fins[0].loc())


def kx_wrappers(rep, prog, cl, sv):
    """KX-WRAP: the object API reaches the classic session-key function of its *own* side.  Every public function
    outside classic::crypto_kx whose public name says `client` (or `server`) and from which a classic session-key
    function is reachable through crate-local calls reaches the one of that side: a server
    wrapper that forwards to the client constructor returns keys of the right length that mirror nothing."""
    side_of = {cl.key: "client", sv.key: "server"}
    prog.build_callgraph()

    def mentioned(o, out):
        # function items used as values anywhere in a body (`derive_with(crypto_kx_client_session_keys, ..)`:
        # the item is first coerced to a function pointer, so it is not a direct call operand)
        if isinstance(o, dict):
            if o.get("fn_key") in prog.by_key:
                out.add(o["fn_key"])
            for v in o.values():
                mentioned(v, out)
        elif isinstance(o, list):
            for v in o:
                mentioned(v, out)
        return out

    def reach(f):
        # the crate's call graph (resolved calls, closures created in a function) plus function items used as values
        seen, todo = {f.key}, [f]
        while todo:
            g = todo.pop()
            if g.key in side_of:
                continue
            for k in set(prog._callees.get(g.key, ())) | mentioned(g.blocks, set()):
                if k not in seen:
                    seen.add(k)
                    todo.append(prog.by_key[k])
        return {side_of[k] for k in seen if k in side_of}
    n = 0
    for f in sorted(prog.fns, key=lambda f: f.path):
        if f.vis != "pub" or f.kind == "closure" or f.key in side_of or f.path.startswith("classic::crypto_kx::"):
            continue
        name = f.path.split("::")[-1].lower()
        want = [w for w in ("client", "server") if w in name]
        if len(want) != 1:
            continue
        if "kx::Session<" not in f.locals[0]["t"]:
            continue        # the wrappers are told by what they return: a session
        n += 1
        got = reach(f)
        if not got:
            # neither side is visible in the call graph (a table of function pointers in a constant, a `dyn Fn`)
            rep.note("KX-WRAP: %s - no session-key function visible in the call graph, not decided" % f.path)
            continue
        # (a shared helper that picks the side from a flag makes both reachable: call-graph reachability cannot
        # tell which one runs, so only "the own side is not reachable at all" is reported)
        rep.ob("KX-WRAP", "%s|reaches the %s session-key function" % (f.path, want[0]), want[0] in got,
               "reaches the session-key function(s) of: %s" % ", ".join(sorted(got)), loc=f.loc())
    rep.floor("public client/server session wrappers", n, 4)


def _is_zero_array(f, a):
    e = expr_of_operand(f, a)
    if e.k == "repeat":
        return evaluate(e.a, {}) == 0
    if e.k == "const" and e.a is None:
        return True   # promoted &[0u8; N] rendered as text
    return False


def beforenm(rep, prog):
    fs = prog.by_path.get("classic::crypto_box::crypto_box_beforenm", [])
    if not fs:
        rep.violation("ANCHOR", "crypto_box_beforenm", "public function not found")
        return
    from ..inline import inline
    done = False
    for g in [inline(prog, fs[0], cross=lambda h: "crypto_box" in h.file)]:
        hs = [c for c in g.calls() if c.rpath.endswith("crypto_core_hsalsa20")]
        sm = [c for c in g.calls() if c.rpath.endswith("crypto_core::crypto_scalarmult")]
        if not hs or not sm:
            continue
        done = True
        h, s = hs[0], sm[0]
        sroot = cm.view_info(g, list(operand_locals(s.args[0]))[0])[0]
        kroot = cm.view_info(g, list(operand_locals(h.args[2]))[0])[0]
        rep.ob("BEFORENM", "key = X25519 output", sroot == kroot and s.bb in g.dom.get(h.bb, ()),
               "HSalsa20 key operand is the buffer written by crypto_scalarmult", loc=h.loc())
        rep.ob("BEFORENM", "zero input block", _is_zero_array(g, h.args[1]), "HSalsa20 input operand is the all-zero block", loc=h.loc())
        back = g.backward_slice(operand_locals(s.args[1])) | g.backward_slice(operand_locals(s.args[2]))
        rep.ob("BEFORENM", "scalar=secret key, point=public key", {1, 2} <= back,
               "crypto_scalarmult receives both key parameters", loc=s.loc())
        sk = cm.view_info(g, list(operand_locals(s.args[1]))[0])[0]
        pk = cm.view_info(g, list(operand_locals(s.args[2]))[0])[0]
        rep.ob("BEFORENM", "argument roles", (sk, pk) == (2, 1), "scalar <- parameter #%s (secret_key=#2), point <- #%s (public_key=#1)" % (sk, pk), loc=s.loc())
    rep.ob("BEFORENM", "found", done, "beforenm reaches a function calling crypto_scalarmult then HSalsa20")
    precalc_objects(rep, prog)


def precalc_objects(rep, prog):
    """PRECALC: every public two-argument constructor of the precomputed-key object (found by return type) returns a
    value that depends on the result of `crypto_box_beforenm` - or of another such constructor it delegates to -
    called with both of its arguments (public key as the point, secret key as the scalar for the direct call).
    A constructor that allocates the container and forgets the copy returns an all-zero key that still
    round-trips with itself."""
    from ..inline import inline
    n = 0
    ctors = [f for f in prog.fns if f.vis == "pub" and f.kind != "closure" and f.argc == 2 and "precalc::PrecalcSecretKey<" in f.locals[0]["t"]]
    ckeys = {f.key for f in ctors}
    for f0 in sorted(ctors, key=lambda f: f.path):
        f = inline(prog, f0)
        back = f.backward_slice([0])
        srcs = []
        for c in f.calls():
            if f.blocks[c.bb]["cleanup"] or len(c.args) != 2 or c.dest is None or c.dest["l"] not in back and c.dest["l"] != 0:
                continue
            direct = c.rpath == "classic::crypto_box::crypto_box_beforenm" or c.path == "classic::crypto_box::crypto_box_beforenm"
            deleg = any(g.key in ckeys and g.key != f0.key for g in prog.callee_fns(c))
            if direct or deleg:
                srcs.append((c, direct))
        nm = f0.path.split("::")[-1] + ("@" + f0.path.split("::")[0])
        n += 1
        if not srcs:
            rep.ob("PRECALC", nm + "|value", False, "the returned precomputed key does not depend on the result of crypto_box_beforenm "
                   "(or of a constructor it delegates to)", loc=f.loc())
            continue
        ok, why = True, ""
        for c, direct in srcs:
            roots = [cm.view_info(f, list(operand_locals(a))[0])[0] if operand_locals(a) else None for a in c.args]
            sl = [f.backward_slice(operand_locals(a)) for a in c.args]
            if not (any(1 in s for s in sl) and any(2 in s for s in sl)) or len({1, 2} & sl[0] & sl[1]) == 2 and roots[0] == roots[1]:
                ok, why = False, "%s does not receive both arguments" % c.rpath.split("::")[-1]
            elif roots[0] == roots[1]:
                ok, why = False, "%s receives the same argument twice" % c.rpath.split("::")[-1]
        rep.ob("PRECALC", nm + "|value", ok, why or "returned value <- %s(both arguments)" % ", ".join(sorted({c.rpath.split("::")[-1] for c, _ in srcs})), loc=srcs[0][0].loc())
    rep.floor("public precomputed-key constructors", n, 6)
