"""C05 — X25519 / DH / key exchange (structural clauses)."""
from ..core import operand_locals, def_sites
from ..engines import auth_fixpoint, returns_result, CT_T, CT_F
from ..expr import expr_of_operand, call_arg_exprs, evaluate
from . import common as cm

REDUCERS = ("curve25519_dalek::Scalar::from_bytes_mod_order", "curve25519_dalek::Scalar::from_bytes_mod_order_wide",
            "curve25519_dalek::Scalar::from_hash", "curve25519_dalek::Scalar::hash_from_bytes",
            "curve25519_dalek::Scalar::from_canonical_bytes", "curve25519_dalek::Scalar::from_bits",
            "curve25519_dalek::Scalar::from_bits_clamped")
VARBASE_OK = ("curve25519_dalek::MontgomeryPoint::mul_clamped", "curve25519_dalek::MontgomeryPoint::mul_bits_be",
              "curve25519_dalek::montgomery::MontgomeryPoint::mul_clamped")

EXPLANATION = (
    "FORBID: in everything reachable from crypto_scalarmult, no operand of a multiplication involving a "
    "MontgomeryPoint may depend on a Scalar produced by a reducing decoder (from_bytes_mod_order*, ...); "
    "the variable-base product must be computed from the point parameter and the scalar parameter and "
    "written to the output. A clamped scalar is >= 2^254 > L, so reducing it always changes the integer and "
    "changes the result for every point outside the prime-order subgroup. KX-AUTH: the session-key functions "
    "return Ok only behind the not-all-zero edge of a comparison of the X25519 output with zeros (least "
    "fixpoint through the shared helper). MIRROR: client passes (rx,tx), server (tx,rx); both hash "
    "shared||client_pk||server_pk into 2*SESSIONKEYBYTES and split at SESSIONKEYBYTES. BEFORENM: "
    "HSalsa20(zero input, X25519(sk, pk)).")
NOT_DECIDED = ("numerical correctness of the Montgomery ladder / X25519 output for every scalar and point; "
               "commutativity of DH; equality of session keys with libsodium (BLAKE2b as a function).")


def run(ctx, rep):
    rep.explanation = EXPLANATION
    rep.not_decided = NOT_DECIDED
    rep.trust("curve25519-dalek 4.1.3 API semantics: from_bytes_mod_order* reduce mod L; MontgomeryPoint::mul_clamped clamps without reducing")
    prog = ctx.prog("full")
    for cfg in ([] if ctx.tier == "quick" else ["default", "simd"]):
        ctx.prog(cfg)
    scalarmult(rep, prog)
    kx(rep, prog)
    beforenm(rep, prog)
    n_roles = cm.role_consistency(rep, prog)
    rep.floor("key-role call edges", n_roles, 40)


def scalarmult(rep, prog):
    roots = prog.by_path.get("classic::crypto_core::crypto_scalarmult", [])
    if not roots:
        rep.violation("ANCHOR", "crypto_scalarmult", "public function not found")
        return
    seen = prog.reach_fns(roots)
    n_mul = 0
    for k in seen:
        f = prog.by_key[k]
        reduced = set()
        for c in f.calls():
            if c.path in REDUCERS or ("Scalar::from_" in c.path and "mod_order" in c.path):
                reduced.add(c.dest["l"])
        for c in f.calls():
            var = None
            if c.path == "std::ops::Mul::mul" and ("MontgomeryPoint" in c.full or "EdwardsPoint" in c.full) and "BasepointTable" not in c.full:
                var = "Mul"
            elif c.path.startswith("curve25519_dalek::") and c.name in ("mul", "mul_base", "multiscalar_mul", "vartime_multiscalar_mul", "mul_clamped_reduced") \
                    and "BasepointTable" not in c.full and c.name != "mul_base":
                var = c.name
            elif c.path in VARBASE_OK or c.path.endswith("MontgomeryPoint::mul_clamped"):
                var = "mul_clamped"
            if not var:
                continue
            n_mul += 1
            back = set()
            for a in c.args:
                back |= f.backward_slice(operand_locals(a))
            bad = back & reduced
            rep.ob("FORBID", "%s|%s" % (f.path, var), not bad,
                   "variable-base multiplication %s: %s" % (c.full[:80], "no operand depends on a mod-L reduced scalar" if not bad else
                                                            "an operand depends on a Scalar reduced mod L (%s)" % [f.local_name(l) for l in bad]),
                   loc=c.loc())
            # operands derive from the point and scalar parameters; output written from the product
            pn = f.arg_local("n")
            pp = f.arg_local("p")
            pq = f.arg_local("q")
            if pn and pp and pq:
                rep.ob("PROV", "%s|operands" % f.path, pn in back and pp in back,
                       "product depends on scalar parameter n and point parameter p", loc=c.loc())
                fw = f.forward_slice([c.dest["l"]])
                rep.ob("PROV", "%s|output" % f.path, pq in fw, "the product is written to the output parameter q", loc=c.loc())
    rep.floor("variable-base multiplications reachable from crypto_scalarmult", n_mul, 1)
    rep.sample({"reachable_from_crypto_scalarmult": [prog.by_key[k].path for k in seen][:8]})


def kx(rep, prog):
    cl = prog.by_path.get("classic::crypto_kx::crypto_kx_client_session_keys", [])
    sv = prog.by_path.get("classic::crypto_kx::crypto_kx_server_session_keys", [])
    if not cl or not sv:
        rep.violation("ANCHOR", "crypto_kx session key functions", "public functions not found")
        return
    cl, sv = cl[0], sv[0]
    sm = prog.by_path.get("classic::crypto_core::crypto_scalarmult", [None])[0]
    # secret-derived locals per function: out-param of crypto_scalarmult, and parameters fed by them
    secret = {}
    for f in (cl, sv):
        s = set()
        for c in f.calls():
            if sm in prog.callee_fns(c):
                for l in operand_locals(c.args[0]):
                    s.add(cm.view_info(f, l)[0])
        secret[f.key] = s
        for c in f.calls():
            for t in prog.callee_fns(c):
                if t is sm:
                    continue
                for i, a in enumerate(c.args):
                    if operand_locals(a) and (f.backward_slice(operand_locals(a)) & s) and i + 1 <= t.argc:
                        secret.setdefault(t.key, set()).add(i + 1)

    def prims(f):
        out = []
        s = secret.get(f.key, set())
        if not s:
            return out
        for c in cm.ct_eq_calls(f):
            roots = [cm.view_info(f, l)[0] for a in c.args for l in operand_locals(a)]
            exprs = call_arg_exprs(c)
            zero = any(_is_zero_array(f, a) for a in c.args)
            if (set(roots) & s) and zero:
                out.append(c)
        return out
    cands = [prog.by_key[k] for k in prog.reach_fns([cl, sv]) if returns_result(prog.by_key[k])]
    auth, results = auth_fixpoint(prog, cands, prims, success=(CT_F, CT_T))
    for g in cands:
        for c in prims(g):
            ok, ws = cm.equal_widths(g, c)
            known = [w for w in ws if w is not None]
            rep.ob("KX-WIDTH", "%s|zero comparison width" % g.path, ok and len(known) == 2 and known[0] == 32,
                   "shared-secret comparison operand widths %s: a slice ct_eq of unequal lengths is constantly false, "
                   "so the all-zero check could never fire" % (ws,), loc=c.loc())
    for f in (cl, sv):
        r = results[f.key]
        rep.ob("KX-AUTH", f.path, f.key in auth,
               "Ok only behind the not-all-zero edge of a shared-secret comparison" if f.key in auth else
               "an Ok return is reachable without a check of the shared secret against all-zero: %s" % (
                   "; ".join("exit %s" % f.loc(b) for b, p in r.bad_exits) or "no check found"), loc=f.loc())
    # MIRROR
    helper = None
    for c in cl.calls():
        for t in prog.callee_fns(c):
            if t.key in auth and t is not sm:
                helper = t
    if helper is None:
        rep.violation("MIRROR", "common derivation helper", "client function calls no authenticated derivation helper", loc=cl.loc())
        return

    def args_roots(f):
        for c in f.calls():
            if helper in prog.callee_fns(c):
                return [cm.view_info(f, list(operand_locals(a))[0])[0] if operand_locals(a) else None for a in c.args], c
        return None, None
    ca, cc = args_roots(cl)
    sa, sc = args_roots(sv)
    ok = ca is not None and sa is not None and ca[:2] == [1, 2] and sa[:2] == [2, 1]
    rep.ob("MIRROR", "rx/tx mirrored", ok, "client passes parameters %s, server %s as (x1, x2)" % (ca[:2] if ca else None, sa[:2] if sa else None),
           loc=cc.loc() if cc else cl.loc())
    okp = ca is not None and sa is not None and ca[2:4] == [3, 5] and sa[2:4] == [5, 3]
    rep.ob("MIRROR", "client_pk/server_pk order", okp,
           "client passes (client_pk=#%s, server_pk=#%s); server passes (client_pk=#%s, server_pk=#%s)" % (
               ca[2] if ca else None, ca[3] if ca else None, sa[2] if sa else None, sa[3] if sa else None), loc=sc.loc() if sc else sv.loc())
    # hash input order in the helper
    h = helper
    inits = [c for c in h.calls() if c.rpath.endswith("crypto_generichash_init")]
    ups = [c for c in h.calls() if c.rpath.endswith("crypto_generichash_update")]
    fins = [c for c in h.calls() if c.rpath.endswith("crypto_generichash_final")]
    okc = len(inits) == 1 and len(ups) == 3 and len(fins) == 1
    rep.ob("KX-HASH", "init/3 updates/final", okc, "init=%d update=%d final=%d" % (len(inits), len(ups), len(fins)), loc=h.loc())
    if okc:
        ups.sort(key=lambda c: len(h.dom.get(c.bb, ())))
        roots = [cm.view_info(h, list(operand_locals(c.args[1]))[0])[0] for c in ups]
        rep.ob("KX-HASH", "order shared||client_pk||server_pk", roots == [5, 3, 4] and all(
            ups[i].bb in h.dom.get(ups[i + 1].bb, ()) for i in range(2)), "updates absorb parameters %s" % roots, loc=ups[0].loc())
        outlen = evaluate(call_arg_exprs(inits[0])[1], {})
        rep.ob("KX-HASH", "output length 64", outlen == 64, "generichash output length %s" % outlen, loc=inits[0].loc())
        # split
        from .c01 import boundaries
        offs, _ = boundaries(prog, h)
        rep.ob("KX-HASH", "split at 32", 32 in offs, "boundary offsets %s" % sorted(offs), loc=h.loc())


def _is_zero_array(f, a):
    e = expr_of_operand(f, a)
    if e.k == "repeat":
        return evaluate(e.a, {}) == 0
    if e.k == "const" and e.a is None:
        return True   # promoted &[0u8; N] rendered as text
    return False


def beforenm(rep, prog):
    fs = prog.by_path.get("classic::crypto_box::crypto_box_beforenm", [])
    if not fs:
        rep.violation("ANCHOR", "crypto_box_beforenm", "public function not found")
        return
    seen = prog.reach_fns(fs)
    done = False
    for k in seen:
        g = prog.by_key[k]
        hs = [c for c in g.calls() if c.rpath.endswith("crypto_core_hsalsa20")]
        sm = [c for c in g.calls() if c.rpath.endswith("crypto_core::crypto_scalarmult")]
        if not hs or not sm:
            continue
        done = True
        h, s = hs[0], sm[0]
        sroot = cm.view_info(g, list(operand_locals(s.args[0]))[0])[0]
        kroot = cm.view_info(g, list(operand_locals(h.args[2]))[0])[0]
        rep.ob("BEFORENM", "key = X25519 output", sroot == kroot and s.bb in g.dom.get(h.bb, ()),
               "HSalsa20 key operand is the buffer written by crypto_scalarmult", loc=h.loc())
        rep.ob("BEFORENM", "zero input block", _is_zero_array(g, h.args[1]), "HSalsa20 input operand is the all-zero block", loc=h.loc())
        back = g.backward_slice(operand_locals(s.args[1])) | g.backward_slice(operand_locals(s.args[2]))
        rep.ob("BEFORENM", "scalar=secret key, point=public key", {1, 2} <= back,
               "crypto_scalarmult receives both key parameters", loc=s.loc())
        sk = cm.view_info(g, list(operand_locals(s.args[1]))[0])[0]
        pk = cm.view_info(g, list(operand_locals(s.args[2]))[0])[0]
        rep.ob("BEFORENM", "argument roles", (sk, pk) == (2, 1), "scalar <- parameter #%s (secret_key=#2), point <- #%s (public_key=#1)" % (sk, pk), loc=s.loc())
    rep.ob("BEFORENM", "found", done, "beforenm reaches a function calling crypto_scalarmult then HSalsa20")
