"""C04 — opening, verifying and parsing functions are total on untrusted bytes (open/parse/convert layer)."""
import re
import os

from ..core import operand_locals, def_sites
from ..expr import (expr_of_operand, expr_of_local, call_arg_exprs, evaluate, deep_repr, result_kind_of_ret,
                    decisive_edges)
from ..engines import OK, ERR, SOME, NONE
from .. import lenck as L
from . import common as cm
from fractions import Fraction
from ..inline import inline

EXPLANATION = (
    "LEN/REACH. Scope: every function reachable (context-sensitive call graph) from the untrusted-input entry "
    "points, down to the primitive boundary. In scope, every panic-capable construct is enumerated: MIR "
    "overflow/bounds/division assertions, slice Index/IndexMut, split_at, copy_from_slice, rotate, "
    "GenericArray::from_slice, Option/Result unwrap/expect, explicit panics, Vec::resize sizes. Each yields "
    "obligations over symbolic lengths (len(param), array sizes, split/index algebra); an obligation is "
    "discharged when the branch edges dominating the site (plus definitions, callee Ok-postconditions and "
    "the declared buffer contract of the classic API) entail it; entailment is decided by exact "
    "Fourier-Motzkin elimination. Obligations that mention only parameters of a non-entry function are "
    "lifted to its call sites. Anything left is reported with the construct and the missing fact.")
NOT_DECIDED = ("totality of the primitives below the boundary (Poly1305, BLAKE2b, SHA-512, Argon2 with bounded cost, "
               "curve25519-dalek, salsa20/chacha20, subtle, base64); absence of aborts from allocation failure.")

ENTRIES = [
    ("classic::crypto_secretbox::crypto_secretbox_open_detached",), ("classic::crypto_secretbox::crypto_secretbox_open_easy",),
    ("classic::crypto_secretbox::crypto_secretbox_open_easy_inplace",),
    ("classic::crypto_box::crypto_box_open_detached",), ("classic::crypto_box::crypto_box_open_detached_inplace",),
    ("classic::crypto_box::crypto_box_open_detached_afternm",), ("classic::crypto_box::crypto_box_open_detached_afternm_inplace",),
    ("classic::crypto_box::crypto_box_open_easy",), ("classic::crypto_box::crypto_box_open_easy_inplace",),
    ("classic::crypto_box::crypto_box_seal_open",),
    ("classic::crypto_secretstream_xchacha20poly1305::crypto_secretstream_xchacha20poly1305_pull",),
    ("dryocbox::DryocBox", "decrypt"), ("dryocbox::DryocBox", "precalc_decrypt"), ("dryocbox::DryocBox", "unseal"),
    ("dryocbox::DryocBox", "decrypt_to_vec"), ("dryocbox::DryocBox", "precalc_decrypt_to_vec"), ("dryocbox::DryocBox", "unseal_to_vec"),
    ("dryocbox::DryocBox", "from_bytes"), ("dryocbox::DryocBox", "from_sealed_bytes"),
    ("dryocsecretbox::DryocSecretBox", "decrypt"), ("dryocsecretbox::DryocSecretBox", "decrypt_to_vec"),
    ("dryocsecretbox::DryocSecretBox", "from_bytes"),
    ("dryocstream::DryocStream", "pull"), ("dryocstream::DryocStream", "pull_to_vec"),
    ("classic::crypto_sign::crypto_sign_open",), ("classic::crypto_sign::crypto_sign_verify_detached",),
    ("classic::crypto_sign::crypto_sign_final_verify",),
    ("sign::SignedMessage", "from_bytes"), ("sign::SignedMessage", "verify"), ("sign::IncrementalSigner", "verify"),
    ("classic::crypto_auth::crypto_auth_verify",), ("classic::crypto_onetimeauth::crypto_onetimeauth_verify",),
    ("auth::Auth", "verify"), ("auth::Auth", "compute_and_verify"),
    ("onetimeauth::OnetimeAuth", "verify"), ("onetimeauth::OnetimeAuth", "compute_and_verify"),
    ("classic::crypto_pwhash::crypto_pwhash_str_verify",), ("classic::crypto_pwhash::crypto_pwhash_str_needs_rehash",),
    ("pwhash::PwHash", "from_string"), ("pwhash::PwHash", "verify"),
    ("keypair::KeyPair", "from_slices"), ("sign::SigningKeyPair", "from_slices"),
]

# primitive boundary: functions below it are assumed total (reviewed list, printed in the evidence)
BOUNDARY = ("poly1305::", "blake2b::", "argon2::", "siphash24::", "utils::", "scalarmult_curve25519::",
            "classic::crypto_core::", "classic::crypto_generichash::", "classic::generichash_blake2b::",
            "classic::crypto_hash::", "sha512::", "rng::", "error::", "classic::crypto_shorthash::",
            "protected::Protected<", "protected::PageAlignedAllocator")
# Besides the primitive modules above, the boundary contains (by role, not by name):
#  * the MAC cores: the non-public functions of the files that hold the public crypto_auth /
#    crypto_onetimeauth API (fixed-size key and tag; the message is only hashed);
#  * protected.rs's non-public free functions (OS wrappers, page arithmetic).
BOUNDARY_PRIVATE_FILES = ("src/classic/crypto_auth.rs", "src/classic/crypto_onetimeauth.rs")

# declared buffer contracts of the classic API: output/key buffers sized as documented
CONTRACTS = {
    "classic::crypto_secretbox::crypto_secretbox_open_detached": ["len(message) >= len(ciphertext)"],
    "classic::crypto_secretbox::crypto_secretbox_open_easy": ["len(message) + 16 >= len(ciphertext)"],
    "classic::crypto_box::crypto_box_open_detached": ["len(message) >= len(ciphertext)"],
    "classic::crypto_box::crypto_box_open_detached_afternm": ["len(message) >= len(ciphertext)"],
    "classic::crypto_box::crypto_box_open_easy": ["len(message) + 16 >= len(ciphertext)"],
}

IDX = ("std::ops::Index::index", "std::ops::IndexMut::index_mut")
SPLIT = ("core::slice::<impl [T]>::split_at", "core::slice::<impl [T]>::split_at_mut")
ROT = ("core::slice::<impl [T]>::rotate_left", "core::slice::<impl [T]>::rotate_right")
UNWRAPS = ("std::option::Option::<T>::unwrap", "std::option::Option::<T>::expect",
           "std::result::Result::<T, E>::unwrap", "std::result::Result::<T, E>::expect",
           "std::result::Result::<T, E>::unwrap_err", "std::result::Result::<T, E>::expect_err")
PANICS = ("core::panicking::panic_fmt", "core::panicking::panic", "std::rt::begin_panic", "core::panicking::panic_display",
          "core::panicking::assert_failed", "core::panicking::panic_explicit", "core::panicking::unreachable_display")


def get(prog, a):
    return prog.by_path.get(a[0], []) if len(a) == 1 else cm.find_method(prog, a[0], a[1])


def in_boundary(f):
    p = f.path.lstrip("<")
    if any(p.startswith(b) or ("as %s" % b) in f.path for b in BOUNDARY):
        return True
    if f.vis != "pub" and f.kind != "closure" and f.file in BOUNDARY_PRIVATE_FILES:
        return True
    if f.vis != "pub" and f.kind == "fn" and f.file == "src/protected.rs" and p.startswith("protected::") and p.count("::") == 1:
        return True
    return False


LEN_SETTERS = ("std::vec::Vec::<T, A>::resize", "types::ResizableBytes::resize")
LEN_CHANGERS = LEN_SETTERS + ("std::vec::Vec::<T, A>::push", "std::vec::Vec::<T, A>::truncate", "std::vec::Vec::<T, A>::extend_from_slice",
                              "std::vec::Vec::<T, A>::clear", "std::vec::Vec::<T, A>::pop", "std::iter::Extend::extend")


def resize_facts(f, lctx, site_bb):
    """len(R) == n for the last resize(R, n) dominating the site with no other length-changing call on
    R between it and the site"""
    out = []
    changers = {}
    for c in f.calls():
        if (c.path in LEN_CHANGERS or c.rpath in LEN_CHANGERS) and c.args:
            ls = list(operand_locals(c.args[0]))
            if ls:
                changers.setdefault(cm.view_info(f, ls[0])[0], []).append(c)
    for root, cs in changers.items():
        for r in cs:
            if not (r.path in LEN_SETTERS or r.rpath in LEN_SETTERS) or r.bb not in f.dom.get(site_bb, ()) or r.bb == site_bb:
                continue
            between = f.reachable_from_after(r.bb)
            clash = [o for o in cs if o.bb != r.bb and o.bb in between and (site_bb in f.reachable(o.bb))]
            if clash:
                continue
            n = lctx.lin(expr_of_operand(f, r.args[1]))
            ll = lctx.len_of_operand(r.args[0])
            if n is not None and ll is not None:
                out.append(L.eq(ll, n))
    return out


class Site:
    def __init__(self, fn, bb, kind, text, goals, loc, hard=None):
        self.fn = fn
        self.bb = bb
        self.kind = kind
        self.text = text
        self.goals = goals      # list of (constraint, description)
        self.loc = loc
        self.hard = hard        # reason when not expressible as a linear obligation


def sites_of(prog, f):
    ctx = L.Ctx(f, cm.view_info)
    out = []
    reach = f.reachable(0)
    for b in sorted(reach):
        blk = f.blocks[b]
        if blk["cleanup"]:
            continue
        t = blk["t"]
        if t["k"] == "assert":
            msg = t["msg"]
            cond = expr_of_operand(f, t["cond"])
            loc = f.loc(b)
            if msg.startswith("BoundsCheck"):
                msg = "BoundsCheck"
            if msg == "Overflow":
                # cond is (binop).1 ; find the operation
                op = cond.a if cond.k == "field" else None
                tty = f.locals[t["cond"]["l"]]["t"] if t["cond"].get("l") is not None else ""
                signed = tty.startswith("(i")
                if signed and op is not None and op.k == "binop":
                    base = op.a.replace("WithOverflow", "")
                    l, r = ctx.lin(op.b), ctx.lin(op.c)
                    if base in ("Add", "Sub") and l is not None and r is not None:
                        res = L.lin_add(l, r, 1 if base == "Add" else -1)
                        out.append(Site(f, b, "overflow", "(signed) %s %s %s" % (L.lin_repr(l), "+" if base == "Add" else "-", L.lin_repr(r)),
                                        [(L.ge(res, L.lin_const(-(1 << 63))), "no signed underflow"),
                                         (L.ge(L.lin_const((1 << 63) - 1), res), "no signed overflow")], loc))
                        continue
                umax = {"(u8": 255, "(u16": 65535, "(u32": (1 << 32) - 1}.get(tty.split(",")[0], L.USIZE_MAX)
                if op is not None and op.k == "binop":
                    base = op.a.replace("WithOverflow", "")
                    l, r = ctx.lin(op.b), ctx.lin(op.c)
                    if base == "Sub" and l is not None and r is not None:
                        out.append(Site(f, b, "overflow", "%s - %s" % (L.lin_repr(l), L.lin_repr(r)), [(L.ge(l, r), "no underflow")], loc))
                        continue
                    if base == "Add" and l is not None and r is not None:
                        out.append(Site(f, b, "overflow", "%s + %s" % (L.lin_repr(l), L.lin_repr(r)),
                                        [(L.ge(L.lin_const(umax), L.lin_add(l, r)), "no overflow")], loc))
                        continue
                    if base == "Mul" and l is not None and r is not None and (L.lin_is_const(l) or L.lin_is_const(r)):
                        prod = L.lin_scale(r, l[1]) if L.lin_is_const(l) else L.lin_scale(l, r[1])
                        out.append(Site(f, b, "overflow", "%s * %s" % (L.lin_repr(l), L.lin_repr(r)),
                                        [(L.ge(L.lin_const(umax), prod), "no overflow")], loc))
                        continue
                out.append(Site(f, b, "overflow", deep_repr(cond)[:80], [], loc, hard="non-linear arithmetic"))
            elif msg == "BoundsCheck":
                # cond: index < len
                if cond.k == "binop" and cond.a == "Lt":
                    i, n = ctx.lin(cond.b), ctx.lin(cond.c)
                    if i is not None and n is not None:
                        out.append(Site(f, b, "bounds", "%s < %s" % (L.lin_repr(i), L.lin_repr(n)),
                                        [(L.ge(n, L.lin_add(i, L.lin_const(1))), "index in bounds")], loc))
                        continue
                out.append(Site(f, b, "bounds", deep_repr(cond)[:80], [], loc, hard="unrecognised bounds check"))
            elif msg in ("DivisionByZero", "RemainderByZero"):
                d = None
                if cond.k == "binop" and cond.a in ("Eq", "Ne"):
                    d = ctx.lin(cond.b)
                if d is not None:
                    out.append(Site(f, b, "div", "%s != 0" % L.lin_repr(d), [(L.ge(d, L.lin_const(1)), "divisor non-zero")], loc))
                else:
                    out.append(Site(f, b, "div", deep_repr(cond)[:60], [], loc, hard="division"))
            else:
                out.append(Site(f, b, "assert", "%s %s" % (msg, deep_repr(cond)[:60]), [], loc, hard="assertion"))
            continue
        if t["k"] != "call":
            continue
        c = f.call_at(b)
        p = c.path
        loc = c.loc()
        if p in IDX and len(c.args) == 2:
            base = ctx.len_of_operand(c.args[0])
            rng = expr_of_operand(f, c.args[1])
            if base is None:
                # indexing a non-slice container (Vec of blocks...) -> crate impl or unknown
                bt = f.locals[list(operand_locals(c.args[0]))[0]]["t"] if operand_locals(c.args[0]) else "?"
                if c.is_local:
                    continue    # crate-local Index impl: analysed as its own function
                out.append(Site(f, b, "index", "index of %s" % bt[:40], [], loc, hard="length unknown"))
                continue
            if rng.k == "agg":
                nm = (rng.a or "").split("::")[-1]
                vals = [ctx.lin(o) for o in (rng.c or [])]
                goals = []
                if None in vals:
                    out.append(Site(f, b, "index", deep_repr(rng)[:60], [], loc, hard="non-linear range"))
                    continue
                if nm == "Range":
                    goals = [(L.ge(vals[1], vals[0]), "start <= end"), (L.ge(base, vals[1]), "end <= len")]
                elif nm == "RangeFrom":
                    goals = [(L.ge(base, vals[0]), "start <= len")]
                elif nm == "RangeTo":
                    goals = [(L.ge(base, vals[0]), "end <= len")]
                elif nm == "RangeToInclusive":
                    goals = [(L.ge(base, L.lin_add(vals[0], L.lin_const(1))), "end < len")]
                elif nm == "RangeInclusive":
                    goals = []
                elif nm == "RangeFull":
                    continue
                out.append(Site(f, b, "index", "[%s] of len %s" % (deep_repr(rng).split("::")[-1][:50], L.lin_repr(base)), goals, loc,
                                hard=None if goals else "inclusive range"))
            else:
                i = ctx.lin(rng)
                if i is not None:
                    out.append(Site(f, b, "index", "[%s] of len %s" % (L.lin_repr(i), L.lin_repr(base)),
                                    [(L.ge(base, L.lin_add(i, L.lin_const(1))), "index < len")], loc))
                else:
                    out.append(Site(f, b, "index", deep_repr(rng)[:60], [], loc, hard="index expression"))
        elif p in SPLIT:
            base = ctx.len_of_operand(c.args[0])
            k = ctx.lin(expr_of_operand(f, c.args[1]))
            if base is not None and k is not None:
                out.append(Site(f, b, "split_at", "split_at(%s) of len %s" % (L.lin_repr(k), L.lin_repr(base)), [(L.ge(base, k), "mid <= len")], loc))
            else:
                out.append(Site(f, b, "split_at", "split_at", [], loc, hard="length unknown"))
        elif p in cm.COPY and len(c.args) == 2:
            d = ctx.len_of_operand(c.args[0])
            s_ = ctx.len_of_operand(c.args[1])
            if d is not None and s_ is not None:
                out.append(Site(f, b, "copy_from_slice", "len %s <- len %s" % (L.lin_repr(d), L.lin_repr(s_)), [(L.eq(d, s_), "equal lengths")], loc))
            else:
                out.append(Site(f, b, "copy_from_slice", "copy", [], loc, hard="length unknown"))
        elif p in ROT:
            base = ctx.len_of_operand(c.args[0])
            k = ctx.lin(expr_of_operand(f, c.args[1]))
            if base is not None and k is not None:
                out.append(Site(f, b, "rotate", "rotate(%s) of len %s" % (L.lin_repr(k), L.lin_repr(base)), [(L.ge(base, k), "k <= len")], loc))
        elif p.startswith("generic_array::GenericArray::<T, N>::from_") and c.args:
            n = L.typenum_value(c.full)
            s_ = ctx.len_of_operand(c.args[0])
            if n is not None and s_ is not None:
                out.append(Site(f, b, "generic_array", "from_slice(len %s) == %d" % (L.lin_repr(s_), n), [(L.eq(s_, L.lin_const(n)), "exact length")], loc))
            else:
                out.append(Site(f, b, "generic_array", c.full[-60:], [], loc, hard="typenum/length unknown"))
        elif p in UNWRAPS:
            out.append(Site(f, b, "unwrap", "%s on %s" % (c.name, deep_repr(call_arg_exprs(c)[0])[:70]), [], loc, hard="unwrap"))
        elif p in PANICS:
            if c.ln is not None and isinstance(c.ln, list) and False:
                continue
            out.append(Site(f, b, "panic", "explicit panic", [], loc, hard="panic"))
        elif p.endswith("::resize") and len(c.args) >= 2:
            n = ctx.lin(expr_of_operand(f, c.args[1]))
            out.append(Site(f, b, "resize", "resize(%s)" % (L.lin_repr(n) if n else "?"), [], loc, hard="resize"))
    return out, ctx



def io_error_unwrap(c):
    return "std::io::Error>::" in c.full


def range_of(fn, e, depth=0):
    """integer interval (lo, hi) of an expression when it follows from its shape, else None"""
    if e is None or depth > 12:
        return None
    v = evaluate(e, {})
    if isinstance(v, bool):
        return (int(v), int(v))
    if isinstance(v, int):
        return (v, v)
    if e.k == "cast":
        return range_of(fn, e.a, depth + 1)
    if e.k == "field" and e.a.k == "binop" and e.b == "0":
        from ..expr import E
        return range_of(fn, E("binop", e.a.a.replace("WithOverflow", ""), e.a.b, e.a.c), depth + 1)
    if e.k == "binop":
        op = e.a.replace("WithOverflow", "").replace("Unchecked", "")
        if op == "BitAnd":
            for x in (e.b, e.c):
                k = evaluate(x, {})
                if isinstance(k, int) and k >= 0:
                    return (0, k)
        if op == "Rem":
            k = evaluate(e.c, {})
            if isinstance(k, int) and k > 0:
                return (0, k - 1)
        if op in ("Add", "Sub"):
            a, b = range_of(fn, e.b, depth + 1), range_of(fn, e.c, depth + 1)
            if a and b:
                return (a[0] + b[0], a[1] + b[1]) if op == "Add" else (a[0] - b[1], a[1] - b[0])
    if e.k == "field" and e.a.k == "call" and str(e.b).isdigit() and not e.a.a.dest["p"]:
        tt = e.a.a.fn.locals[e.a.a.dest["l"]]["t"]
        if tt.startswith("(") and tt.endswith(")"):
            parts = [x.strip() for x in tt[1:-1].split(",")]
            i = int(e.b)
            if i < len(parts):
                tr = {"u8": (0, 255), "u16": (0, 65535), "u32": (0, (1 << 32) - 1), "bool": (0, 1)}.get(parts[i])
                if tr:
                    return tr
    if e.k == "call":
        ty = e.a.fn.locals[e.a.dest["l"]]["t"] if not e.a.dest["p"] else ""
        tr = {"u8": (0, 255), "u16": (0, 65535), "u32": (0, (1 << 32) - 1), "bool": (0, 1)}.get(ty)
        if tr and not e.a.is_local:
            return tr
        if tr and e.a.is_local is False:
            return tr
        if tr:
            return tr
    if e.k == "call" and e.a.is_local and fn.prog is not None:
        tg = fn.prog.callee_fns(e.a)
        if len(tg) == 1 and tg[0].kind != "closure" and depth < 6:
            g = tg[0]
            return range_of(g, expr_of_local(g, 0), depth + 1)
    return None


def some_edges(f):
    out = {}
    for b in range(f.n):
        t = f.blocks[b]["t"]
        if t["k"] != "switch":
            continue
        e = expr_of_operand(f, t["x"])
        arms = {v: tb for v, tb in t["arms"]}
        if e.k == "call" and e.a.path in ("std::option::Option::<T>::is_none", "std::option::Option::<T>::is_some") and 0 in arms:
            x = call_arg_exprs(e.a)[0]
            if x.k == "field":
                tgt = arms[0] if e.a.path.endswith("is_none") else t["otherwise"]
                out[(b, tgt)] = x.b.split(".")[-1]
        elif e.k == "discr" and _peel_ref(e.a).k == "field" and 1 in arms:
            out[(b, arms[1])] = _peel_ref(e.a).b.split(".")[-1]
        else:
            oe = option_eq_some(e)
            if oe is not None and 0 in arms:
                fld, val, is_ne = oe
                out[(b, arms[0] if is_ne else t["otherwise"])] = fld
    return out


def _peel_ref(e, depth=0):
    """`opt.as_ref()` / `as_mut()` / `as_deref()` keep Some-ness"""
    while e is not None and e.k == "call" and e.a.name in ("as_ref", "as_mut", "as_deref", "as_deref_mut") and e.a.args and depth < 4:
        e = call_arg_exprs(e.a)[0]
        depth += 1
    return e


def option_eq_some(e):
    """`<field> == Some(c)` / `<field> != Some(c)` through Option's PartialEq: (field, c, is_ne)"""
    if e.k != "call" or e.a.name not in ("eq", "ne") or "PartialEq" not in e.a.path or len(e.a.args) != 2:
        return None
    ax = call_arg_exprs(e.a)
    flds = [x for x in ax if x.k == "field"]
    somes = [x for x in ax if x.k == "agg" and x.a == "std::option::Option" and x.b == "Some"]
    if len(flds) != 1 or len(somes) != 1:
        return None
    val = evaluate(somes[0].c[0], {}) if somes[0].c else None
    return flds[0].b.split(".")[-1], (val if isinstance(val, int) and not isinstance(val, bool) else None), e.a.name == "ne"


def ok_postcondition_some(prog, g, memo):
    """fields of the Ok payload struct that are Some on every Ok return of g"""
    if g.key in memo:
        return memo[g.key]
    key0 = g.key
    g = inline(prog, g)      # validation may live in private helpers of the parser
    se = some_edges(g)
    res = None
    for b, kind, e in result_kind_of_ret(g):
        if kind != "ok" or b not in g.reachable(0):
            if kind == "expr" and b in g.reachable(0):
                res = set()
            continue
        known = {fld for edge, fld in se.items() if g.edge_dominates(edge, b)}
        res = known if res is None else (res & known)
    memo[key0] = res or set()
    return memo[key0]


def ok_postcondition_values(prog, g, memo):
    """{field: [(coef_sign, rel, const)...]}: linear facts about `unwrap(<state>.FIELD)` that hold on every
    Ok return of g (from the branch edges dominating each Ok exit)."""
    key = ("vals", g.key)
    if key in memo:
        return memo[key]
    g = inline(prog, g)
    lctx = L.Ctx(g, cm.view_info)
    econs = L.edge_constraints(g, lctx)
    # `field == Some(c)` edges give unwrap(field) == c
    eqs = {}
    for b_ in range(g.n):
        t_ = g.blocks[b_]["t"]
        if t_["k"] != "switch":
            continue
        oe = option_eq_some(expr_of_operand(g, t_["x"]))
        arms_ = {v: tb for v, tb in t_["arms"]}
        if oe is not None and oe[1] is not None and 0 in arms_:
            eqs[(b_, arms_[0] if oe[2] else t_["otherwise"])] = (oe[0], oe[1])
    res = None
    for b, kind, e in result_kind_of_ret(g):
        if kind != "ok" or b not in g.reachable(0):
            if kind == "expr" and b in g.reachable(0):
                res = {}
            continue
        cur = {}
        for lin, rel in L.facts_at(g, b, econs):
            vs = L.lin_vars(lin)
            if len(vs) != 1 or not (isinstance(vs[0], tuple) and vs[0][0] == "expr"):
                continue
            m = re.match(r"^unwrap\((?:as_ref\()?[^()]*(?:\(\))?\.(\w+)\)?\)$", vs[0][1])
            if not m:
                continue
            cur.setdefault(m.group(1), []).append((lin[vs[0]], lin.get(1, 0), rel))
        for edge, (fld, val) in eqs.items():
            if g.edge_dominates(edge, b):
                from fractions import Fraction
                cur.setdefault(fld, []).append((Fraction(1), Fraction(-val), "=="))
        if res is None:
            res = cur
        else:
            res = {k: [x for x in v if x in res.get(k, [])] for k, v in cur.items() if k in res}
    memo[key] = res or {}
    return memo[key]


def caller_supplied_field(f, text):
    m = re.match(r"^_(\d+)((?:\.\w+)+)$", text)
    if not m:
        return False
    l = int(m.group(1))
    if 1 <= l <= f.argc:
        return True
    # a local that is a (clone of a) parameter or of a parameter's field
    from ..core import strip_reborrow
    root = cm.view_info(f, l)[0]
    return 1 <= root <= f.argc


def protected_record_field(prog):
    """name of Protected's field holding Option<storage record> (found by type, not by name)"""
    from .c14 import record_info
    if getattr(prog, "_c04_recfld", None) is None:
        rec = record_info(prog)
        nm = "?"
        adt = prog.adts.get("protected::Protected")
        if rec and adt:
            for fd in adt["variants"][0]["fields"]:
                if rec["short"] in fd["ty"]["t"]:
                    nm = fd["name"]
        prog._c04_recfld = nm
    return prog._c04_recfld


def peel_unwrap_target(e):
    """strip as_ref/as_mut/clone adapters around the unwrapped Option/Result expression"""
    d = 0
    while e is not None and e.k == "call" and e.a.name in ("as_ref", "as_mut", "clone", "as_deref", "map_err") and e.a.args and d < 6:
        e = call_arg_exprs(e.a)[0]
        d += 1
    return e


class Discharger:
    def __init__(self, prog, rep, entries, fns, tag):
        self.prog = prog
        self.rep = rep
        self.entries = {f.key for f in entries}
        self.fns = fns
        self.tag = tag
        self.pre = {}            # callee key -> list of (constraint, description, origin)
        self.post_memo = {}
        self.stats = {"typed_param_calls": 0, "environment": 0, "invariant": 0}
        self.assumed = []

    def contract_facts(self, f, lctx):
        out = []
        for txt in CONTRACTS.get(f.path, []):
            m = re.match(r"len\((\w+)\)(?: \+ (\d+))? >= len\((\w+)\)", txt)
            if m:
                a = L.lin_var(("len", m.group(1)))
                if m.group(2):
                    a = L.lin_add(a, L.lin_const(int(m.group(2))))
                out.append(L.ge(a, L.lin_var(("len", m.group(3)))))
        return out

    def extra_facts(self, f, lins):
        """ranges of opaque expression variables that follow from their shape (x & K, pad16(..))"""
        out = []
        return out

    def analyse(self, f):
        prog, rep = self.prog, self.rep
        sites, lctx = sites_of(prog, f)
        if f.key in getattr(self, "div_only", ()):
            sites = [s_ for s_ in sites if s_.kind == "div"]
        econs = L.edge_constraints(f, lctx)
        contract = self.contract_facts(f, lctx)
        se = some_edges(f)
        is_entry = f.key in self.entries
        results = []
        # call-site obligations from lifted callee preconditions
        for c in f.calls():
            if f.blocks[c.bb]["cleanup"] or c.bb not in f.reachable(0):
                continue
            if "r_key" not in c.f:
                if c.f.get("trait") in ("types::ByteArray", "types::MutByteArray"):
                    self.stats["typed_param_calls"] += 1
                continue
            pres = self.pre.get(c.f["r_key"])
            if not pres:
                continue
            g = prog.by_key[c.f["r_key"]]
            binding = prog.bind_for(c, g, {})
            for con, desc, origin in pres:
                goal = self.substitute(f, lctx, c, g, con, binding)
                if goal is None:
                    results.append((Site(f, c.bb, "precondition", "%s requires %s" % (g.path.split("::")[-1], desc), [], c.loc(), hard="cannot express the callee precondition at this call"), None))
                else:
                    sites.append(Site(f, c.bb, "precondition", "%s requires %s" % (g.name, desc), [(goal, desc)], c.loc()))
        for s in sites:
            facts = L.facts_at(f, s.bb, econs) + contract + resize_facts(f, lctx, s.bb)
            verdict = self.discharge(f, lctx, s, facts, se, econs)
            results.append((s, verdict))
        # obligations produced while linearising (value-preserving casts of parameters)
        for goal, desc in list(lctx.side_goals):
            s = Site(f, 0, "cast", desc, [(goal, desc)], f.loc())
            results.append((s, self.discharge(f, lctx, s, contract, se, econs)))
        return results

    def substitute(self, f, lctx, c, g, con, binding):
        lin, rel = con
        out = {1: lin.get(1, 0)}
        names = {g.local_name(p): p for p in range(1, g.argc + 1)}
        for v, coef in lin.items():
            if v == 1:
                continue
            rep_lin = None
            if isinstance(v, tuple) and v[0] == "len" and v[1] in names:
                rep_lin = lctx.len_of_operand(c.args[names[v[1]] - 1])
            elif isinstance(v, tuple) and v[0] == "local" and v[1] in names:
                rep_lin = lctx.lin(expr_of_operand(f, c.args[names[v[1]] - 1]))
            elif isinstance(v, tuple) and v[0] == "some" and v[1] in names:
                # is field v[2] of the argument Some?  yes if the argument is the Ok payload of a producer whose
                # Ok-postcondition says so; if it is the caller's own parameter the obligation moves up
                e_ = expr_of_operand(f, c.args[names[v[1]] - 1])
                base_ = e_
                while base_ is not None and base_.k == "field":
                    base_ = base_.a
                inner_ = None
                if base_ is not None and base_.k == "call":
                    inner_ = call_arg_exprs(base_.a)[0] if base_.a.path == "std::ops::Try::branch" else base_
                if inner_ is not None and inner_.k == "call" and self.prog.callee_fns(inner_.a) and \
                        all(v[2] in ok_postcondition_some(self.prog, g_, self.post_memo) for g_ in self.prog.callee_fns(inner_.a)):
                    rep_lin = L.lin_const(1)
                elif e_.k == "local" and 1 <= e_.a <= f.argc:
                    rep_lin = L.lin_var(("some", lctx.name(e_.a), v[2]))
                else:
                    rep_lin = L.lin_const(0)
            elif isinstance(v, tuple) and v[0] == "constparam":
                b = binding.get(v[1])
                if b is not None and not b[1] and b[0].isdigit():
                    rep_lin = L.lin_const(int(b[0]))
                else:
                    n = L.array_len_of_ty(f.locals[c.dest["l"]])
                    m_ = re.search(r"\[u8; ([A-Za-z_]\w*)\]", f.locals[c.dest["l"]].get("t", ""))
                    if n is not None:
                        rep_lin = L.lin_const(n)
                    elif b is not None and not b[1] and re.match(r"^[A-Za-z_]\w*$", b[0]):
                        rep_lin = L.lin_var(("constparam", b[0]))       # bound to the caller's own const parameter
                    elif m_:
                        rep_lin = L.lin_var(("constparam", m_.group(1)))  # the array length named in the result type
                    else:
                        # still generic in the caller: keep the caller's own const parameter
                        rep_lin = L.lin_var(v)
            if rep_lin is None:
                return None
            out = L.lin_add(out, L.lin_scale(rep_lin, coef))
        return (out, rel)

    def discharge(self, f, lctx, s, facts, se, econs):
        """returns ('ok', why) / ('lift', constraints) / ('assumed', why) / ('fail', why)"""
        prog = self.prog
        if s.kind == "assert" and "NullPointerDereference" in s.text:
            if "as_ptr" in s.text or "as_mut_ptr" in s.text:
                return ("ok", "as_ptr() of a slice/Vec is never null (std guarantee); debug pointer check")
        if s.kind in ("unwrap",):
            c = f.call_at(s.bb)
            if io_error_unwrap(c):
                self.stats["environment"] += 1
                return ("assumed", "lock/protect refusal is an environment fault, decided by C19 (not input bytes)")
            x = peel_unwrap_target(call_arg_exprs(c)[0])
            # (a) field of a local struct guarded by is_some/is_none edges
            if x is not None and x.k == "field":
                fld = x.b.split(".")[-1]
                if any(fld == n and f.edge_dominates(e, s.bb) for e, n in se.items()):
                    return ("ok", "dominated by the is-Some edge of `%s`" % fld)
                # (b) payload of a callee's Ok result with a Some-postcondition
                base = x.a
                while base is not None and base.k == "field":
                    base = base.a
                if base is not None and base.k == "call":
                    # `helper(..)?` (through Try::branch) or `match helper(..) { Ok(v) => v, .. }`
                    inner = call_arg_exprs(base.a)[0] if base.a.path == "std::ops::Try::branch" else base
                    if inner.k == "call":
                        tg = prog.callee_fns(inner.a)
                        if tg and all(fld in ok_postcondition_some(prog, g, self.post_memo) for g in tg):
                            return ("ok", "Ok-postcondition of %s: `%s` is Some on every Ok return" % (tg[0].name, fld))
                # a record handed in by the caller (a helper taking the parsed value): Some-ness of its field is
                # a precondition, discharged at the call sites from the producer's Ok-postcondition
                if base is not None and base.k == "local" and 1 <= base.a <= f.argc and f.key not in self.entries and x.a is base:
                    var = ("some", lctx.name(base.a), fld)
                    return ("lift", [(({var: Fraction(1), 1: Fraction(-1)}, ">="), "field `%s` of `%s` is Some" % (fld, lctx.name(base.a)))])
                rec_fld = protected_record_field(prog)
                if fld == rec_fld and "protected::Protected" in f.path or (fld == rec_fld and "Protected" in f.locals[1]["t"] if f.argc else False):
                    self.stats["invariant"] += 1
                    return ("assumed", "container invariant: Protected's storage record is Some for every value safe code can hold")
            # (c) try_from(slice).unwrap() into a fixed array
            if x is not None and x.k == "call" and x.a.path in ("std::convert::TryFrom::try_from", "std::convert::TryInto::try_into"):
                n = None
                m = re.search(r"\[u8; (\w+)\]", f.locals[c.dest["l"]]["t"])
                if m:
                    n = int(m.group(1)) if m.group(1).isdigit() else m.group(1)
                ll = L.Ctx(f, cm.view_info).len_of_operand(x.a.args[0])
                if n is not None and ll is not None:
                    goal = L.eq(ll, L.lin_const(n) if isinstance(n, int) else L.lin_var(("constparam", n)))
                    if L.entails(facts + L.nonneg_facts([goal[0]] + [c_[0] for c_ in facts]), goal):
                        return ("ok", "try_from(&[u8]) into [u8; %s]: length %s == %s follows" % (n, L.lin_repr(ll), n))
                    return ("fail", "try_from(..).unwrap(): cannot show len %s == %s" % (L.lin_repr(ll), n))
            # (d) constant-argument calls with reviewed contracts
            if x is not None and x.k == "call":
                r = const_contract(prog, f, x.a)
                if r:
                    return ("ok", r)
            return ("fail", "%s may panic: no dominating Some/Ok fact for %s" % (c.name, deep_repr(call_arg_exprs(c)[0])[:80]))
        if s.kind == "panic":
            pf = L.facts_at(f, s.bb, econs)
            # environment: panic in the Err arm of io::Error
            from .c19 import io_sinks
            if any(getattr(site, "bb", None) == s.bb for site, _ in io_sinks(f)):
                self.stats["environment"] += 1
                return ("assumed", "lock/protect refusal (environment), decided by C19")
            # Protected invariant: `None => panic!("invalid array")`
            # `let Record { field: Some(x), .. } = parse(..)? else { unreachable!() }`: the panic arm needs some
            # field to be None, which the callee's Ok-postcondition excludes - cut the not-Some edge of every
            # test of such a field; the panic must become unreachable
            cut, why = [], []
            for b in range(f.n):
                t = f.blocks[b]["t"]
                if t["k"] != "switch":
                    continue
                e = expr_of_operand(f, t["x"])
                if e.k == "discr" and _peel_ref(e.a).k == "field":
                    fe = _peel_ref(e.a)
                    base = fe.a
                    while base is not None and base.k == "field":
                        base = base.a
                    inner = None
                    if base is not None and base.k == "call":
                        inner = call_arg_exprs(base.a)[0] if base.a.path == "std::ops::Try::branch" else base
                    if inner is not None and inner.k == "call":
                        tg = prog.callee_fns(inner.a)
                        fld = fe.b.split(".")[-1]
                        some_t = [tb for v_, tb in t["arms"] if v_ == 1]
                        if tg and some_t and all(fld in ok_postcondition_some(prog, g_, self.post_memo) for g_ in tg):
                            cut += [(b, x_) for x_ in f.succ[b] if x_ != some_t[0]]
                            why.append(fld)
            if cut and s.bb not in f.reachable(0, cut_edges=cut):
                return ("ok", "the panic arm requires one of %s to be None, excluded by the callee's Ok-postcondition" % sorted(set(why)))
            for b in f.dom.get(s.bb, ()):
                t = f.blocks[b]["t"]
                if t["k"] == "switch":
                    e = expr_of_operand(f, t["x"])
                    if e.k == "discr" and e.a.k == "field" and e.a.b.split(".")[-1] == protected_record_field(prog):
                        self.stats["invariant"] += 1
                        return ("assumed", "container invariant: Protected's storage record is Some (panic in the None arm)")
            if len(pf) >= 1 and f.key not in self.entries:
                # precondition: not all of the facts leading to the panic
                if len(pf) == 1 and pf[0][1] == ">=":
                    return ("lift", [(L.negate(pf[0]), "not(%s >= 0)" % L.lin_repr(pf[0][0]))])
            if pf and L.fm_unsat(pf + L.nonneg_facts([c_[0] for c_ in pf])):
                return ("ok", "panic block is unreachable: its path condition is contradictory")
            return ("fail", "explicit panic reachable (path condition %s)" % [L.lin_repr(c_[0]) + c_[1] + "0" for c_ in pf][:3])
        if s.kind == "resize":
            c = f.call_at(s.bb)
            n = lctx.lin(expr_of_operand(f, c.args[1]))
            if n is None:
                return ("fail", "resize to a non-linear size")
            okv = self.size_ok(f, lctx, n, 0)
            if okv and abs(n.get(1, 0)) <= (1 << 20):
                return ("ok", "allocation size %s is bounded by the input length (its own arithmetic is checked separately)" % L.lin_repr(n))
            return ("fail", "allocation size %s is not bounded by an input length" % L.lin_repr(n))
        if s.hard and not s.goals:
            return ("fail", "cannot express the obligation (%s)" % s.hard)
        lifted = []
        for goal, desc in s.goals:
            allf = facts + self.shape_facts(f, goal) + L.nonneg_facts([goal[0]] + [c_[0] for c_ in facts])
            if L.entails(allf, goal):
                continue
            params = {f.local_name(p) for p in range(1, f.argc + 1)}
            if f.key not in self.entries and goal[1] == ">=":
                # a goal over a loop variable / opaque value with known bounds in terms of the parameters
                # (`pad[i]` for `i in 0..key.len()`): the bound substituted for the variable gives a
                # sufficient condition over the parameters alone, which can be lifted to the callers
                g2 = self.strengthen_to_params(goal, self.shape_facts(f, goal), params)
                if g2 is not None:
                    goal = g2
                    if L.entails(allf, goal):
                        continue
            vs = L.lin_vars(goal[0])
            liftable = f.key not in self.entries and all(
                (isinstance(v, tuple) and ((v[0] in ("len", "local", "some") and v[1] in params) or v[0] == "constparam")) for v in vs)
            split = None if liftable else self.split_multidef(f, goal, facts, econs, params)
            if liftable:
                lifted.append((goal, "%s (%s)" % (desc, s.text)))
            elif split is not None:
                lifted += [(g_, "%s (%s)" % (d_, s.text)) for g_, d_ in split]
            else:
                return ("fail", "%s: cannot show %s from the guards on the path (known: %s)" % (
                    desc, L.lin_repr(goal[0]) + (" >= 0" if goal[1] == ">=" else " == 0"),
                    [L.lin_repr(c_[0]) + (">=0" if c_[1] == ">=" else "==0") for c_ in facts][:4]))
        if lifted:
            return ("lift", lifted)
        return ("ok", "entailed by %d dominating fact(s)" % len(facts))

    def split_multidef(self, f, goal, facts, econs, params):
        """The goal mentions the length of a slice local that has several definitions (e.g.
        `let k = if n <= 128 { key } else { &hashed }`): decide it definition by definition, each under
        the branch facts of that definition.  A definition under which the goal fails is acceptable only
        if it can be excluded by a precondition on the parameters (the negation of its single branch
        fact), which is then lifted to the callers.  Returns the list of lifted goals ([] if none is
        needed) or None if the goal cannot be decided this way."""
        lctx = L.Ctx(f, cm.view_info)
        for v in L.lin_vars(goal[0]):
            if not (isinstance(v, tuple) and v[0] == "len"):
                continue
            locs = [l for l in range(f.argc + 1, len(f.locals)) if lctx.name(l) == v[1] and len(def_sites(f, l)) > 1]
            if len(locs) != 1:
                continue
            l = locs[0]
            out = []
            for d in def_sites(f, l):
                ln = lctx._length_of_def(l, d, 1)
                if ln is None or v in L.lin_vars(ln):
                    return None
                coef = goal[0][v]
                g_lin = dict(goal[0])
                g_lin.pop(v)
                g_d = (L.lin_add(g_lin, L.lin_scale(ln, coef)), goal[1])
                fd = L.facts_at(f, d[0], econs)
                allf = facts + fd + self.shape_facts(f, g_d) + L.nonneg_facts([g_d[0]] + [c_[0] for c_ in facts + fd])
                if L.entails(allf, g_d):
                    continue
                # exclude this definition by a precondition: it must be guarded by exactly one fact over
                # the parameters
                own = [c_ for c_ in fd if c_ not in facts]
                if f.key in self.entries or len(own) != 1 or own[0][1] != ">=":
                    return None
                if not all(isinstance(x, tuple) and ((x[0] in ("len", "local") and x[1] in params) or x[0] == "constparam") for x in L.lin_vars(own[0][0])):
                    return None
                out.append((L.negate(own[0]), "the definition of `%s` at %s is never taken: not(%s >= 0)" % (v[1], f.loc(d[0]), L.lin_repr(own[0][0]))))
            return out
        return None

    def size_ok(self, f, lctx, n, depth):
        """every term of an allocation size is an input length (x1 or x2), a const generic, or a size
        the caller supplies as such: an integer parameter of a public function / a field of a
        parameter (configuration); for a private function's size parameter, the argument at every
        call site must satisfy the same rule."""
        for v, coef in n.items():
            if v == 1:
                continue
            if isinstance(v, tuple) and v[0] == "len" and 0 < coef <= 2:
                continue
            if isinstance(v, tuple) and v[0] == "constparam":
                continue
            if isinstance(v, tuple) and v[0] == "field" and caller_supplied_field(f, str(v[1])):
                continue
            if isinstance(v, tuple) and v[0] == "local" and isinstance(v[1], str) and v[1].count(".") == 1 and \
                    any(lctx.name(p_) == v[1].split(".")[0] for p_ in range(1, f.argc + 1)):
                continue        # integer field of a record parameter (configuration the caller supplies)
            if isinstance(v, tuple) and v[0] == "local":
                ps = [p_ for p_ in range(1, f.argc + 1) if f.local_name(p_) == v[1]]
                if ps:
                    if f.vis == "pub" or f.key in self.entries or depth >= 3:
                        continue
                    good = True
                    for g in self.prog.callers(f):
                        for c in g.calls():
                            if f in self.prog.callee_fns(c) and len(c.args) >= ps[0]:
                                gl = L.Ctx(g, cm.view_info)
                                m = gl.lin(expr_of_operand(g, c.args[ps[0] - 1]))
                                if m is None or not self.size_ok(g, gl, m, depth + 1):
                                    good = False
                    if good:
                        continue
            return False
        return True

    def strengthen_to_params(self, goal, sfacts, params):
        lin = dict(goal[0])

        def is_param_var(v):
            return isinstance(v, tuple) and ((v[0] in ("len", "local", "some") and v[1] in params) or v[0] == "constparam")
        changed = False
        for v in list(L.lin_vars(lin)):
            if is_param_var(v):
                continue
            coef = lin[v]
            repl = None
            for fl, rel in sfacts:
                if rel != ">=" or v not in fl:
                    continue
                others = [w for w in L.lin_vars(fl) if w != v]
                if not all(is_param_var(w) for w in others):
                    continue
                cv = fl[v]
                # fl: cv*v + rest >= 0
                rest = {k_: x_ for k_, x_ in fl.items() if k_ != v}
                if coef < 0 and cv < 0:       # v <= rest/(-cv): upper bound
                    repl = L.lin_scale(rest, Fraction(1) / (-cv))
                elif coef > 0 and cv > 0:     # v >= -rest/cv: lower bound
                    repl = L.lin_scale(rest, Fraction(-1) / cv)
                if repl is not None:
                    break
            if repl is None:
                return None
            del lin[v]
            lin = L.lin_add(lin, L.lin_scale(repl, coef))
            changed = True
        return (lin, ">=") if changed else None

    def shape_facts(self, f, goal):
        """interval facts for opaque expression variables occurring in the goal"""
        out = []
        for v in L.lin_vars(goal[0]):
            if isinstance(v, tuple) and v[0] in ("expr", "field"):
                m = re.match(r"^unwrap\((?:as_ref\()?branch\((\w+)\(.*\)\)\.Continue\.0\.(\w+)\)?\)$", v[1])
                if m:
                    for c in f.calls():
                        if c.name == m.group(1):
                            for g in self.prog.callee_fns(c):
                                for coef, const, rel in ok_postcondition_values(self.prog, g, self.post_memo).get(m.group(2), []):
                                    out.append(({v: coef, 1: const}, rel))
                            break
                self._found_ty = None
                e = self.find_expr(f, v[1])
                if e is not None:
                    r = range_of(f, e)
                    if not r and self._found_ty in ("u8", "u16", "u32", "bool"):
                        # the value lives in a local of a narrow unsigned type (e.g. a payload bound by a pattern)
                        r = {"u8": (0, 255), "u16": (0, 65535), "u32": (0, (1 << 32) - 1), "bool": (0, 1)}[self._found_ty]
                    if r:
                        out.append(L.ge(L.lin_var(v), L.lin_const(r[0])))
                        out.append(L.ge(L.lin_const(r[1]), L.lin_var(v)))
                    # the induction variable of `for i in a..b` / `a..=b`: a <= i < b (<= b)
                    if e.k == "field" and e.b == "Some.0" and e.a.k == "call" and e.a.a.name == "next":
                        it = call_arg_exprs(e.a.a)[0]
                        hops = 0
                        while it is not None and it.k == "call" and it.a.name in ("into_iter", "iter") and it.a.args and hops < 3:
                            it = call_arg_exprs(it.a)[0]
                            hops += 1
                        if it is not None and it.k == "agg" and (it.a or "").split("::")[-1] in ("Range", "RangeInclusive") and it.c and len(it.c) >= 2:
                            lc = L.Ctx(f, cm.view_info)
                            lo_, hi_ = lc.lin(it.c[0]), lc.lin(it.c[1])
                            if lo_ is not None:
                                out.append(L.ge(L.lin_var(v), lo_))
                            if hi_ is not None:
                                out.append(L.ge(L.lin_add(hi_, L.lin_const(0 if it.a.endswith("RangeInclusive") else -1)), L.lin_var(v)))
                    # base64 `decode_slice(input, output)` returns the number of bytes written: <= output.len()
                    x_ = e
                    hops_ = 0
                    while x_ is not None and hops_ < 6:
                        hops_ += 1
                        if x_.k == "field":
                            x_ = x_.a
                        elif x_.k == "call" and x_.a.name in ("ok", "unwrap", "expect", "branch", "unwrap_or_default") and x_.a.args:
                            x_ = call_arg_exprs(x_.a)[0]
                        else:
                            break
                    if x_ is not None and x_.k == "call" and x_.a.path.startswith("base64::Engine::decode_slice") and len(x_.a.args) == 3:
                        lc = L.Ctx(x_.a.fn, cm.view_info)
                        ol = lc.len_of_operand(x_.a.args[2]) if x_.a.fn is f else None
                        if ol is not None:
                            out.append(L.ge(ol, L.lin_var(v)))
                            out.append(L.ge(L.lin_var(v), L.lin_const(0)))
                    if e.k == "call" and e.a.path in ("std::cmp::min", "std::cmp::Ord::min"):
                        lc = L.Ctx(f, cm.view_info)
                        for a in call_arg_exprs(e.a):
                            la = lc.lin(a)
                            if la is not None:
                                out.append(L.ge(la, L.lin_var(v)))
        return out

    def type_of_text(self, f, text):
        """type of a plain local whose expression prints as `text` (the local a payload was bound to)"""
        for b, i, st in f.assigns():
            if not st["place"]["p"] and st["rv"]["k"] == "use" and st["rv"]["x"].get("k") in ("copy", "move"):
                if deep_repr(expr_of_operand(f, st["rv"]["x"])) == text:
                    return f.locals[st["place"]["l"]].get("t")
        return None

    def find_expr(self, f, text):
        for b in range(f.n):
            for st in f.blocks[b]["s"]:
                if st["k"] != "assign":
                    continue
                for o in ([st["rv"].get("x")] if st["rv"].get("x") else []) + st["rv"].get("ops", []) + [st["rv"].get("l"), st["rv"].get("r")]:
                    if o and o.get("k") in ("copy", "move"):
                        e = expr_of_operand(f, o)
                        if deep_repr(e) == text:
                            self._found_ty = f.locals[o["l"]].get("t") if not o["p"] else self.type_of_text(f, text)
                            return e
            t = f.blocks[b]["t"]
            if t["k"] == "call":
                for a in t["args"]:
                    if a.get("k") in ("copy", "move"):
                        e = expr_of_operand(f, a)
                        if deep_repr(e) == text:
                            return e
        return None


def const_contract(prog, f, call):
    """reviewed contracts for calls whose fallibility depends only on constant arguments"""
    rp = call.rpath
    ax = call_arg_exprs(call)
    if rp.endswith("crypto_generichash::crypto_generichash_init"):
        key_none = ax[0].k == "agg" and ax[0].b == "None"
        n = evaluate(ax[1], {})
        lo = prog.consts.get("constants::CRYPTO_GENERICHASH_BYTES_MIN", {}).get("v")
        hi = prog.consts.get("constants::CRYPTO_GENERICHASH_BYTES_MAX", {}).get("v")
        if key_none and isinstance(n, int) and lo is not None and lo <= n <= hi:
            return "crypto_generichash_init(None, %d): constant output length within [%s, %s], no key" % (n, lo, hi)
    if rp.endswith("crypto_generichash::crypto_generichash_final"):
        # final(state, out): Ok when out.len() equals the outlen the state was initialised with
        st = ax[0]
        d = 0
        while st is not None and st.k == "call" and st.a.name in ("expect", "unwrap") and d < 4:
            st = call_arg_exprs(st.a)[0]
            d += 1
        if st is not None and st.k == "call" and st.a.rpath.endswith("crypto_generichash_init"):
            n = evaluate(call_arg_exprs(st.a)[1], {})
            ll = L.Ctx(f, cm.view_info).len_of_operand(call.args[1])
            if isinstance(n, int) and ll is not None and L.lin_is_const(ll) and ll[1] == n:
                return "crypto_generichash_final into a %d-byte buffer from a state initialised with outlen %d" % (n, n)
    return None


def run(ctx, rep):
    rep.explanation = EXPLANATION
    rep.not_decided = NOT_DECIDED
    prog = ctx.prog("full")
    check(ctx, rep, prog, "")


def check(ctx, rep, prog, tag, entries_spec=None):
    entries = []
    for a in (entries_spec or ENTRIES):
        fs = get(prog, a)
        if not fs:
            rep.violation("ANCHOR", "::".join(a) + tag, "untrusted-input entry point not found")
        entries += fs
    scope = {}

    def visit(fn, binding, chain):
        if fn.key not in scope:
            scope[fn.key] = chain
    prog.reach_ctx(entries, visit, stop=lambda f: in_boundary(f) and f not in entries)
    # every function in scope is analysed as a view in which closures of std combinators and callable
    # values are folded in, so a guard written as `(len >= N).then(..).ok_or_else(..)?` protects the code
    # that follows it exactly like an inline `if`
    views = {}

    def view(g):
        if g.key not in views:
            # (named helpers are not folded in here: the length engine handles them through lifted
            # preconditions and Ok-summaries, which keeps the primitive boundary intact)
            # ... except higher-order helpers: a helper that is handed a closure / function item at this
            # call (`ensure(ok, || err)`, `split_at_least(b, n, || err)`, `with_key(.., |k| ..)`) is folded in
            # together with the closure, which otherwise could only be analysed out of context
            def hof(call, t):
                if t.vis == "pub" or t.kind == "closure" or in_boundary(t):
                    return False
                # small private helpers that only hand back views of their arguments (a slice, a tuple
                # or private struct of slices: `split_sealed(c) -> (&[u8], &[u8])`, `Framed::split(c)`)
                rt = t.locals[0]["t"]
                if ("&" in rt or "<'" in rt) and t.n <= 16:
                    return True     # also `Option<(&[u8], &[u8])>` / `Result<&[u8], _>`: checked views
                if os.environ.get("C04_FOLD") and t.n <= int(os.environ.get("C04_FOLD")):
                    return True
                for a in call.args:
                    if a.get("k") == "const" and "fn_key" in a:
                        return True
                    ls_ = call.ctx_locals if call.ctx_locals is not None else call.fn.locals
                    if a.get("k") in ("copy", "move") and not a["p"] and a["l"] < len(ls_) and ls_[a["l"]].get("k") == "closure":
                        return True
                return False
            views[g.key] = inline(prog, g, pick=hof) if g.kind != "closure" else g
        return views[g.key]
    entries = [view(e) for e in entries]
    fns = [view(prog.by_key[k]) for k in scope if not in_boundary(prog.by_key[k]) or k in {e.key for e in entries}]
    # closure bodies that were folded into their parent's view are analysed there, in context
    folded = {p_ for v_ in fns for p_ in getattr(v_, "inlined", [])}
    fns = [g for g in fns if not (g.kind == "closure" and g.path in folded)]
    pass
    debug = os.environ.get("C04_DEBUG")
    # boundary functions called directly from in-scope code: their division/remainder sites (divisor built
    # from parameters) are lifted as preconditions -- a zero divisor is a panic no primitive contract excuses
    in_keys = {f.key for f in fns}
    bfns = []
    for f in fns:
        for c in f.calls():
            for t in prog.callee_fns(c):
                if t.key not in in_keys and in_boundary(t) and t not in bfns and t.kind != "closure":
                    bfns.append(t)
    D = Discharger(prog, rep, entries, fns, tag)
    D.div_only = {t.key for t in bfns}
    fns = fns + bfns
    # callees first: iterate to a fixpoint on lifted preconditions
    order = sorted(fns, key=lambda f: f.path)
    final = {}
    for rnd in range(6):
        changed = False
        for f in order:
            res = D.analyse(f)
            final[f.key] = res
            pres = []
            for s, v in res:
                if v and v[0] == "lift":
                    for con, desc in v[1]:
                        pres.append((con, desc, s.loc))
            old = D.pre.get(f.key, [])
            if [repr(p[0]) for p in pres] != [repr(p[0]) for p in old]:
                D.pre[f.key] = pres
                changed = True
        if not changed:
            break
    n_sites = 0
    for f in order:
        for s, v in final[f.key]:
            n_sites += 1
            inst = "%s|%s|%s%s" % (f.path, s.kind, s.text[:70], tag)
            if v is None:
                rep.violation("TOTAL", inst, s.hard or "undischarged", loc=s.loc)
            elif v[0] == "ok":
                rep.ob("TOTAL", inst, True, v[1], loc=s.loc)
            elif v[0] == "assumed":
                rep.ob("ASSUMED", inst, True, v[1], loc=s.loc)
            elif v[0] == "lift":
                callers = [c for g in fns for c in g.calls() if c.f.get("r_key") == f.key]
                if f.key in D.entries:
                    rep.violation("TOTAL", inst, "entry point cannot discharge: %s" % [d for _, d in v[1]], loc=s.loc)
                else:
                    rep.ob("LIFTED", inst, True, "precondition %s lifted to %d resolved call site(s)" % ([d for _, d in v[1]], len(callers)), loc=s.loc)
            else:
                rep.violation("TOTAL", inst, v[1], loc=s.loc)
            if debug:
                print("%-6s %-26s %-14s %s  [%s] %s" % (v[0] if v else "NONE", f.path.split("::")[-1][:26], s.kind, s.text[:60], s.loc, (v[1] if v and isinstance(v[1], str) else "")[:110]))
    if entries_spec is None:
        rep.floor("panic-capable sites in scope" + tag, n_sites, 100)
        rep.floor("entry points" + tag, len(entries), 40)
    else:
        rep.floor("panic-capable sites in scope" + tag, n_sites, 1)
    rep.extra["scope_functions"] = len(fns)
    rep.extra["boundary"] = list(BOUNDARY) + ["non-public fns of %s" % x for x in BOUNDARY_PRIVATE_FILES] + ["non-public free fns of src/protected.rs"]
    rep.extra["stats"] = D.stats
    rep.note("typed-parameter contract: %d unresolved ByteArray/MutByteArray calls on generic container parameters are not lifted (documented panics of the convenience impls for Vec/[u8])" % D.stats["typed_param_calls"])
    for k, txts in CONTRACTS.items():
        rep.assume("buffer contract %s: %s" % (k, "; ".join(txts)))
