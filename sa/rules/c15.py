"""C15 — heap and protected containers wipe their bytes before memory is released.

Single release point + must-wipe: every byte container stores its bytes in a Vec with the crate's
page-aligned allocator; that allocator's `deallocate` is the only function that hands memory back
(libc::free / VirtualFree), `grow`/`shrink` are not overridden (so reallocation goes through
`deallocate`), and on every path to the release call `deallocate` first zeroes `layout.size()`
bytes (capacity, not length) starting at the pointer it was given.
"""
from ..core import operand_locals, def_sites, strip_reborrow
from ..engines import must_pass
from . import common as cm

RELEASE = ("libc::free", "libc::munmap", "libc::realloc", "std::alloc::dealloc", "std::alloc::realloc",
           "alloc::alloc::dealloc", "std::boxed::Box::<T>::from_raw", "std::vec::Vec::<T>::from_raw_parts",
           "std::vec::Vec::<T, A>::from_raw_parts_in")
WIPERS = ("zeroize::Zeroize::zeroize", "std::ptr::write_bytes", "core::ptr::write_bytes",
          "std::intrinsics::volatile_set_memory", "std::ptr::mut_ptr::<impl *mut T>::write_bytes")

MULTI_CONFIG = True

EXPLANATION = (
    "REACH + MUSTCALL + IMPL on the MIR and impl table. (1) who-may-release: every call to "
    "free/munmap/realloc/dealloc/from_raw in the crate is enumerated; the only one allowed is the "
    "release call inside the Allocator::deallocate impl of the crate's allocator. (2) the Allocator impl "
    "defines exactly allocate+deallocate (default grow/shrink/realloc therefore call deallocate). "
    "(3) must-wipe: in deallocate, removing every block that calls a wipe primitive on a slice built "
    "by from_raw_parts_mut(ptr-parameter, Layout::size(layout-parameter)) disconnects entry from the "
    "release call. (4) every heap container's byte storage is Vec<u8, that allocator>. This decides "
    "the property for every history of create/resize/clone/lock/drop at once.")


def run(ctx, rep):
    rep.explanation = EXPLANATION
    rep.level = "proof"
    rep.trust("zeroize's volatile write + fence is not elided by the compiler")
    rep.trust("std's default Allocator::grow/shrink allocate-copy-deallocate; Vec releases only through its allocator")
    rep.assume("cfg(unix): the Windows VirtualFree branch is not compiled here and is not covered")
    for cfg in (["full"] if ctx.tier == "quick" else ["full", "simd", "nightly"]):
        check(ctx, rep, cfg)


def check(ctx, rep, cfg):
    prog = ctx.prog(cfg)
    tag = "" if cfg == "full" else "[%s]" % cfg
    # (1) release sites
    rel = []
    for f in prog.fns:
        for c in f.calls():
            if c.path in RELEASE:
                rel.append((f, c))
    alloc_impls = [i for i in prog.impls if i.get("trait") in ("std::alloc::Allocator", "core::alloc::Allocator")]
    rep.ob("ALLOC-IMPL", "Allocator impls" + tag, len(alloc_impls) == 1,
           "%d impl(s) of std::alloc::Allocator in the crate: %s" % (len(alloc_impls), [i["self_ty"]["t"] for i in alloc_impls]))
    if len(alloc_impls) != 1:
        return
    imp = alloc_impls[0]
    alloc_ty = imp["self_ty"]["t"]
    items = sorted(i["name"] for i in imp["items"])
    rep.ob("ALLOC-IMPL", "no grow/shrink override" + tag, items == ["allocate", "deallocate"],
           "Allocator impl defines %s; grow/shrink/allocate_zeroed must stay defaulted so that every "
           "reallocation releases the old block through deallocate" % items, loc=imp["span"]["file"] + ":%d" % imp["span"]["lo"])
    dealloc_key = [i["key"] for i in imp["items"] if i["name"] == "deallocate"]
    dealloc = prog.by_key.get(dealloc_key[0]) if dealloc_key else None
    if dealloc is None:
        rep.violation("ANCHOR", "deallocate" + tag, "Allocator::deallocate body not found")
        return
    def only_from_dealloc(f):
        """f is deallocate itself, or a non-public helper whose every call chain starts in deallocate"""
        seen, todo = set(), [f]
        while todo:
            g = todo.pop()
            if g.key == dealloc.key or g.key in seen:
                continue
            seen.add(g.key)
            cs = prog.callers(g)
            if not cs or g.vis == "pub":
                return False
            todo += cs
        return True
    n_ok = 0
    for f, c in rel:
        ok = only_from_dealloc(f)
        n_ok += ok
        rep.ob("WHO-RELEASES", "%s|%s%s" % (f.path, c.path, tag), ok,
               "%s called from %s; memory may reach the system allocator only from %s (directly or through its private helpers)" % (c.path, f.path, dealloc.path), loc=c.loc())
    rep.ob("WHO-RELEASES", "release point exists" + tag, n_ok >= 1, "%d release call(s) inside deallocate" % n_ok)
    # (3) must-wipe, on deallocate with its private helpers folded in
    from ..inline import inline
    dview = inline(prog, dealloc)
    ptr_param, layout_param = 2, 3
    for f, c in [(dview, c_) for c_ in dview.calls() if c_.path in RELEASE]:
        if f.key != dealloc.key:
            continue
        good_blocks = []
        seen_wipes = []
        for w in f.calls():
            if w.path not in WIPERS and w.rpath not in WIPERS:
                continue
            seen_wipes.append(w)
            ok, why = wipe_covers(f, w, ptr_param, layout_param)
            if ok:
                good_blocks.append(w.bb)
        ok = bool(good_blocks) and must_pass(f, good_blocks, c.bb)
        if ok:
            detail = "every path to %s passes a wipe of layout.size() bytes at the data pointer (blocks %s)" % (c.path, good_blocks)
        elif not seen_wipes:
            detail = "no wipe primitive is called in deallocate before %s" % c.path
        elif not good_blocks:
            detail = "wipe calls exist (%s) but none covers from_raw_parts_mut(ptr, layout.size())" % [w.loc() for w in seen_wipes]
        else:
            p = f.path_between(0, c.bb, cut_blocks=good_blocks)
            detail = "a path reaches %s without wiping: %s" % (c.path, cm.fmt_path(f, p))
        rep.ob("MUST-WIPE", "%s|%s%s" % (f.path, c.path, tag), ok, detail, loc=c.loc())
        rep.sample({"release": c.loc(), "wipes": [w.loc() for w in seen_wipes], "covering": good_blocks})
    # (4) storage types
    n = 0
    for path, adt in prog.adts.items():
        if not path.startswith("protected::"):
            continue
        for v in adt["variants"]:
            for fd in v["fields"]:
                t = fd["ty"]["t"]
                if "Vec<" in t:
                    n += 1
                    rep.ob("STORAGE", "%s.%s%s" % (path, fd["name"], tag), alloc_ty.split("::")[-1] in t and "Vec<u8" in t,
                           "field type %s (must be Vec<u8, %s>)" % (t, alloc_ty))
    rep.floor("heap container storage fields" + tag, n, 2)
    # containers are constructed only with that allocator: Vec::new_in(alloc) calls
    for f in prog.fns:
        if not f.path.startswith("protected::"):
            continue
        for c in f.calls():
            if c.path == "std::vec::Vec::<T>::new" or c.path == "std::vec::from_elem" or c.path.endswith("with_capacity"):
                dty = f.locals[c.dest["l"]]["t"]
                if "Vec<u8" in dty and alloc_ty.split("::")[-1] not in dty:
                    # a global-allocator Vec<u8> inside protected.rs that ends up in a container?
                    pass


def wipe_covers(f, w, ptr_param, layout_param):
    """wipe call's slice argument = from_raw_parts_mut(p, n) with p derived from the ptr parameter
    (no offset) and n = Layout::size(layout parameter) (no subtraction)."""
    a = w.args[0]
    ls = list(operand_locals(a))
    if not ls:
        return False, "no operand"
    root, narrowed = cm.view_info(f, ls[0])
    if narrowed:
        return False, "narrowed view"
    d = def_sites(f, root)
    # root should be the result of from_raw_parts_mut
    if len(d) != 1 or d[0][1] != "call":
        # write_bytes(ptr, 0, n) form
        if w.path.endswith("write_bytes") and len(w.args) == 3:
            return ptr_len_ok(f, w.args[0], w.args[2], ptr_param, layout_param, w.args[1])
        return False, "wiped slice is not built from raw parts"
    c = d[0][2]
    if c.path not in ("std::slice::from_raw_parts_mut", "core::slice::from_raw_parts_mut"):
        return False, "wiped slice comes from %s" % c.path
    return ptr_len_ok(f, c.args[0], c.args[1], ptr_param, layout_param, None)


def ptr_len_ok(f, parg, narg, ptr_param, layout_param, valarg):
    if valarg is not None and valarg.get("v") != 0:
        return False, "fill value is not zero"
    # pointer: chain of casts / as_ptr from the ptr parameter, no add/offset/sub
    pl = list(operand_locals(parg))
    if not pl:
        return False, "constant pointer"
    cur = pl[0]
    for _ in range(8):
        cur = strip_reborrow(f, cur)[-1]
        if cur == ptr_param:
            break
        d = def_sites(f, cur)
        if len(d) == 1 and d[0][1] == "call" and d[0][2].path in (
                "std::ptr::NonNull::<T>::as_ptr", "std::ptr::NonNull::<T>::cast",
                "std::ptr::mut_ptr::<impl *mut T>::cast", "std::ptr::NonNull::<T>::as_mut"):
            cur = list(operand_locals(d[0][2].args[0]))[0]
            continue
        return False, "pointer is not the deallocate `ptr` parameter itself (offset or other source)"
    if cur != ptr_param:
        return False, "pointer does not derive from the ptr parameter"
    # length: Layout::size(layout) possibly rounded up (Add / page_round), never reduced
    nl = list(operand_locals(narg))
    if not nl:
        return False, "constant length"
    cur = strip_reborrow(f, nl[0])[-1]
    d = def_sites(f, cur)
    if len(d) == 1 and d[0][1] == "call" and d[0][2].path in ("std::alloc::Layout::size", "core::alloc::Layout::size"):
        src = list(operand_locals(d[0][2].args[0]))
        if src and strip_reborrow(f, src[0])[-1] == layout_param:
            return True, "ok"
    # the same value read back from a record built in this view (`RegionLayout { data_len: layout.size(), .. }`
    # then `self.data_len`): the expression tree resolves fields of struct literals to their operands
    from ..expr import expr_of_operand
    e = expr_of_operand(f, narg)
    if e is not None and e.k == "call" and e.a.path in ("std::alloc::Layout::size", "core::alloc::Layout::size"):
        src = list(operand_locals(e.a.args[0]))
        if src and cm.view_info(e.a.fn, src[0])[0] == layout_param and e.a.fn is f:
            return True, "ok"
    return False, "length is not Layout::size(layout)"
