"""C10 — password-hash strings: encoder/parser agreement, verify, needs-rehash, parser guards."""
import re

from ..core import operand_locals
from ..engines import auth_fixpoint, returns_result
from ..expr import (expr_of_operand, call_arg_exprs, evaluate, result_kind_of_ret, deep_repr, atoms_of,
                    expr_of_local, E)
from ..guards import edge_facts, facts_at
from . import common as cm

EXPLANATION = (
    "ENCODER: the string produced by the encoder depends on every field the parser fills (hash, salt, "
    "algorithm, opslimit, memlimit) and the algorithm names the parser accepts are a subset of those the "
    "encoder can emit (string constants in the two MIR bodies); version and p=1 are emitted from the Argon2 "
    "version constant. PARSER: every Ok exit of the parser is dominated by the is-Some edges of all seven "
    "fields and by version==19 and parallelism==1. VERIFY: crypto_pwhash_str_verify returns Ok only through "
    "ct_eq(recomputed hash, parsed hash) where the Argon2 operands are the parsed t, m, p, salt and type. "
    "REHASH: needs_rehash returns Ok(false) only behind the equal edges of both cost comparisons and Ok(true) "
    "only behind a not-equal edge; both comparisons are between convert_costs(opslimit, memlimit) and the "
    "parsed costs.")
NOT_DECIDED = ("that libsodium accepts dryoc's strings and vice versa (byte-level base64/format interop), "
               "re-encoding equality for every valid string.")

PARSED = ["pwhash", "salt", "type_", "t_cost", "m_cost", "parallelism", "version"]


def str_consts(fns):
    out = set()
    for f in fns:
        for b in f.blocks:
            for s in b["s"]:
                _scan(s, out)
            _scan(b["t"], out)
        for pj in f.j.get("promoted", []):
            for b in pj["blocks"]:
                for s in b["s"]:
                    _scan(s, out)
    return out


def _scan(o, out):
    if isinstance(o, dict):
        if o.get("k") == "const" and "txt" in o and o.get("ty", "").startswith("&"):
            out.add(o["txt"])
        for v in o.values():
            _scan(v, out)
    elif isinstance(o, list):
        for v in o:
            _scan(v, out)


def run(ctx, rep):
    rep.explanation = EXPLANATION
    rep.not_decided = NOT_DECIDED
    rep.trust("base64 crate; format! machinery")
    prog = ctx.prog("full")
    # encoder: the function below the public string producers that formats and base64-encodes;
    # parser: the function below the public string consumers that base64-decodes
    prod = prog.by_path.get("classic::crypto_pwhash::crypto_pwhash_str", []) + cm.find_method(prog, "pwhash::PwHash", "to_string")
    cons = prog.by_path.get("classic::crypto_pwhash::crypto_pwhash_str_verify", []) + prog.by_path.get("classic::crypto_pwhash::crypto_pwhash_str_needs_rehash", [])
    enc = [prog.by_key[k] for k in prog.reach_fns(prod) if any(c.path == "base64::Engine::encode" for c in prog.by_key[k].calls())
           and any(c.path in ("std::fmt::format", "alloc::fmt::format") for c in prog.by_key[k].calls())]
    par = [prog.by_key[k] for k in prog.reach_fns(cons) if any(c.path == "base64::Engine::decode" for c in prog.by_key[k].calls())]
    if not enc or not par:
        rep.violation("ANCHOR", "encoder/parser", "pwhash_to_string / parse_encoded_pwhash not found (base64 feature)")
        return
    enc, par = enc[0], par[0]
    encoder(rep, prog, enc, par)
    parser(rep, prog, par)
    verify(rep, prog, par)
    rehash(rep, prog, par)


ALGO = re.compile(r'^"(argon2\w*)"$')


def encoder(rep, prog, enc, par):
    e_alg = {m.group(1) for s in str_consts(prog.unit(enc)) for m in [ALGO.match(s)] if m}
    # format-string template may carry the literal too
    for s in str_consts(prog.unit(enc)):
        for m in re.finditer(r"\$(argon2\w*)\$", s):
            e_alg.add(m.group(1))
    p_alg = {m.group(1) for s in str_consts(prog.unit(par)) for m in [ALGO.match(s)] if m and m.group(1) != "argon2"}
    rep.ob("ENCODER", "algorithm names: parser accepts ⊆ encoder emits", bool(p_alg) and p_alg <= e_alg,
           "parser accepts %s, encoder can emit %s" % (sorted(p_alg), sorted(e_alg)), loc=enc.loc())
    # every parameter of the encoder reaches the formatted string
    fmt = [c for c in enc.calls() if c.path in ("std::fmt::format", "alloc::fmt::format")]
    back = set()
    for c in fmt:
        for a in c.args:
            back |= enc.backward_slice(operand_locals(a))
    back |= enc.backward_slice([0])
    # control dependence: a value in the slice that is assigned under a branch on a parameter
    from ..core import def_sites
    for b in range(enc.n):
        t = enc.blocks[b]["t"]
        if t["k"] != "switch":
            continue
        dep = enc.backward_slice(operand_locals(t["x"]))
        edges = [(b, tb) for _, tb in t["arms"]] + [(b, t["otherwise"])]
        for l in list(back):
            for db, kind, payload in def_sites(enc, l):
                if any(enc.edge_dominates(e, db) for e in edges) and not all(enc.edge_dominates(e, db) for e in edges):
                    back |= dep
    for p in cm.params_of(enc):
        rep.ob("ENCODER", "pwhash_to_string uses `%s`" % cm.param_name(enc, p), p in back,
               "parameter `%s` %s the formatted string" % (cm.param_name(enc, p), "flows into" if p in back else "does NOT flow into"), loc=enc.loc())
    names = {cm.param_name(enc, p) for p in cm.params_of(enc)}
    rep.ob("ENCODER", "encoder takes the algorithm", any("alg" in n or "type" in n for n in names),
           "encoder parameters: %s" % sorted(names), loc=enc.loc())
    # the algorithm-dependent literal is selected by a branch on the algorithm parameter
    algp = [p for p in cm.params_of(enc) if "alg" in cm.param_name(enc, p) or "type" in cm.param_name(enc, p)]
    if algp:
        sw = [b for b in range(enc.n) if enc.blocks[b]["t"]["k"] == "switch" and
              algp[0] in enc.backward_slice(operand_locals(enc.blocks[b]["t"]["x"]))]
        rep.ob("ENCODER", "literal selected by the algorithm", bool(sw), "%d branch(es) on the algorithm parameter" % len(sw), loc=enc.loc())
    # object API: to_string passes every stored field
    for ts in cm.find_method(prog, "pwhash::PwHash", "to_string"):
        calls = [c for c in ts.calls() if enc in prog.callee_fns(c)]
        if not calls:
            rep.violation("ENCODER", "PwHash::to_string reaches the encoder", "no call to the encoder", loc=ts.loc())
            continue
        txt = " ".join(deep_repr(a) for a in call_arg_exprs(calls[0]))
        self_fields = set(re.findall(r"_1(?:\.\w+)*\.(\w+)", txt))
        for fld in ("algorithm", "opslimit", "memlimit", "salt", "hash"):
            rep.ob("ENCODER", "PwHash::to_string passes %s" % fld, fld in self_fields,
                   "encoder operands built from self fields %s: %s" % (sorted(self_fields), txt[:200]), loc=calls[0].loc())
    # from_string fills the same fields from parsed content
    for fs in cm.find_method(prog, "pwhash::PwHash", "from_string"):
        txt = deep_repr(expr_of_local(fs, 0))
        allx = " ".join(deep_repr(expr_of_operand(fs, a)) for c in fs.calls() for a in c.args) + " ".join(
            deep_repr(expr_of_operand(fs, o)) for b, i, s in fs.assigns() for o in ([s["rv"].get("x")] if s["rv"].get("x") else s["rv"].get("ops", [])) if o)
        for fld in ("type_", "t_cost", "m_cost", "salt", "pwhash"):
            rep.ob("ENCODER", "PwHash::from_string reads parsed %s" % fld, ("." + fld) in allx, "parsed field `%s` is consumed" % fld, loc=fs.loc())
    # crypto_pwhash_str passes the algorithm it hashed with
    for f in prog.by_path.get("classic::crypto_pwhash::crypto_pwhash_str", []):
        a2 = [c for c in f.calls() if c.rpath.endswith("argon2::argon2_hash")]
        ec = [c for c in f.calls() if enc in prog.callee_fns(c)]
        if a2 and ec:
            t_hash = deep_repr(call_arg_exprs(a2[0])[8])
            t_enc = deep_repr(call_arg_exprs(ec[0])[0])
            ok = ("Argon2id" in t_hash) == ("Argon2id" in t_enc) and ("Argon2i" in t_hash or "Argon2id" in t_hash)
            rep.ob("ENCODER", "crypto_pwhash_str encodes the algorithm it used", ok, "hashed with %s, encoded as %s" % (t_hash[-40:], t_enc[-40:]), loc=ec[0].loc())
            # salt and hash operands of the encoder are the buffers used / produced by Argon2
            r_salt = cm.view_info(f, list(operand_locals(a2[0].args[4]))[0])[0]
            r_out = cm.view_info(f, list(operand_locals(a2[0].args[7]))[0])[0]
            e_salt = cm.view_info(f, list(operand_locals(ec[0].args[3]))[0])[0]
            e_hash = cm.view_info(f, list(operand_locals(ec[0].args[4]))[0])[0]
            rep.ob("ENCODER", "crypto_pwhash_str encodes the salt and hash it used", (r_salt, r_out) == (e_salt, e_hash), "same buffers", loc=ec[0].loc())


def some_edges(f):
    """{(bb, target): field} edges on which Option field `field` of the parse state is known Some."""
    out = {}
    for b in range(f.n):
        t = f.blocks[b]["t"]
        if t["k"] != "switch":
            continue
        e = expr_of_operand(f, t["x"])
        arms = {v: tb for v, tb in t["arms"]}
        if e.k == "call" and e.a.path in ("std::option::Option::<T>::is_none", "std::option::Option::<T>::is_some"):
            x = call_arg_exprs(e.a)[0]
            if x.k == "field" and 0 in arms:
                is_none = e.a.path.endswith("is_none")
                tgt = arms[0] if is_none else t["otherwise"]
                out[(b, tgt)] = x.b.split(".")[-1]
        elif e.k == "discr" and e.a.k == "field" and 1 in arms:
            out[(b, arms[1])] = e.a.b.split(".")[-1]
    return out


def parser(rep, prog, par):
    se = some_edges(par)
    ef = edge_facts(par, cm.view_info)
    nok = 0
    for b, kind, e in result_kind_of_ret(par):
        if kind != "ok" or b not in par.reachable(0):
            continue
        nok += 1
        known = {fld for edge, fld in se.items() if par.edge_dominates(edge, b)}
        for fld in PARSED:
            rep.ob("PARSER", "Ok ⇒ %s is Some" % fld, fld in known,
                   "Ok exit at %s is %sdominated by the is-Some edge of `%s`" % (par.loc(b), "" if fld in known else "NOT ", fld), loc=par.loc(b))
        facts = facts_at(par, b, ef)
        txt = [(op, deep_or(l), deep_or(r)) for op, l, r in facts]
        v19 = any(op == "Eq" and "version" in str(l) + str(r) and (l == 19 or r == 19) for op, l, r in facts)
        p1 = any(op == "Eq" and "parallelism" in str(l) + str(r) and (l == 1 or r == 1) for op, l, r in facts)
        rep.ob("PARSER", "Ok ⇒ version == 19", v19, "facts at the Ok exit: %s" % [t for t in txt if "version" in str(t)], loc=par.loc(b))
        rep.ob("PARSER", "Ok ⇒ parallelism == 1", p1, "facts at the Ok exit: %s" % [t for t in txt if "parallelism" in str(t)], loc=par.loc(b))
    rep.floor("Ok exits of the parser", nok, 1)


def deep_or(t):
    return t


PEEL = {"unwrap", "expect", "as_ref", "into", "from", "as_slice", "deref", "clone", "as_mut", "borrow", "unwrap_unchecked"}


def peeled_field(e, depth=0):
    """Strip value-preserving adapters (unwrap, as_ref, into, ...) and casts; return the field name
    if what remains is a field projection, else None."""
    while depth < 12:
        depth += 1
        if e is None:
            return None
        if e.k == "call" and e.a.name in PEEL and len(e.a.args) >= 1:
            e = call_arg_exprs(e.a)[0]
            continue
        if e.k == "cast":
            e = e.a
            continue
        break
    if e is not None and e.k == "field":
        return e.b.split(".")[-1], e
    return None


def rooted_at(e, local):
    while e is not None and e.k in ("field", "index", "proj"):
        e = e.a
    return e is not None and e.k == "local" and e.a == local


def verify(rep, prog, par):
    fs = prog.by_path.get("classic::crypto_pwhash::crypto_pwhash_str_verify", [])
    if not fs:
        rep.violation("ANCHOR", "crypto_pwhash_str_verify", "not found")
        return
    f = fs[0]
    a2 = [c for c in f.calls() if c.rpath.endswith("argon2::argon2_hash")]
    if len(a2) != 1:
        rep.violation("ANCHOR", "str_verify argon2 call", "expected one Argon2 call", loc=f.loc())
        return
    outroot = cm.view_info(f, list(operand_locals(a2[0].args[7]))[0])[0]

    def prims(g):
        if g.key != f.key:
            return []
        out = []
        for c in cm.ct_eq_calls(g):
            roots = [cm.view_info(g, l)[0] for a in c.args for l in operand_locals(a)]
            txt = " ".join(deep_repr(x) for x in call_arg_exprs(c))
            if outroot in roots and ".pwhash" in txt:
                out.append(c)
        return out
    auth, results = auth_fixpoint(prog, [f], prims)
    r = results[f.key]
    rep.ob("VERIFY", "crypto_pwhash_str_verify authenticated", f.key in auth,
           "Ok only behind ct_eq(recomputed, parsed hash)" if f.key in auth else "an Ok return bypasses the hash comparison: %s" % [f.loc(b) for b, p in r.bad_exits], loc=f.loc())
    ax = call_arg_exprs(a2[0])
    want = {0: "t_cost", 1: "m_cost", 2: "parallelism", 4: "salt", 8: "type_"}
    pc0 = [c for c in f.calls() if par in prog.callee_fns(c)]
    for i, fld in want.items():
        t = deep_repr(ax[i])
        pf = peeled_field(ax[i])
        ok = pf is not None and pf[0] == fld
        rep.ob("VERIFY", "Argon2 operand %d is the parsed %s" % (i, fld), ok,
               "operand: %s (must be the parsed field itself, through value-preserving adapters only)" % t[:120], loc=a2[0].loc())
    pw = f.arg_local("password")
    rep.ob("VERIFY", "password operand", cm.view_info(f, list(operand_locals(a2[0].args[3]))[0])[0] == pw, "Argon2 password operand is the password parameter", loc=a2[0].loc())
    pc = [c for c in f.calls() if par in prog.callee_fns(c)]
    rep.ob("VERIFY", "parses the supplied string", bool(pc) and cm.view_info(f, list(operand_locals(pc[0].args[0]))[0])[0] == 1, "parser receives hashed_password", loc=f.loc())


def rehash(rep, prog, par):
    fs = prog.by_path.get("classic::crypto_pwhash::crypto_pwhash_str_needs_rehash", [])
    if not fs:
        rep.violation("ANCHOR", "crypto_pwhash_str_needs_rehash", "not found")
        return
    f = fs[0]
    # comparisons of convert_costs outputs with parsed costs
    cmp_edges = {"t_cost": {"eq": [], "ne": []}, "m_cost": {"eq": [], "ne": []}}
    conv = [c for c in f.calls() if c.is_local and len(c.args) == 2 and
            [cm.view_info(f, list(operand_locals(a))[0])[0] if operand_locals(a) else None for a in c.args] == [2, 3]]
    cname = conv[0].rpath.split("::")[-1] if conv else "convert_costs"
    for b in range(f.n):
        t = f.blocks[b]["t"]
        if t["k"] != "switch":
            continue
        e = expr_of_operand(f, t["x"])
        if e.k != "binop" or e.a not in ("Eq", "Ne"):
            continue
        txt = deep_repr(e)
        arms = {v: tb for v, tb in t["arms"]}
        if 0 not in arms:
            continue
        for fld in ("t_cost", "m_cost"):
            if ("." + fld) in txt and (cname + "(") in txt:
                tt, ft = t["otherwise"], arms[0]
                if e.a == "Eq":
                    cmp_edges[fld]["eq"].append((b, tt))
                    cmp_edges[fld]["ne"].append((b, ft))
                else:
                    cmp_edges[fld]["ne"].append((b, tt))
                    cmp_edges[fld]["eq"].append((b, ft))
    for fld in ("t_cost", "m_cost"):
        rep.ob("REHASH", "compares %s with convert_costs output" % fld, len(cmp_edges[fld]["eq"]) == 1,
               "%d comparison(s) between the parsed %s and convert_costs(opslimit, memlimit)" % (len(cmp_edges[fld]["eq"]), fld), loc=f.loc())
    if conv:
        rep.ob("REHASH", "convert_costs(opslimit, memlimit)", [cm.view_info(f, list(operand_locals(a))[0])[0] for a in conv[0].args] == [2, 3],
               "argument order", loc=conv[0].loc())
    all_ne = cmp_edges["t_cost"]["ne"] + cmp_edges["m_cost"]["ne"]
    for b, kind, e in result_kind_of_ret(f):
        if kind != "ok" or b not in f.reachable(0):
            continue
        # payload of Ok(..)
        payload = None
        for bb, i, s in f.assigns():
            if bb == b and s["place"]["l"] == 0 and s["rv"]["k"] == "agg":
                payload = evaluate(expr_of_operand(f, s["rv"]["ops"][0]), {})
        if payload is False or payload == 0:
            ok = all(any(f.edge_dominates(ed, b) for ed in cmp_edges[fld]["eq"]) for fld in ("t_cost", "m_cost"))
            rep.ob("REHASH", "Ok(false) only when both costs match", ok, "Ok(false) at %s is dominated by both equal edges: %s" % (f.loc(b), ok), loc=f.loc(b))
        elif payload is True or payload == 1:
            reach = f.reachable(0, cut_edges=all_ne)
            rep.ob("REHASH", "Ok(true) only when a cost differs", b not in reach and bool(all_ne),
                   "Ok(true) at %s is unreachable without a not-equal edge" % f.loc(b), loc=f.loc(b))
        else:
            rep.violation("REHASH", "Ok payload is a constant", "Ok payload at %s is computed (%r); expected constant true/false" % (f.loc(b), payload), loc=f.loc(b))
