"""C10 — password-hash strings: encoder/parser agreement, verify, needs-rehash, parser guards."""
import re

from ..core import operand_locals
from ..engines import auth_fixpoint, returns_result
from ..expr import (E, expr_of_operand, call_arg_exprs, evaluate, result_kind_of_ret, deep_repr, atoms_of,
                    expr_of_local, E)
from ..guards import edge_facts, facts_at
from . import common as cm

EXPLANATION = (
    "ENCODER: the string produced by the encoder depends on every field the parser fills (hash, salt, "
    "algorithm, opslimit, memlimit) and the algorithm names the parser accepts are a subset of those the "
    "encoder can emit (string constants in the two MIR bodies); version and p=1 are emitted from the Argon2 "
    "version constant. PARSER: every Ok exit of the parser is dominated by the is-Some edges of all seven "
    "fields and by version==19 and parallelism==1. VERIFY: crypto_pwhash_str_verify returns Ok only through "
    "ct_eq(recomputed hash, parsed hash) where the Argon2 operands are the parsed t, m, p, salt and type. "
    "REHASH: needs_rehash returns Ok(false) only behind the equal edges of both cost comparisons and Ok(true) "
    "only behind a not-equal edge; both comparisons are between convert_costs(opslimit, memlimit) and the "
    "parsed costs. Also: the six values of the encoder's format! are in placeholder order (second = version 19); "
    "crypto_pwhash_str hands Argon2 and the encoder the same converted costs by role; the parser has no cap on the "
    "total string length below 512.")
NOT_DECIDED = ("that libsodium accepts dryoc's strings and vice versa (byte-level base64/format interop), "
               "re-encoding equality for every valid string.")

from ..inline import inline

# Roles of the (crate-private) fields of the parse record and of PwHash/Config are discovered from
# things that cannot change without changing behaviour or the public API, never from field names:
#   parse record: the field stored from the segment stripped of "m=" / "t=" / "p=" / "v=", the field of
#   algorithm type, and the two byte-vector fields (salt = the one that must already be Some when the
#   other is filled);  PwHash: the positional public constructor from_parts(hash, salt, config);
#   Config: the operands of the public crypto_pwhash(.., opslimit, memlimit, algorithm) call.
PREFIX_ROLE = {'"m="': "m", '"t="': "t", '"p="': "p", '"v="': "v"}


def parse_roles(prog, parv):
    adt = None
    okty = parv.locals[0].get("t", "")
    for a in prog.adts.values():
        if a["path"] in okty and len(a["variants"]) == 1 and a["path"].startswith("classic::crypto_pwhash::"):
            adt = a
    if adt is None:
        return None, "parse record type not found in %s" % okty
    fields = adt["variants"][0]["fields"]
    roles = {}
    for fd in fields:
        if "PasswordHashAlgorithm" in fd["ty"]["t"]:
            roles["alg"] = fd["name"]
    vecs = [fd["name"] for fd in fields if "Vec<u8>" in fd["ty"]["t"]]
    stores = {}
    # the parsing may be spread over private helpers and closures (iterator adapters): look at every
    # non-public function of the parser's file reachable from it
    bodies = [parv]
    for k in prog.reach_fns([parv]):
        g = prog.by_key[k]
        if g.key != parv.key and g.file == parv.file and (g.kind == "closure" or g.vis != "pub") and g.path not in set(getattr(parv, "inlined", [])):
            bodies.append(inline(prog, g) if g.kind != "closure" else g)
    from ..core import single_def
    for pv_ in bodies:
      for b, i, st in pv_.assigns():
        parv = pv_
        place = st["place"]
        if place["p"] == ["deref"]:
            # a store through `&mut record.field` taken just before
            d_ = single_def(parv, place["l"])
            if d_ is not None and d_[1] == "assign" and d_[2]["rv"]["k"] in ("ref", "rawptr"):
                place = d_[2]["rv"]["place"]
            elif d_ is not None and d_[1] == "assign" and d_[2]["rv"]["k"] == "use" and parv.kind == "closure":
                # the closure captured `&mut record.field` itself (disjoint capture): find the field at the
                # place where the closure is created
                x_ = d_[2]["rv"]["x"]
                caps = [pe for pe in x_.get("p", []) if isinstance(pe, dict) and "f" in pe]
                par_fn = prog.by_key.get(parv.parent) if parv.parent else None
                if x_.get("l") == 1 and len(caps) == 1 and par_fn is not None:
                    for b2, i2, st2 in par_fn.assigns():
                        rv2 = st2["rv"]
                        if rv2["k"] == "agg" and rv2.get("agg") == "closure" and rv2.get("key") == parv.key and caps[0]["f"] < len(rv2["ops"]):
                            o2 = rv2["ops"][caps[0]["f"]]
                            d2 = single_def(par_fn, o2["l"]) if o2.get("k") in ("copy", "move") else None
                            if d2 is not None and d2[1] == "assign" and d2[2]["rv"]["k"] in ("ref", "rawptr"):
                                pl2 = d2[2]["rv"]["place"]
                                f2 = [pe for pe in pl2["p"] if isinstance(pe, dict) and "f" in pe]
                                if f2 and f2[-1]["n"] in {fd["name"] for fd in fields}:
                                    place = {"l": place["l"], "p": [f2[-1]]}
                                    parv.locals[place["l"]].setdefault("_rec", True)
        fl = [pe for pe in place["p"] if isinstance(pe, dict) and "f" in pe]
        base_ty = parv.locals[place["l"]]
        if base_ty.get("k") == "ref" and base_ty.get("inner", {}).get("t", "").startswith("{closure"):
            base_ty = {"k": "closure", "t": base_ty["inner"]["t"]}
        if len(fl) == 2 and base_ty.get("k") == "closure" and fl[1]["n"] in {fd["name"] for fd in fields}:
            fl = fl[1:]          # `self.field = ..` inside a closure: (*(env.i)).field
        elif len(fl) == 1 and base_ty.get("_rec"):
            pass                 # resolved through a disjoint capture
        elif len(fl) != 1 or adt["path"] not in base_ty["t"]:
            continue
        stores.setdefault(fl[0]["n"], []).append((b, st, pv_))
        e = expr_of_operand(parv, st["rv"]["x"]) if st["rv"]["k"] == "use" else (E("agg", None, None, [expr_of_operand(parv, o) for o in st["rv"].get("ops", [])]) if st["rv"]["k"] == "agg" else None)
        # the stored value derives from the segment stripped of exactly one of the prefixes
        srcs = set()
        for o in ([st["rv"].get("x")] if st["rv"].get("x") else []) + list(st["rv"].get("ops", [])):
            if o:
                srcs |= operand_locals(o)
        back = parv.backward_slice(srcs) if srcs else set()
        hits = set()
        for c in parv.calls():
            if c.name == "strip_prefix" and len(c.args) == 2 and c.dest["l"] in back:
                lit = call_arg_exprs(c)[1]
                r_ = PREFIX_ROLE.get(lit.c if lit.k == "const" else None)
                if r_:
                    hits.add(r_)
        if len(hits) == 1:
            roles.setdefault(hits.pop(), fl[0]["n"])
    if len(vecs) == 2:
        ses = {}
        for a_, b_ in ((vecs[0], vecs[1]), (vecs[1], vecs[0])):
            # b_ is only ever filled where a_ is already known to be Some
            def guarded(sb, pv_):
                if pv_.key not in ses:
                    ses[pv_.key] = some_edges(pv_)
                return any(fld == a_ and pv_.edge_dominates(edge, sb) for edge, fld in ses[pv_.key].items())
            if stores.get(b_) and all(guarded(sb, pv_) for sb, _, pv_ in stores[b_]):
                roles["salt"], roles["hash"] = a_, b_
    missing = [r for r in ("hash", "salt", "alg", "t", "m", "p", "v") if r not in roles]
    if missing or len(set(roles.values())) != 7:
        return None, "cannot establish the roles %s of the parse record fields (found %s)" % (missing, roles)
    return roles, ""


def object_roles(prog):
    """{'hash','salt','config'} -> PwHash field names; {'opslimit','memlimit','algorithm'} -> Config field names"""
    out = {}
    for f in cm.find_method(prog, "pwhash::PwHash", "from_parts"):
        for b, i, st in f.assigns():
            if st["rv"]["k"] == "agg" and st["rv"].get("agg") == "adt" and st["rv"].get("path", "").endswith("pwhash::PwHash"):
                for nm, o in zip(st["rv"]["fields"], st["rv"]["ops"]):
                    ls = list(operand_locals(o))
                    r0 = cm.view_info(f, ls[0])[0] if ls else None
                    if r0 in (1, 2, 3):
                        out[("hash", "salt", "config")[r0 - 1]] = nm
    # the call to the public crypto_pwhash(.., opslimit, memlimit, algorithm) made on behalf of the object
    # API, wherever it lives (hash_with_salt itself or a private helper of Config)
    for f in [g for g in prog.fns if g.path.startswith(("pwhash::", "<pwhash::"))]:
        for c in f.calls():
            if c.rpath == "classic::crypto_pwhash::crypto_pwhash" and len(c.args) == 6:
                for i, role in ((3, "opslimit"), (4, "memlimit"), (5, "algorithm")):
                    pf = peeled_field(call_arg_exprs(c)[i])
                    if pf:
                        out[role] = pf[0]
    return out


def str_consts(fns):
    out = set()
    for f in fns:
        for b in f.blocks:
            for s in b["s"]:
                _scan(s, out)
            _scan(b["t"], out)
        for pj in f.j.get("promoted", []):
            for b in pj["blocks"]:
                for s in b["s"]:
                    _scan(s, out)
    return out


def _scan(o, out):
    if isinstance(o, dict):
        if o.get("k") == "const" and "txt" in o and o.get("ty", "").startswith("&"):
            out.add(o["txt"])
        for v in o.values():
            _scan(v, out)
    elif isinstance(o, list):
        for v in o:
            _scan(v, out)


def run(ctx, rep):
    rep.explanation = EXPLANATION
    rep.not_decided = NOT_DECIDED
    rep.trust("base64 crate; format! machinery")
    prog = ctx.prog("full")
    # encoder: the function below the public string producers that formats and base64-encodes;
    # parser: the function below the public string consumers that base64-decodes
    prod = prog.by_path.get("classic::crypto_pwhash::crypto_pwhash_str", []) + cm.find_method(prog, "pwhash::PwHash", "to_string")
    cons = prog.by_path.get("classic::crypto_pwhash::crypto_pwhash_str_verify", []) + prog.by_path.get("classic::crypto_pwhash::crypto_pwhash_str_needs_rehash", [])
    enc = [prog.by_key[k] for k in prog.reach_fns(prod) if any(c.path == "base64::Engine::encode" for c in prog.by_key[k].calls())
           and any(c.path in ("std::fmt::format", "alloc::fmt::format") or c.name == "write_fmt" for c in prog.by_key[k].calls())]
    # the parser: the function whose view (private helpers folded in) base64-decodes and that hands back a
    # crate-local record (Result<Record, _>), wherever the decoding itself lives
    par = []
    for k in prog.reach_fns(cons):
        g = prog.by_key[k]
        if g.kind == "closure":
            continue
        rt = g.locals[0]
        okt = (rt.get("args") or [{}])[0].get("t", "") if rt.get("path") == "std::result::Result" else ""
        if not any(a["path"] in okt for a in prog.adts.values() if a["path"].startswith("classic::crypto_pwhash::") and len(a["variants"]) == 1):
            continue
        if any(c.path.startswith("base64::Engine::decode") for k2 in prog.reach_fns([g]) for c in prog.by_key[k2].calls()):     # decode, decode_vec, decode_slice, ...
            par.append(g)
    if not enc or not par:
        rep.violation("ANCHOR", "encoder/parser", "pwhash_to_string / parse_encoded_pwhash not found (base64 feature)")
        return
    enc, par = enc[0], par[0]
    parv = inline(prog, par)      # validation helpers of the parser folded in
    roles, why = parse_roles(prog, parv)
    if roles is None:
        rep.violation("ANCHOR", "parse record roles", why, loc=par.loc())
        return
    rep.note("parse record roles: %s" % roles)
    encoder(rep, prog, enc, par, roles)
    parser(rep, prog, parv, roles)
    verify(rep, prog, par, roles)
    rehash(rep, prog, par, roles)


ALGO = re.compile(r'^"(argon2\w*)"$')


def encoder(rep, prog, enc, par, roles):
    enc0 = enc
    ebodies = [g for g in (prog.by_key[k] for k in prog.reach_fns([enc0])) if g.file == enc0.file and (g.key == enc0.key or g.kind == "closure" or g.vis != "pub")]
    enc = inline(prog, enc0)       # literal selection / base64 helpers folded in
    e_alg = {m.group(1) for s in str_consts(ebodies) for m in [ALGO.match(s)] if m}
    # format-string template may carry the literal too
    for s in str_consts(ebodies):
        for m in re.finditer(r"\$(argon2\w*)\$", s):
            e_alg.add(m.group(1))
    pbodies = [g for g in (prog.by_key[k] for k in prog.reach_fns([par])) if g.file == par.file and (g.key == par.key or g.kind == "closure" or g.vis != "pub")]
    p_alg = {m.group(1) for s in str_consts(pbodies) for m in [ALGO.match(s)] if m and m.group(1) != "argon2"}
    rep.ob("ENCODER", "algorithm names: parser accepts ⊆ encoder emits", bool(p_alg) and p_alg <= e_alg,
           "parser accepts %s, encoder can emit %s" % (sorted(p_alg), sorted(e_alg)), loc=enc.loc())
    # every parameter of the encoder reaches the formatted string
    fmt = [c for c in enc.calls() if c.path in ("std::fmt::format", "alloc::fmt::format")]
    back = set()
    for c in fmt:
        for a in c.args:
            back |= enc.backward_slice(operand_locals(a))
    back |= enc.backward_slice([0])
    # control dependence: a value in the slice that is assigned under a branch on a parameter
    from ..core import def_sites
    for b in range(enc.n):
        t = enc.blocks[b]["t"]
        if t["k"] != "switch":
            continue
        dep = enc.backward_slice(operand_locals(t["x"]))
        edges = [(b, tb) for _, tb in t["arms"]] + [(b, t["otherwise"])]
        for l in list(back):
            for db, kind, payload in def_sites(enc, l):
                if any(enc.edge_dominates(e, db) for e in edges) and not all(enc.edge_dominates(e, db) for e in edges):
                    back |= dep
    for p in cm.params_of(enc):
        rep.ob("ENCODER", "pwhash_to_string uses `%s`" % cm.param_name(enc, p), p in back,
               "parameter `%s` %s the formatted string" % (cm.param_name(enc, p), "flows into" if p in back else "does NOT flow into"), loc=enc.loc())
    algp = [p for p in cm.params_of(enc) if "PasswordHashAlgorithm" in enc.locals[p]["t"]]
    _roles_seen = encoder_param_roles(enc)
    _prob = enc.__dict__.get("_c10_fmt_problem")
    if _prob and not _roles_seen:
        # the `format!("${}$v={}$m={},t={},p=1${}${}", ..)` idiom is there but its values are not in the order of its
        # placeholders (had the idiom been replaced by another way of building the string, nothing is claimed)
        rep.violation("ENCODER", "format arguments in placeholder order", _prob, loc=enc.loc())
    rep.ob("ENCODER", "encoder takes the algorithm", len(algp) == 1,
           "encoder parameter types: %s" % [enc.locals[p]["t"] for p in cm.params_of(enc)], loc=enc.loc())
    # the algorithm-dependent literal is selected by a branch on the algorithm parameter
    if algp:
        sw = [b for b in range(enc.n) if enc.blocks[b]["t"]["k"] == "switch" and
              algp[0] in enc.backward_slice(operand_locals(enc.blocks[b]["t"]["x"]))]
        rep.ob("ENCODER", "literal selected by the algorithm", bool(sw), "%d branch(es) on the algorithm parameter" % len(sw), loc=enc.loc())
    # object API: to_string passes every stored field
    for ts in [inline(prog, t_, keep=(lambda g: g.key == enc0.key,)) for t_ in cm.find_method(prog, "pwhash::PwHash", "to_string")]:
        calls = [c for c in ts.calls() if enc0 in prog.callee_fns(c)]
        if not calls:
            rep.violation("ENCODER", "PwHash::to_string reaches the encoder", "no call to the encoder", loc=ts.loc())
            continue
        orole = object_roles(prog)
        ax = [deep_repr(a) for a in call_arg_exprs(calls[0])]
        # which encoder parameter is what: read off the order in which they are formatted into
        # `$alg$v=19$m=..,t=..,p=1$salt$hash` (the order of the private function's parameters is free)
        pos = encoder_param_roles(enc)
        ix = {r_: i_ for i_, r_ in pos.items()}
        want_ops = {ix.get("alg", 0): ("algorithm", [orole.get("config"), orole.get("algorithm")]),
                    ix.get("t", 1): ("opslimit", [orole.get("config"), orole.get("opslimit")]),
                    ix.get("m", 2): ("memlimit", [orole.get("config"), orole.get("memlimit")]),
                    ix.get("salt", 3): ("salt", [orole.get("salt")]), ix.get("hash", 4): ("hash", [orole.get("hash")])}
        T_I, M_I = ix.get("t", 1), ix.get("m", 2)
        for i, (role, path) in want_ops.items():
            ok = i < len(ax) and None not in path and ("_1." + ".".join(path)) in ax[i] and \
                not any(("_1." + ".".join(p2)) in ax[i] for j, (r2, p2) in want_ops.items() if j != i and None not in p2 and (role in ("salt", "hash") or r2 in ("salt", "hash") or r2 != role) and p2 != path and not (i in (T_I, M_I) and j in (T_I, M_I)))
            if i in (T_I, M_I) and ok:
                # t comes from the t component of convert(opslimit, memlimit), m from the m component
                po, pm = ax[i].find("_1." + ".".join(want_ops[T_I][1])), ax[i].find("_1." + ".".join(want_ops[M_I][1]))
                comp_, _cv = cm.conv_component(prog, call_arg_exprs(calls[0])[i])
                ok = comp_ == ("t" if i == T_I else "m") and po >= 0 and pm >= 0
                if ok and _cv is not None:
                    # the stored opslimit goes to the conversion's u64 parameter, the stored memlimit to its
                    # usize parameter (whatever their order)
                    gcv_ = prog.callee_fns(_cv)
                    cax_ = [deep_repr(x_) for x_ in call_arg_exprs(_cv)]
                    for j_, tx_ in enumerate(cax_[:2]):
                        wantf = want_ops[T_I][1] if gcv_ and gcv_[0].locals[j_ + 1]["t"] == "u64" else want_ops[M_I][1]
                        otherf = want_ops[M_I][1] if wantf is want_ops[T_I][1] else want_ops[T_I][1]
                        ok = ok and ("_1." + ".".join(wantf)) in tx_ and ("_1." + ".".join(otherf)) not in tx_
            rep.ob("ENCODER", "PwHash::to_string passes %s" % role, ok,
                   "encoder operand %d is %s (object field roles %s)" % (i, ax[i][:120] if i < len(ax) else "?", orole), loc=calls[0].loc())
    # from_string fills the same fields from parsed content
    for fs in [inline(prog, f_, keep=(lambda g: g.key == par.key,)) for f_ in cm.find_method(prog, "pwhash::PwHash", "from_string")]:
        allx = " ".join(deep_repr(expr_of_operand(fs, a)) for c in fs.calls() for a in c.args) + " ".join(
            deep_repr(expr_of_operand(fs, o)) for b, i, s_ in fs.assigns() for o in ([s_["rv"].get("x")] if s_["rv"].get("x") else s_["rv"].get("ops", [])) if o)
        for role in ("alg", "t", "m", "salt", "hash"):
            fld = roles[role]
            rep.ob("ENCODER", "PwHash::from_string reads parsed %s" % role, ("." + fld) in allx, "parsed field `%s` is consumed" % fld, loc=fs.loc())
        # the lengths recorded in the parsed object are the lengths of the parsed salt / hash (they go into
        # Argon2's initial block: a default length there makes verify recompute a different hash)
        len_fields = {}
        for nm_, role_ in (("with_hash_length", "hash"), ("with_salt_length", "salt")):
            for g_ in cm.find_method(prog, "pwhash::Config", nm_):
                for b_, i_, st_ in g_.assigns():
                    pl_ = st_["place"]
                    fl_ = [pe for pe in pl_["p"] if isinstance(pe, dict) and "n" in pe]
                    if fl_ and st_["rv"]["k"] == "use" and st_["rv"]["x"].get("k") in ("copy", "move") and \
                            cm.view_info(g_, st_["rv"]["x"]["l"])[0] == 2:
                        len_fields[fl_[-1]["n"]] = role_
                    if st_["rv"]["k"] == "agg" and st_["rv"].get("agg") == "adt":
                        for fn_, o_ in zip(st_["rv"].get("fields", []), st_["rv"].get("ops", [])):
                            if o_.get("k") in ("copy", "move") and not o_["p"] and cm.view_info(g_, o_["l"])[0] == 2:
                                len_fields[fn_] = role_
        n_len = 0
        for c_ in fs.calls():
            for nm_, role_ in (("with_hash_length", "hash"), ("with_salt_length", "salt")):
                if c_.name == nm_ and c_.rpath.startswith("pwhash::Config") and len(c_.args) == 2:
                    ex_ = deep_repr(call_arg_exprs(c_)[1])
                    n_len += 1
                    rep.ob("ENCODER", "PwHash::from_string records the parsed %s length" % role_, ex_.startswith("len(") and ("." + roles[role_]) in ex_,
                           "Config::%s(%s)" % (nm_, ex_[:100]), loc=c_.loc())
        for b_, i_, st_ in fs.assigns():
            rv_ = st_["rv"]
            if rv_["k"] == "agg" and rv_.get("agg") == "adt" and rv_.get("path", "").endswith("pwhash::Config"):
                n_len += sum(1 for fn_ in rv_.get("fields", []) if fn_ in len_fields)
                for fn_, o_ in zip(rv_.get("fields", []), rv_.get("ops", [])):
                    if fn_ in len_fields:
                        ex_ = deep_repr(expr_of_operand(fs, o_))
                        fld_ = roles[len_fields[fn_]]
                        okl = ex_.startswith("len(") and ("." + fld_) in ex_
                        rep.ob("ENCODER", "PwHash::from_string records the parsed %s length" % len_fields[fn_], okl,
                               "Config.%s <- %s" % (fn_, ex_[:100]), loc=fs.loc(b_))
        rep.floor("parsed lengths recorded by PwHash::from_string", n_len, 2)
    # crypto_pwhash_str passes the algorithm it hashed with
    for f in prog.by_path.get("classic::crypto_pwhash::crypto_pwhash_str", []):
        a2 = [c for c in f.calls() if cm.is_argon2_call(prog, c)]
        ec = [c for c in f.calls() if enc0 in prog.callee_fns(c)]
        if a2 and ec:
            A2 = cm.argon2_arg_index(prog)
            t_hash = deep_repr(call_arg_exprs(a2[0])[A2["type"]])
            t_enc = deep_repr(call_arg_exprs(ec[0])[{r_: i_ for i_, r_ in encoder_param_roles(enc).items()}.get("alg", 0)])
            ok = ("Argon2id" in t_hash) == ("Argon2id" in t_enc) and ("Argon2i" in t_hash or "Argon2id" in t_hash)
            rep.ob("ENCODER", "crypto_pwhash_str encodes the algorithm it used", ok, "hashed with %s, encoded as %s" % (t_hash[-40:], t_enc[-40:]), loc=ec[0].loc())
            # salt and hash operands of the encoder are the buffers used / produced by Argon2
            r_salt = cm.view_info(f, list(operand_locals(a2[0].args[A2["salt"]]))[0])[0]
            r_out = cm.view_info(f, list(operand_locals(a2[0].args[A2["output"]]))[0])[0]
            ix_ = {r_: i_ for i_, r_ in encoder_param_roles(enc).items()}
            e_salt = cm.view_info(f, list(operand_locals(ec[0].args[ix_.get("salt", 3)]))[0])[0]
            e_hash = cm.view_info(f, list(operand_locals(ec[0].args[ix_.get("hash", 4)]))[0])[0]
            rep.ob("ENCODER", "crypto_pwhash_str encodes the salt and hash it used", (r_salt, r_out) == (e_salt, e_hash), "same buffers", loc=ec[0].loc())
            # ... and the costs it used: the pass count handed to Argon2 and the one written after `t=` are both the
            # t component of the cost conversion, the memory size and the `m=` value both its m component
            for role_ in ("t", "m"):
                ca_, _ = cm.conv_component(prog, call_arg_exprs(a2[0])[A2[role_]])
                ce_, _ = cm.conv_component(prog, call_arg_exprs(ec[0])[ix_.get(role_, 1 if role_ == "t" else 2)])
                rep.ob("ENCODER", "crypto_pwhash_str hashes with and encodes the converted %s cost" % role_, ca_ == role_ and ce_ == role_,
                       "Argon2 %s operand is the conversion's %s component, the encoder's `%s=` operand its %s component" % (role_, ca_, role_, ce_), loc=ec[0].loc())


def encoder_param_roles(enc):
    """{argument index of the encoder: 'alg'|'t'|'m'|'salt'|'hash'} from the order of the Display
    arguments of its format call: alg, version (19), m, t, salt, hash.  {} if the shape is not recognised
    (callers then fall back to the declared order algorithm, t, m, salt, hash)."""
    out = {}
    for c in enc.calls():
        if c.path not in ("std::fmt::Arguments::<'a>::new", "std::fmt::Arguments::<'a>::new_v1", "core::fmt::Arguments::<'a>::new_v1") or len(c.args) < 2:
            continue
        arr = call_arg_exprs(c)[-1]
        while arr is not None and arr.k in ("ref", "cast"):
            arr = arr.a
        if arr is None or arr.k != "agg" or not arr.c or len(arr.c) != 6:
            continue
        inner = []
        for x in arr.c:
            y = x
            if y.k == "call" and y.a.name.startswith("new_") and y.a.args:
                y = call_arg_exprs(y.a)[0]
            inner.append(y)
        if evaluate(inner[1], {}) != 19:
            enc.__dict__["_c10_fmt_problem"] = "the second of the six formatted values (after `$v=`) is %s, not the version constant 19" % deep_repr(inner[1])[:60]
            continue
        for role, y in zip(("alg", None, "m", "t", "salt", "hash"), inner):
            if role is None:
                continue
            ps = cm.expr_leaf_locals(y) & set(range(1, enc.argc + 1))
            if not ps:
                ls = cm.expr_leaf_locals(y)
                ps = enc.backward_slice(list(ls)) & set(range(1, enc.argc + 1)) if ls else set()
            if len(ps) == 1:
                out[list(ps)[0] - 1] = role
        if sorted(out.values()) == ["hash", "m", "salt", "t"]:
            # the algorithm is formatted as a literal selected by a branch on the remaining parameter
            rest = [i_ for i_ in range(enc.argc) if i_ not in out]
            if len(rest) == 1:
                out[rest[0]] = "alg"
    return out if sorted(out.values()) == ["alg", "hash", "m", "salt", "t"] else {}


def some_edges(f):
    """{(bb, target): field} edges on which Option field `field` of the parse state is known Some."""
    from .c04 import some_edges as _se
    return _se(f)


def parser(rep, prog, par, roles):
    from .c04 import option_eq_some
    se = some_edges(par)
    ef = edge_facts(par, cm.view_info)
    # `field == Some(c)` through Option's PartialEq: field is Some and equals c on the equal edge
    eqs = {}
    for b_ in range(par.n):
        t_ = par.blocks[b_]["t"]
        if t_["k"] != "switch":
            continue
        oe = option_eq_some(expr_of_operand(par, t_["x"]))
        arms_ = {v: tb for v, tb in t_["arms"]}
        if oe is not None and 0 in arms_:
            edge = (b_, arms_[0] if oe[2] else t_["otherwise"])
            se[edge] = oe[0]
            if oe[1] is not None:
                eqs[edge] = (oe[0], oe[1])
    nok = 0
    for b, kind, e in result_kind_of_ret(par):
        if kind != "ok" or b not in par.reachable(0):
            continue
        nok += 1
        known = {fld for edge, fld in se.items() if par.edge_dominates(edge, b)}
        for role, fld in sorted(roles.items()):
            rep.ob("PARSER", "Ok ⇒ %s is Some" % role, fld in known,
                   "Ok exit at %s is %sdominated by the is-Some edge of `%s`" % (par.loc(b), "" if fld in known else "NOT ", fld), loc=par.loc(b))
        facts = facts_at(par, b, ef)
        eqk = {(fld, val) for edge, (fld, val) in eqs.items() if par.edge_dominates(edge, b)}
        fv, fp = "." + roles["v"], "." + roles["p"]
        v19 = any(op == "Eq" and (str(l) + str(r)).count(fv + ")") and (l == 19 or r == 19) for op, l, r in facts) or (roles["v"], 19) in eqk
        p1 = any(op == "Eq" and (str(l) + str(r)).count(fp + ")") and (l == 1 or r == 1) for op, l, r in facts) or (roles["p"], 1) in eqk
        rep.ob("PARSER", "Ok ⇒ version == 19", v19, "facts at the Ok exit: %s %s" % ([t for t in facts if fv in str(t)], sorted(eqk)), loc=par.loc(b))
        rep.ob("PARSER", "Ok ⇒ parallelism == 1", p1, "facts at the Ok exit: %s %s" % ([t for t in facts if fp in str(t)], sorted(eqk)), loc=par.loc(b))
    parser_ranges(rep, par, roles)
    # the string as a whole: the longest string the object API writes (64-byte salt, 128-byte hash) has about 290
    # characters; no guard on the total length may stand between any length up to 512 and an Ok exit
    sp = [p_ for p_ in cm.params_of(par) if par.locals[p_]["t"].replace("'_ ", "") == "&str"]
    if len(sp) == 1:
        iv = cm.accepted_intervals(par, ("len", sp[0]))
        cov = all(any((lo is None or lo <= n_) and (hi is None or n_ <= hi) for lo, hi in iv) for n_ in range(64, 513))
        rep.ob("PARSER", "accepts strings of every length up to 512", cov,
               "Ok exits are reachable for total string lengths %s" % (sorted(iv, key=str),), loc=par.loc())
    else:
        rep.violation("ANCHOR", "parser|string parameter", "cannot tell the string parameter of the parser (fail closed)", loc=par.loc())
    rep.floor("Ok exits of the parser", nok, 1)


FLIP = {"Lt": "Gt", "Le": "Ge", "Gt": "Lt", "Ge": "Le", "Eq": "Eq", "Ne": "Ne"}


def parser_ranges(rep, par, roles):
    """RANGE: the parser accepts every salt of 8..=64 bytes and every hash of 16..=128 bytes (the lengths
    the object API can produce): a comparison of a value derived from the length of the parsed salt /
    hash with a constant, one side of which cannot reach an Ok exit, bounds the accepted lengths; the
    implied minimum must not exceed 8 / 16 and the implied maximum must not be below 64 / 128."""
    from ..expr import evaluate as _ev
    oks = [b for b, kind, e in result_kind_of_ret(par) if kind == "ok" and b in par.reachable(0)]
    want = {roles["salt"]: ("salt", 8, 64), roles["hash"]: ("hash", 16, 128)}
    fld_reads = {}      # local -> field name, for `x = <state>.FIELD...` reads
    for b_, i_, st in par.assigns():
        rv = st["rv"]
        pl = rv.get("x") if rv["k"] in ("use", "cast") else rv.get("place") if rv["k"] in ("ref", "discr") else None
        if isinstance(pl, dict) and pl.get("p"):
            for pe in pl["p"]:
                if isinstance(pe, dict) and pe.get("n") in want:
                    fld_reads[st["place"]["l"]] = pe["n"]

    def field_of(e):
        ls = cm.expr_leaf_locals(e)
        txt = deep_repr(e)
        hits = {nm for nm in want if ("." + nm) in txt}
        back = par.backward_slice(list(ls)) if ls else set()
        hits |= {fld_reads[l_] for l_ in back if l_ in fld_reads}
        lens = ("len(" in txt) or any(c.name == "len" and c.dest and c.dest["l"] in back for c in par.calls())
        return (list(hits)[0] if len(hits) == 1 else None), lens
    found = {nm: {"min": [], "max": []} for nm in want}
    for b in sorted(par.reachable(0)):
        t = par.blocks[b]["t"]
        if t["k"] != "switch":
            continue
        arms = {v_: tb for v_, tb in t["arms"]}
        if 0 not in arms or arms[0] == t["otherwise"]:
            continue
        ft, tt = arms[0], t["otherwise"]
        e = expr_of_operand(par, t["x"])
        neg = False
        while e.k == "unop" and e.a == "Not":
            e, neg = e.b, not neg
        if neg:
            ft, tt = tt, ft
        op = x = k = None
        if e.k == "binop" and e.a in FLIP:
            kl, kr = _ev(e.b, {}), _ev(e.c, {})
            if isinstance(kr, int) and not isinstance(kr, bool):
                op, x, k = e.a, e.b, kr
            elif isinstance(kl, int) and not isinstance(kl, bool):
                op, x, k = FLIP[e.a], e.c, kl
        elif e.k == "call" and e.a.name == "is_empty" and e.a.args:
            op, x, k = "Lt", E("call", e.a), 1
            x = call_arg_exprs(e.a)[0]
        if op is None:
            continue
        nm, is_len = field_of(x)
        if nm is None or not (is_len or (e.k == "call")):
            continue
        ok_t = any(o in par.reachable(tt) for o in oks)
        ok_f = any(o in par.reachable(ft) for o in oks)
        lo = hi = None
        if op == "Lt":
            lo, hi = (k if not ok_t else None), (k - 1 if not ok_f else None)
        elif op == "Le":
            lo, hi = (k + 1 if not ok_t else None), (k if not ok_f else None)
        elif op == "Gt":
            hi, lo = (k if not ok_t else None), (k + 1 if not ok_f else None)
        elif op == "Ge":
            hi, lo = (k - 1 if not ok_t else None), (k if not ok_f else None)
        if lo is not None:
            found[nm]["min"].append((lo, par.loc(b)))
        if hi is not None:
            found[nm]["max"].append((hi, par.loc(b)))
    for nm, (role, need_min, need_max) in want.items():
        mn = max([v_ for v_, _ in found[nm]["min"]] or [0])
        mx = min([v_ for v_, _ in found[nm]["max"]] or [1 << 62])
        rep.ob("PARSER", "accepts every %s length %d..=%d" % (role, need_min, need_max), mn <= need_min and mx >= need_max,
               "the parser's own length checks on the %s: minimum %s%s, maximum %s%s" % (
                   role, mn, " at %s" % [l_ for v_, l_ in found[nm]["min"] if v_ == mn][:1] if mn else "",
                   "none" if mx >= (1 << 62) else mx, "" if mx >= (1 << 62) else " at %s" % [l_ for v_, l_ in found[nm]["max"] if v_ == mx][:1]),
               loc=par.loc())


def deep_or(t):
    return t


PEEL = {"unwrap", "expect", "as_ref", "into", "from", "as_slice", "deref", "clone", "as_mut", "borrow", "unwrap_unchecked"}


def peeled_field(e, depth=0):
    """Strip value-preserving adapters (unwrap, as_ref, into, ...) and casts; return the field name
    if what remains is a field projection, else None."""
    while depth < 12:
        depth += 1
        if e is None:
            return None
        if e.k == "call" and e.a.name in PEEL and len(e.a.args) >= 1:
            e = call_arg_exprs(e.a)[0]
            continue
        if e.k == "cast":
            e = e.a
            continue
        break
    if e is not None and e.k == "field":
        return e.b.split(".")[-1], e
    return None


def rooted_at(e, local):
    while e is not None and e.k in ("field", "index", "proj"):
        e = e.a
    return e is not None and e.k == "local" and e.a == local


def verify(rep, prog, par, roles):
    fs = prog.by_path.get("classic::crypto_pwhash::crypto_pwhash_str_verify", [])
    if not fs:
        rep.violation("ANCHOR", "crypto_pwhash_str_verify", "not found")
        return
    f = inline(prog, fs[0], keep=(lambda g: g.key == par.key,))      # comparison helpers / closures folded in
    a2 = [c for c in f.calls() if cm.is_argon2_call(prog, c)]
    if len(a2) != 1:
        rep.violation("ANCHOR", "str_verify argon2 call", "expected one Argon2 call", loc=f.loc())
        return
    outroot = cm.view_info(f, list(operand_locals(a2[0].args[cm.argon2_arg_index(prog)["output"]]))[0])[0]

    def prims(g):
        if g.key != f.key:
            return []
        out = []
        for c in cm.ct_eq_calls(g):
            roots = [cm.view_info(g, l)[0] for a in c.args for l in operand_locals(a)]
            txt = " ".join(deep_repr(x) for x in call_arg_exprs(c))
            if outroot in roots and ("." + roles["hash"]) in txt:
                out.append(c)
        return out
    auth, results = auth_fixpoint(prog, [f], prims)
    r = results[f.key]
    rep.ob("VERIFY", "crypto_pwhash_str_verify authenticated", f.key in auth,
           "Ok only behind ct_eq(recomputed, parsed hash)" if f.key in auth else "an Ok return bypasses the hash comparison: %s" % [f.loc(b) for b, p in r.bad_exits], loc=f.loc())
    ax = call_arg_exprs(a2[0])
    A2 = cm.argon2_arg_index(prog)
    want = {A2["t"]: roles["t"], A2["m"]: roles["m"], A2["lanes"]: roles["p"], A2["salt"]: roles["salt"], A2["type"]: roles["alg"]}
    pc0 = [c for c in f.calls() if par in prog.callee_fns(c)]
    for i, fld in want.items():
        t = deep_repr(ax[i])
        pf = peeled_field(ax[i])
        ok = pf is not None and pf[0] == fld
        rep.ob("VERIFY", "Argon2 operand %d is the parsed %s" % (i, fld), ok,
               "operand: %s (must be the parsed field itself, through value-preserving adapters only)" % t[:120], loc=a2[0].loc())
    pws = [p for p in cm.params_of(f) if f.locals[p]["t"] in ("&[u8]", "&'_ [u8]")]
    pw = pws[0] if len(pws) == 1 else None
    rep.ob("VERIFY", "password operand", cm.view_info(f, list(operand_locals(a2[0].args[A2["password"]]))[0])[0] == pw, "Argon2 password operand is the password parameter", loc=a2[0].loc())
    pc = [c for c in f.calls() if par in prog.callee_fns(c)]
    rep.ob("VERIFY", "parses the supplied string", bool(pc) and cm.view_info(f, list(operand_locals(pc[0].args[0]))[0])[0] == 1, "parser receives hashed_password", loc=f.loc())


def rehash(rep, prog, par, roles):
    fs = prog.by_path.get("classic::crypto_pwhash::crypto_pwhash_str_needs_rehash", [])
    if not fs:
        rep.violation("ANCHOR", "crypto_pwhash_str_needs_rehash", "not found")
        return
    f0 = fs[0]
    # the cost conversion: the crate function (u64, usize) -> (u32, u32); it stays a call
    _cg, _croles = cm.cost_conversion(prog)
    is_conv = lambda g: _cg is not None and g.key == _cg.key
    f = inline(prog, f0, keep=(lambda g: g.key == par.key or is_conv(g),))
    # (t, m) = convert(opslimit, memlimit): the crate-local call fed by parameters 2 and 3 in that order
    # (t, m) = convert(opslimit, memlimit): the call of the cost conversion fed by parameters 2 (opslimit, to
    # its u64 parameter) and 3 (memlimit, to its usize parameter)
    def _fed(c):
        if _cg is None or len(c.args) != 2 or not any(t_.key == _cg.key for t_ in prog.callee_fns(c)):
            return False
        want = {"u64": 2, "usize": 3}
        return all(operand_locals(a) and cm.view_info(f, list(operand_locals(a))[0])[0] == want.get(_cg.locals[i_ + 1]["t"]) for i_, a in enumerate(c.args))
    conv = [c for c in f.calls() if c.is_local and _fed(c)]
    rep.ob("REHASH", "convert_costs(opslimit, memlimit)", len(conv) == 1,
           "%d call(s) of the cost conversion taking (opslimit, memlimit)" % len(conv), loc=f.loc())
    if len(conv) != 1:
        return
    cv = conv[0]

    def side(e):
        pf = peeled_field(e)
        if pf is not None and pf[0] in (roles["t"], roles["m"]) and any(par in prog.callee_fns(c) for c in atoms_of(pf[1])):
            return ("parsed", "t" if pf[0] == roles["t"] else "m")
        x = e
        while x is not None and x.k == "cast":
            x = x.a
        if x is not None and x.k == "field" and x.a.k == "call" and x.a.a.bb == cv.bb and x.a.a.fn is f and str(x.b).split(".")[-1] in _croles:
            return ("conv", _croles[str(x.b).split(".")[-1]])
        return None
    atoms = {}      # (bb, stmt index) -> (role, op)
    for b in range(f.n):
        for i, st in enumerate(f.blocks[b]["s"]):
            if st["k"] != "assign" or st["rv"]["k"] != "binop" or st["rv"]["op"] not in ("Eq", "Ne"):
                continue
            l, r = side(expr_of_operand(f, st["rv"]["l"])), side(expr_of_operand(f, st["rv"]["r"]))
            if l is None or r is None or {l[0], r[0]} != {"parsed", "conv"}:
                continue
            rep.ob("REHASH", "compares parsed %s with the matching convert_costs output" % l[1], l[1] == r[1],
                   "comparison at %s relates %s and %s" % (f.loc(b), l, r), loc=f.loc(b))
            if l[1] == r[1]:
                atoms[(b, i)] = (l[1], st["rv"]["op"])
    for role in ("t", "m"):
        n_ = sum(1 for v in atoms.values() if v[0] == role)
        rep.ob("REHASH", "compares %s_cost with convert_costs output" % role, n_ >= 1,
               "%d comparison(s) between the parsed %s_cost and convert_costs(opslimit, memlimit)" % (n_, role), loc=f.loc())
    if not all(any(v[0] == r_ for v in atoms.values()) for r_ in ("t", "m")):
        return
    # path-sensitive evaluation of the returned flag with the two equalities fixed (all four cases):
    # Ok(x) must carry x == !(t_equal && m_equal)
    for teq in (True, False):
        for meq in (True, False):
            forced = {k: ((teq if v[0] == "t" else meq) if v[1] == "Eq" else not (teq if v[0] == "t" else meq)) for k, v in atoms.items()}
            rets = bool_paths(f, forced)
            oks = [r for r in rets if isinstance(r, tuple) and r[0] == "ok"]
            unk = [r for r in rets if r is None or (isinstance(r, tuple) and r[0] == "ok" and not isinstance(r[1], bool))]
            want = not (teq and meq)
            good = bool(oks) and not unk and all(r[1] == want for r in oks)
            rep.ob("REHASH", "t %s, m %s ⇒ Ok(%s)" % ("equal" if teq else "differs", "equal" if meq else "differs", str(want).lower()), good,
                   "returns on the paths consistent with this case: %s" % sorted({repr(r) for r in rets}), loc=f.loc())


def bool_paths(f, forced, cap=20000):
    """Forward, path-sensitive evaluation of boolean/integer locals with the listed comparison
    statements fixed: follows only the switch arms consistent with the values known so far and returns
    the set of values `_0` can hold at a return: ('ok', payload) / ('err',) / None (unknown)."""
    UNK = None
    out = set()
    seen = set()
    work = [(0, ())]
    ops = {"Eq": lambda a, b: a == b, "Ne": lambda a, b: a != b, "BitAnd": lambda a, b: a & b, "BitOr": lambda a, b: a | b,
           "BitXor": lambda a, b: a ^ b, "Lt": lambda a, b: a < b, "Le": lambda a, b: a <= b, "Gt": lambda a, b: a > b, "Ge": lambda a, b: a >= b}

    def val(env, o):
        if o.get("k") == "const":
            v = o.get("v")
            if v is not None and o.get("ty") == "bool":
                return bool(v)
            return v
        if o.get("k") in ("copy", "move") and not o["p"]:
            return env.get(o["l"], UNK)
        return UNK
    while work and len(seen) < cap:
        b, envt = work.pop()
        if (b, envt) in seen:
            continue
        seen.add((b, envt))
        env = dict(envt)
        blk = f.blocks[b]
        for i, st in enumerate(blk["s"]):
            if st["k"] != "assign":
                continue
            pl = st["place"]
            if pl["p"]:
                env.pop(pl["l"], None)
                continue
            rv = st["rv"]
            v = UNK
            if (b, i) in forced:
                v = forced[(b, i)]
            elif rv["k"] == "use":
                v = val(env, rv["x"])
            elif rv["k"] == "unop" and rv["op"] == "Not":
                x = val(env, rv["x"])
                v = (not x) if isinstance(x, bool) else UNK
            elif rv["k"] == "binop" and rv["op"] in ops:
                x, y = val(env, rv["l"]), val(env, rv["r"])
                if x is not UNK and y is not UNK and not isinstance(x, tuple) and not isinstance(y, tuple):
                    v = ops[rv["op"]](x, y)
            elif rv["k"] == "agg" and rv.get("path") == "std::result::Result":
                v = ("ok", val(env, rv["ops"][0]) if rv["ops"] else UNK) if rv["variant"] == "Ok" else ("err",)
            if v is UNK:
                env.pop(pl["l"], None)
            else:
                env[pl["l"]] = v
        t = blk["t"]
        k = t["k"]
        nxt = []
        if k == "return":
            out.add(env.get(0, UNK))
        elif k == "goto":
            nxt = [t["t"]]
        elif k == "switch":
            x = val(env, t["x"])
            if isinstance(x, bool):
                x = int(x)
            if isinstance(x, int):
                m = [tb for v_, tb in t["arms"] if v_ == x]
                nxt = [m[0]] if m else [t["otherwise"]]
            else:
                nxt = [tb for _, tb in t["arms"]] + [t["otherwise"]]
        elif k == "call":
            env.pop(t["dest"]["l"], None)
            if t["f"].get("path") == "std::ops::FromResidual::from_residual" and not t["dest"]["p"]:
                env[t["dest"]["l"]] = ("err",)
            if t.get("t") is not None:
                nxt = [t["t"]]
        elif k in ("drop", "assert"):
            nxt = [t["t"]]
        frozen = tuple(sorted(env.items(), key=lambda kv: kv[0]))
        for n_ in nxt:
            work.append((n_, frozen))
    return out
