"""C19 — refused memory locking is reported as an error, never a panic (REACH).

Entries: every crate function whose declared return type is `Result<T, E>` with T mentioning
`Protected<..>` (constructors and transitions of protected memory, including the serde
deserializers of locked types and their visitors).  Sinks: `Result<_, std::io::Error>::expect/unwrap`
and `panic!` in a block that is only reachable through the `Err` edge of a match on a
`Result<_, std::io::Error>` — in this crate `io::Error` originates only in the lock/protect
wrappers.  The call graph uses resolved instances; unresolved trait calls fan out to every impl.
"""
import re

from ..engines import reach_sinks, reach_sinks_ctx
from ..expr import expr_of_operand
from . import common as cm

MULTI_CONFIG = True

EXPLANATION = (
    "Call-graph reachability over resolved MIR callees (trait calls on type parameters fan out to all "
    "crate impls, closures belong to their parent). For each Result-returning function whose Ok type "
    "mentions protected::Protected, no reachable function may contain (a) a call to "
    "Result<_, io::Error>::expect/unwrap or (b) a panic in a block dominated by the Err edge of a match "
    "on a Result<_, io::Error>. The report is the call chain from the entry to the sink.")
NOT_DECIDED = ("that regions created earlier stay valid and are wiped/unlocked on drop after a refusal "
               "(runtime/kernel state; the drop path is covered structurally by C14/C15).")

PANICS = ("core::panicking::panic_fmt", "core::panicking::panic", "std::rt::begin_panic",
          "core::panicking::panic_display", "core::panicking::unreachable_display")


def io_sinks(f):
    out = []
    for c in f.calls():
        if c.path in ("std::result::Result::<T, E>::expect", "std::result::Result::<T, E>::unwrap"):
            if "std::io::Error>::" in c.full:
                out.append((c, "%s on a Result<_, io::Error> at %s" % (c.name, c.loc())))
    # panic in the Err arm of a match on Result<_, io::Error>
    panic_blocks = [c for c in f.calls() if c.path in PANICS]
    if panic_blocks:
        for b in range(f.n):
            t = f.blocks[b]["t"]
            if t["k"] != "switch":
                continue
            e = expr_of_operand(f, t["x"])
            if e.k != "discr":
                continue
            # type of the scrutinee
            x = t["x"]
            scr = None
            for bb2, i, s in f.assigns():
                if s["place"]["l"] == x.get("l") and s["rv"]["k"] == "discr":
                    scr = s["rv"]["place"]
            if scr is None:
                continue
            ty = place_ty_text(f, scr)
            if "std::io::Error>" not in ty or "Result<" not in ty:
                continue
            err_t = None
            for v, tb in t["arms"]:
                if v == 1:
                    err_t = tb
            if err_t is None:
                err_t = t["otherwise"]
            for p in panic_blocks:
                if f.edge_dominates((b, err_t), p.bb) and p.bb in f.reachable(0):
                    out.append((p, "panic in the Err arm of a match on %s at %s" % (ty[:60], p.loc())))
    return out


def place_ty_text(f, place):
    if not place["p"] or all(pe == "deref" for pe in place["p"]):
        return f.locals[place["l"]]["t"]
    return f.locals[place["l"]]["t"]


def is_entry(f):
    if f.kind == "closure":
        return False
    rt = f.locals[0]
    if rt.get("path") != "std::result::Result":
        return False
    args = rt.get("args") or []
    if not args:
        return False
    okty = args[0]["t"]
    return "Protected<" in okty


def run(ctx, rep):
    rep.explanation = EXPLANATION
    rep.not_decided = NOT_DECIDED
    rep.level = "proof"
    rep.trust("in this crate std::io::Error values originate only from the lock/protect wrappers (checked: IO-ORIGIN)")
    rep.assume("cfg(unix), features nightly,serde,base64 (protected memory exists only with `nightly`)")
    for cfg in (["full"] if ctx.tier == "quick" else ["full", "nightly", "simd"]):
        check(ctx, rep, cfg)


def check(ctx, rep, cfg):
    prog = ctx.prog(cfg)
    tag = "" if cfg == "full" else "[%s]" % cfg
    entries = [f for f in prog.fns if is_entry(f)]
    rep.floor("Result-returning protected-memory constructors/transitions" + tag, len(entries), 30 if cfg != "nightly" else 24)
    # IO-ORIGIN: functions that create io::Error values
    origins = set()
    for f in prog.fns:
        for c in f.calls():
            if c.path in ("std::io::Error::last_os_error", "std::io::Error::new", "std::io::Error::other",
                          "std::io::Error::from_raw_os_error"):
                origins.add(f.path)
    bad_orig = [o for o in origins if not o.startswith("protected::")]
    rep.ob("IO-ORIGIN", "io::Error constructors" + tag, not bad_orig,
           "io::Error values are created in %s" % sorted(origins))
    total_sinks = 0
    for e in sorted(entries, key=lambda f: f.path + f.key):
        hits = reach_sinks_ctx(prog, [e], io_sinks)
        inst = "%s%s" % (e.path, tag)
        if not hits:
            rep.ob("NO-PANIC-ON-REFUSAL", inst + "#" + e.key.split("::")[-2] if False else inst, True,
                   "no lock-refusal panic reachable (%d functions searched)" % len(prog.reach_fns([e])), loc=e.loc(),
                   key="NO-PANIC-ON-REFUSAL|%s|%s" % (inst, e.key))
            continue
        seen = set()
        for chain, f, text, site in hits:
            k = (f.path, site.name if hasattr(site, "name") else "")
            if k in seen:
                continue
            seen.add(k)
            total_sinks += 1
            rep.violation("NO-PANIC-ON-REFUSAL", "%s|%s|%s" % (inst, f.path, site.name),
                          "%s; call chain: %s" % (text, " -> ".join(chain)), loc=site.loc())
    rep.sample({"entries": [e.path for e in entries][:12], "n_entries": len(entries)})
    # failure paths keep the handle whole: the storage record is never dropped by crate code (it would be
    # wiped without unprotect and never unlocked) -- shared with C14
    from .c14 import drop_discipline
    drop_discipline(rep, prog, tag)
    # positive example: the rule must be able to see a sink at all (zero-expected-count rule)
    all_sinks = sum(len(io_sinks(f)) for f in prog.fns)
    rep.ob("SELF-TEST", "sink recogniser matches somewhere in the crate" + tag, all_sinks >= 3,
           "%d io::Error expect/unwrap/panic sites exist in non-entry code (Clone/Default/NewBytes impls); "
           "the recogniser is alive" % all_sinks)
