"""CONST oracle: the libsodium-sys bindings the repository's own dev-dependencies vendor."""
import glob
import os
import re

from ..core import AnchorError


def bindings_path():
    pats = [os.path.expanduser("~/.cargo/registry/src/*/libsodium-sys-0.2.7/src/sodium_bindings.rs"),
            os.path.expanduser("~/.cargo/registry/src/*/libsodium-sys-*/src/sodium_bindings.rs")]
    cargo_home = os.environ.get("CARGO_HOME")
    if cargo_home:
        pats.insert(0, os.path.join(cargo_home, "registry/src/*/libsodium-sys-0.2.7/src/sodium_bindings.rs"))
    for p in pats:
        g = sorted(glob.glob(p))
        if g:
            return g[0]
    raise AnchorError("libsodium-sys bindings not found in the cargo registry")


def load_bindings():
    out = {}
    with open(bindings_path()) as fh:
        for line in fh:
            m = re.match(r"pub const (crypto_\w+|randombytes_\w+|sodium_\w+): (\w+) = (\d+);", line.strip())
            if m:
                out[m.group(1)] = int(m.group(3))
    return out


def compare(prog, rep, prefix_filter=None, tag=""):
    """Compare every `constants::NAME` (upper-case) with its libsodium namesake (case-insensitive
    on the primitive part).  Returns number of matched names."""
    b = load_bindings()
    bl = {k.upper(): v for k, v in b.items()}
    n = 0
    for path, c in sorted(prog.consts.items()):
        if not path.startswith("constants::"):
            continue
        name = path.split("::", 1)[1]
        if prefix_filter and not name.startswith(prefix_filter):
            continue
        if name not in bl or c.get("v") is None:
            continue
        n += 1
        v = c["v"]
        if isinstance(v, str):
            v = int(v)
        rep.ob("CONST", name + tag, v == bl[name],
               "dryoc %s = %s, libsodium = %s" % (name, v, bl[name]),
               loc="%s:%d" % (c["span"]["file"], c["span"]["lo"]))
    return n
