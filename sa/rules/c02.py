"""C02 — tampering is rejected (structural clauses).

Decided: (AUTH) every Ok exit of every opening function lies behind the success edge of a full-width
constant-time comparison of a freshly computed Poly1305 tag, or behind the Ok edge of a callee for
which that holds (least fixpoint over the call graph); (COVER) every wire/key component handed to
an opener flows into that comparison; (STREAM-MAC) the stream MAC absorbs AD, tag block, body and
both lengths on every path to the comparison.
"""
from ..core import operand_locals, strip_reborrow, def_sites
from ..engines import returns_result
from . import common as cm

PUBLIC_OPENERS = [
    "classic::crypto_secretbox::crypto_secretbox_open_detached",
    "classic::crypto_secretbox::crypto_secretbox_open_easy",
    "classic::crypto_secretbox::crypto_secretbox_open_easy_inplace",
    "classic::crypto_box::crypto_box_open_detached",
    "classic::crypto_box::crypto_box_open_detached_inplace",
    "classic::crypto_box::crypto_box_open_detached_afternm",
    "classic::crypto_box::crypto_box_open_detached_afternm_inplace",
    "classic::crypto_box::crypto_box_open_easy",
    "classic::crypto_box::crypto_box_open_easy_inplace",
    "classic::crypto_box::crypto_box_seal_open",
    "classic::crypto_secretstream_xchacha20poly1305::crypto_secretstream_xchacha20poly1305_pull",
    ("dryocbox::DryocBox", "decrypt"),
    ("dryocbox::DryocBox", "precalc_decrypt"),
    ("dryocbox::DryocBox", "unseal"),
    ("dryocbox::DryocBox", "decrypt_to_vec"),
    ("dryocbox::DryocBox", "precalc_decrypt_to_vec"),
    ("dryocbox::DryocBox", "unseal_to_vec"),
    ("dryocsecretbox::DryocSecretBox", "decrypt"),
    ("dryocsecretbox::DryocSecretBox", "decrypt_to_vec"),
    ("dryocstream::DryocStream", "pull"),
    ("dryocstream::DryocStream", "pull_to_vec"),
]

# public combined-mode openers and the fixed overhead of their wire format (public constants
# CRYPTO_SECRETBOX_MACBYTES, CRYPTO_BOX_MACBYTES, CRYPTO_BOX_SEALBYTES, ..._SECRETSTREAM_..._ABYTES)
COMBINED_OPENERS = [
    ("classic::crypto_secretbox::crypto_secretbox_open_easy", 16),
    ("classic::crypto_secretbox::crypto_secretbox_open_easy_inplace", 16),
    ("classic::crypto_box::crypto_box_open_easy", 16),
    ("classic::crypto_box::crypto_box_open_easy_inplace", 16),
    ("classic::crypto_box::crypto_box_seal_open", 48),
    ("classic::crypto_secretstream_xchacha20poly1305::crypto_secretstream_xchacha20poly1305_pull", 17),
]

MULTI_CONFIG = True

EXPLANATION = (
    "Static AUTH/PROV analysis on the MIR of every function from which a Poly1305 tag comparison is "
    "reachable. For each such Result-returning function every definition of the return place that can "
    "be Ok must be unreachable from entry once the success edges of accepted comparisons (subtle ct_eq "
    "on a computed tag, one operand a whole [u8;16]) and the Ok edges of already-authenticated callees "
    "are removed (least fixpoint). Edge polarity is computed by abstractly evaluating the switch "
    "condition under ct_eq=true/false and callee=Ok/Err, not by matching an idiom. Coverage: every "
    "parameter of an opener lies in the backward dependency slice of the arguments of its "
    "authenticating comparison/call; the stream MAC's update calls dominate the comparison and "
    "together depend on AD, tag block, body, |AD| and |body|. ACCEPT-LEN: no Ok-capable exit of a combined-mode "
    "opener (classic open_easy / seal_open / pull, DryocStream::pull) requires more than len >= the fixed overhead.")
NOT_DECIDED = (
    "that Poly1305, XSalsa20, ChaCha20 and X25519 compute the right functions, hence that every "
    "single flipped bit actually changes the recomputed tag; acceptance of the untampered input beyond its "
    "structural part (ACCEPT-LEN: the length guards of the combined-mode openers let the shortest valid "
    "ciphertext - fixed overhead, empty message - through).")


def run(ctx, rep):
    rep.explanation = EXPLANATION
    rep.not_decided = NOT_DECIDED
    rep.trust("rustc MIR construction and Instance::try_resolve (nightly 1.97)")
    rep.trust("subtle::ConstantTimeEq::ct_eq on [u8] is full-length equality (lengths compared first)")
    rep.trust("Poly1305/XSalsa20/ChaCha20/X25519 implementations are correct (value-level, not decided)")
    rep.assume("cfg(unix); feature configuration nightly,serde,base64 (default in thorough too)")
    for cfg in (["full"] if ctx.tier == "quick" else ["full", "default", "simd"]):
        check_config(ctx, rep, cfg)


def check_config(ctx, rep, cfg):
    prog = ctx.prog(cfg)
    tag = "" if cfg == "full" else "[%s]" % cfg
    roots, auth, results, cands = cm.openers(prog)
    # ---- AUTH --------------------------------------------------------------------------------
    n_auth = 0
    for f in sorted(cands, key=lambda f: f.path):
        if not returns_result(f):
            # a non-Result function that reaches an opener (e.g. a closure body or Debug impl):
            # nothing to authenticate unless it is public API returning a message; record it.
            continue
        r = results[f.key]
        inst = "%s%s" % (f.path, tag)
        if r.unrecognised:
            for a in r.unrecognised:
                rep.violation("AUTH", inst + "|polarity",
                              "cannot determine which edge is taken when the tag comparison at %s "
                              "succeeds (unrecognised idiom; failing closed)" % a.loc(), loc=a.loc())
            continue
        if not r.atoms:
            rep.violation("AUTH", inst + "|no-check",
                          "reaches an opening function but none of its own paths is conditioned on an "
                          "authenticated callee or tag comparison", loc=f.loc())
            continue
        if r.bad_exits:
            for b, path in r.bad_exits:
                rep.violation("AUTH", inst + "|ok-exit",
                              "an Ok return is reachable without passing the success edge of the tag "
                              "comparison (or the Ok edge of an authenticated callee): exit at %s via %s"
                              % (f.loc(b), cm.fmt_path(f, path)), loc=f.loc(b))
            continue
        n_auth += 1 if f.vis == "pub" else 0
        rep.ob("AUTH", inst, True, "%d Ok exit(s), all behind %d authenticating edge(s) of %s" % (
            r.ok_exits, len(r.good_edges),
            ", ".join(sorted({("ct_eq@%s" % a.line()) if k == "prim" else a.rpath.split("::")[-1]
                              for a, k in r.atoms}))), loc=f.loc())
        rep.sample({"fn": f.path, "ok_exits": r.ok_exits, "auth_edges": len(r.good_edges),
                    "via": [a.rpath for a, k in r.atoms][:4]})
    rep.floor("authenticated public openers" + tag, n_auth, 21)
    # named public entry points must exist and be authenticated (anchors are public API)
    for p in PUBLIC_OPENERS:
        if isinstance(p, tuple):
            fs = cm.find_method(prog, p[0], p[1])
            p = "%s::%s" % p
        else:
            fs = prog.by_path.get(p, [])
        if not fs:
            rep.violation("ANCHOR", p + tag, "public opening entry point not found in the crate (fail closed)")
            continue
        for f in fs:
            rep.ob("ENTRY", p + tag, f.key in auth,
                   "public opening entry point is %san authenticated opener" % ("" if f.key in auth else "NOT "),
                   loc=f.loc())
    # ---- width ---------------------------------------------------------------------------------
    for f in roots:
        for c in cm.mac_prim_atoms(f):
            ok, ws = cm.full_width(f, c, 16)
            rep.ob("WIDTH", "%s|ct_eq%s" % (f.path, tag), ok,
                   "operand widths %s; one operand must be a whole [u8;16] so that ct_eq (which compares "
                   "lengths first) can only succeed on a full 16-byte match" % (ws,), loc=c.loc())
    # ---- COVER ---------------------------------------------------------------------------------
    views = {f.key: f for f in cands}
    for k in sorted(auth):
        f = views.get(k, prog.by_key[k])      # the view the atoms were found in
        r = results[k]
        back = set()
        for a, kind in r.atoms:
            for i in range(len(a.args)):
                back |= f.backward_slice(operand_locals(a.args[i]))
        slice_in = any(f.locals[q]["t"] == "&[u8]" and q in back for q in cm.params_of(f))
        for p in cm.params_of(f):
            nm = cm.param_name(f, p)
            ty = f.locals[p]["t"]
            if p not in back and ty.startswith("&mut ") and slice_in and ty != "&mut classic::crypto_secretstream_xchacha20poly1305::State":
                # pure output of a copying form: the wire bytes arrive through an immutable
                # `&[u8]` parameter that does flow into the comparison
                rep.note("COVER: `%s` of %s is an output buffer (ciphertext arrives via a covered &[u8])" % (nm, f.path))
                continue
            rep.ob("COVER", "%s|%s%s" % (f.path, nm, tag), p in back,
                   "parameter `%s: %s` %s the arguments of the authenticating comparison/call" % (
                       nm, ty[:50], "flows into" if p in back else "does NOT flow into"), loc=f.loc())
    # ---- STREAM-MAC ----------------------------------------------------------------------------
    stream_roots = [f for f in roots if "secretstream" in f.path]
    if not stream_roots:
        rep.violation("ANCHOR", "stream pull root" + tag, "no stream opening root found")
    for f in stream_roots:
        stream_mac(rep, prog, f, tag)
    # ---- SEAL-NONCE ----------------------------------------------------------------------------
    sealers = prog.by_path.get("classic::crypto_box::crypto_box_seal_open", []) + cm.find_method(prog, "dryocbox::DryocBox", "unseal")
    rep.floor("sealed-box openers" + tag, len(sealers), 2)
    for f in sealers:
        seal_nonce(rep, prog, views.get(f.key, f), results, tag)
        faithful_copies(rep, prog, views.get(f.key, f), results, tag)
    # ---- ACCEPT-LEN ----------------------------------------------------------------------------
    # "the untampered input is always accepted", structural part: the shortest ciphertext the sealing side can
    # produce (that of the empty message: the fixed overhead and nothing else) gets past the length guards of
    # the combined-mode openers - no Ok-capable exit requires more than len >= overhead, capped only by a
    # MESSAGEBYTES_MAX style limit (a guard that lets shorter input through is C04's business)
    if cfg == "full":
        n_acc = 0
        for path, overhead in COMBINED_OPENERS:
            for f in prog.by_path.get(path, []):
                ps = [p for p in cm.params_of(f) if f.locals[p]["t"].replace("'_ ", "") == "&[u8]"] or \
                     [p for p in cm.params_of(f) if f.locals[p]["t"].replace("'_ ", "") == "&mut [u8]"]
                if len(ps) != 1:
                    rep.violation("ANCHOR", path + "|ciphertext", "cannot tell the ciphertext parameter of the public opener (fail closed)", loc=f.loc())
                    continue
                n_acc += cm.accepts_min_len(rep, prog, f, ps[0], overhead, "ACCEPT-LEN", path.split("::")[-1], cap=1 << 31, exact=False)
        for m in ("pull", "pull_to_vec"):
            for f in cm.find_method(prog, "dryocstream::DryocStream", m):
                ps = [p for p in cm.params_of(f) if p > 1 and f.locals[p]["t"].startswith("&") and not f.locals[p]["t"].startswith("&mut")]
                if len(ps) != 1:
                    rep.violation("ANCHOR", "DryocStream::%s|ciphertext" % m, "cannot tell the ciphertext parameter (fail closed)", loc=f.loc())
                    continue
                n_acc += cm.accepts_min_len(rep, prog, f, ps[0], 17, "ACCEPT-LEN", "DryocStream::" + m, cap=1 << 31, exact=False)
        rep.floor("combined-mode openers (Ok exits with a length guard)", n_acc, 8)
    # every accepted comparison has operands of equal static width (a slice ct_eq of unequal
    # lengths is constantly false; on the accept side that only rejects, but it signals a wrong operand)
    for f in roots:
        for c in cm.mac_prim_atoms(f):
            ok, ws = cm.equal_widths(f, c)
            rep.ob("WIDTH", "%s|equal operand widths%s" % (f.path, tag), ok, "operand widths %s" % (ws,), loc=c.loc())


def stream_mac(rep, prog, f, tag):
    from ..inline import inline
    f = inline(prog, f)     # private helpers (length encoding, padding, ...) folded in
    atoms = cm.mac_prim_atoms(f)
    if not atoms:
        return
    cmpb = atoms[0].bb
    ups = [c for c in f.calls() if cm.POLY_UPDATE.search(c.rpath) and c.bb in f.dom[cmpb]]
    # parameters by type, not by name: the wire bytes are the only `&[u8]`, the associated data the
    # only `Option<&[u8]>`
    def only(pred):
        c = [p for p in cm.params_of(f) if pred(f.locals[p]["t"])]
        return c[0] if len(c) == 1 else None
    ad = only(lambda t: t.startswith(("std::option::Option<&", "core::option::Option<&", "Option<&")) and "[u8]" in t and "mut" not in t)
    ct = only(lambda t: t in ("&[u8]", "&'_ [u8]"))
    if ad is None or ct is None:
        rep.violation("ANCHOR", f.path + "|params", "stream pull lacks ciphertext/associated_data parameters")
        return

    def len_locals(src):
        out = set()
        for c in f.calls():
            if c.path == "core::slice::<impl [T]>::len" and c.args:
                for l in operand_locals(c.args[0]):
                    if cm.view_info(f, l)[0] == src:
                        out.add(c.dest["l"])
        return out
    ad_len = len_locals(ad)
    ct_len = len_locals(ct)
    # buffers filled from a view of the ciphertext by copy_from_slice (message copy before the fix)
    ct_copies = set()
    le_fed = {}   # array root -> set of 'ad'/'ct' whose length reaches it via to_le_bytes
    for c in f.calls():
        if c.path in cm.COPY and len(c.args) == 2:
            dst = [cm.view_info(f, l)[0] for l in operand_locals(c.args[0])]
            srcl = list(operand_locals(c.args[1]))
            for sl in srcl:
                sroot = cm.view_info(f, sl)[0]
                if sroot == ct:
                    ct_copies.update(dst)
                sd = def_sites(f, sroot)
                if len(sd) == 1 and sd[0][1] == "call" and sd[0][2].path.endswith("::to_le_bytes"):
                    back = f.backward_slice(operand_locals(sd[0][2].args[0]))
                    for d in dst:
                        s_ = le_fed.setdefault(d, set())
                        if back & ad_len:
                            s_.add("ad")
                        if back & ct_len:
                            s_.add("ct")
    found = {"associated data bytes (whole)": None,
             "encrypted tag block (64 bytes, first byte from ciphertext[0])": None,
             "ciphertext body": None,
             "|AD| and |body| as little-endian lengths": None}
    for c in ups:
        ls = list(operand_locals(c.args[1]))
        if len(ls) != 1:
            continue
        root, narrowed = cm.view_info(f, ls[0])
        rty = f.locals[root]["t"]
        if root == ad and not narrowed:
            found["associated data bytes (whole)"] = c
        elif rty == "[u8; 64]" and not narrowed and ct in f.backward_slice([root]):
            found["encrypted tag block (64 bytes, first byte from ciphertext[0])"] = c
        elif root == ct or root in ct_copies:
            found["ciphertext body"] = c
        elif le_fed.get(root) == {"ad", "ct"} and not narrowed:
            found["|AD| and |body| as little-endian lengths"] = c
    # the byte of the tag block that comes from the wire is absorbed verbatim: the last store into the
    # block before the MAC update writes ciphertext[0] itself (no masking / re-encoding, which would let
    # distinct wire bytes produce the same MAC input)
    tb = found.get("encrypted tag block (64 bytes, first byte from ciphertext[0])")
    if tb is not None:
        from ..expr import expr_of_operand as _eo, evaluate as _ev, deep_repr as _dr
        root = cm.view_info(f, list(operand_locals(tb.args[1]))[0])[0]
        stores = [(b, st) for b, i, st in f.assigns() if st["place"]["l"] == root and st["place"]["p"] and b in f.dom.get(tb.bb, ())]
        last = [x for x in stores if not any(x[0] in f.dom.get(y[0], ()) and x[0] != y[0] for y in stores)]
        okv = False
        why = "no store into the tag block dominates the MAC update"
        if last:
            b_, st_ = last[-1]
            # several stores in the same block: take the last statement
            same = [x for x in stores if x[0] == b_]
            st_ = same[-1][1]
            e = _eo(f, st_["rv"]["x"]) if st_["rv"]["k"] == "use" else None
            okv = e is not None and e.k == "index" and e.a.k == "local" and e.a.a == ct and _ev(e.b, {}) == 0
            why = "last store into the tag block before the MAC update writes %s" % (_dr(e) if e is not None else st_["rv"]["k"])
        rep.ob("STREAM-MAC", "%s|tag byte absorbed verbatim%s" % (f.path, tag), okv, why, loc=tb.loc())
    for name, c in found.items():
        rep.ob("STREAM-MAC", "%s|%s%s" % (f.path, name, tag), c is not None,
               ("Poly1305::update at %s dominates the tag comparison and absorbs it" % c.loc()) if c
               else "no Poly1305::update call dominating the tag comparison absorbs the %s" % name,
               loc=c.loc() if c else f.loc(cmpb))


def seal_nonce(rep, prog, f, results, tag):
    """Sealed-box openers: the nonce handed to the authenticating call must depend on both the
    ephemeral key carried by the ciphertext/object and the recipient public key."""
    r = results.get(f.key)
    if r is None:
        return
    for a, kind in r.atoms:
        if kind != "call":
            continue
        for i, arg in enumerate(a.args):
            ls = list(operand_locals(arg))
            if not ls:
                continue
            root, _ = cm.view_info(f, ls[0])
            if "[u8; 24]" not in f.locals[root]["t"] and "[u8; 24]" not in f.locals[ls[0]]["t"]:
                continue
            back = f.backward_slice([root])
            srcs = [p for p in cm.params_of(f) if p in back]
            names = [cm.param_name(f, p) for p in srcs]
            wire = [p for p in srcs if f.locals[p]["t"] in ("&[u8]",) or cm.param_name(f, p) == "self"]
            pk = [p for p in srcs if p not in wire]
            rep.ob("SEAL-NONCE", "%s|nonce%s" % (f.path, tag), bool(wire) and bool(pk),
                   "nonce argument of %s depends on parameters %s; it must depend on the ephemeral key "
                   "carried by the ciphertext/object and on the recipient public key" % (a.rpath.split("::")[-1], names),
                   loc=a.loc())


def faithful_copies(rep, prog, f, results, tag):
    """Local buffers that carry wire components from the ciphertext to the authenticating call (the
    ephemeral key copy, the derived nonce) are written exactly once before that call: by the copy of
    the ciphertext bytes, respectively by the nonce derivation. Any other write (masking a bit,
    normalising) makes distinct wire values collide."""
    r = results.get(f.key)
    if r is None:
        return
    for a, kind in r.atoms:
        if kind != "call":
            continue
        for i, arg in enumerate(a.args):
            ls = list(operand_locals(arg))
            if not ls:
                continue
            root, _ = cm.view_info(f, ls[0])
            if root <= f.argc or not f.locals[root]["t"].startswith("[u8; "):
                continue
            evs = [e for e in cm.write_events(f, root) if e[0] in f.dom.get(a.bb, ()) or e[0] == a.bb]
            evs = [e for e in evs if not (e[3] is not None and e[3].bb == a.bb)]
            copies = [e for e in evs if e[3] is not None and (e[3].path in cm.COPY)]
            derivs = [e for e in evs if e[3] is not None and e[3].is_local and e[3].path not in cm.COPY]
            others = [e for e in evs if e not in copies and e not in derivs]
            ok = len(evs) == 1 and not others
            rep.ob("FAITHFUL", "%s|%s%s" % (f.path, f.local_name(root), tag), ok,
                   "buffer `%s` passed to %s is written %d time(s) before the call: %s" % (
                       f.local_name(root), a.rpath.split("::")[-1], len(evs), [e[2] for e in evs]), loc=a.loc())
