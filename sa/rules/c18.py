"""C18 — backend / container independence (structural clauses)."""
import re
from collections import Counter

from ..core import operand_locals
from ..expr import expr_of_operand, call_arg_exprs, deep_repr, expr_of_local, evaluate
from . import common as cm

EXPLANATION = (
    "SIB: the software BLAKE2b backend (extracted from the default configuration) and the portable-SIMD "
    "backend (extracted from nightly+simd_backend) are compared function by function outside the "
    "compression function: the multiset of branch conditions, overflow/bounds assertions and calls that "
    "touch the input, the pending buffer, the byte counter or the finalisation flags must be identical "
    "after erasing temporaries and the state-lane representation (h[..] vs a/b vectors). Any one-sided "
    "change to buffering, padding, counter or parameter handling is reported with both sites. SURFACE: both "
    "modules offer the same functions to the rest of the crate. ACCESSORS: every Bytes/MutBytes/ByteArray/"
    "MutByteArray/AsRef/AsMut/Deref(Mut) impl of the crate's containers is a pure projection of its storage "
    "(no arithmetic, no narrowing except the documented `[..LENGTH]` prefix of slice-like types), and "
    "Bytes::len/is_empty read the same storage as as_slice.")
NOT_DECIDED = ("equivalence of the scalar and SIMD compression functions (value-level); sha2's asm backend; "
               "curve25519 backends; that outputs are bit-identical across configurations.")

COMPARE = ["update", "finalize", "init", "increment_counter", "set_lastblock", "set_lastnode", "is_lastblock",
           "hash", "longhash", "init0", "init_param"]
# representation-specific: the state lanes (h[..] vs a/b vectors) and the byte view of the parameter
# block the lanes are initialised from
LANE = re.compile(r"\.(h|a|b)\b|from_raw_parts\(")


def norm(s, argc):
    def rep(m):
        n = int(m.group(1))
        return "_%d" % n if n <= argc else "_t"
    s = re.sub(r"_(\d+)\b", rep, s)
    s = s.replace("blake2b_soft", "B").replace("blake2b_simd", "B")
    return s


def crepr(e, depth=0):
    """Canonical text of an expression: like deep_repr, but insensitive to how a comparison is
    spelled (a < b, b > a, !(a >= b) all read LT(a, b); == and != read EQ with sorted operands), to
    `?` versus `match` (Try::branch is transparent), to logical negation, and to value-preserving
    integer casts of lengths."""
    from ..expr import E
    if e is None:
        return "?"
    if depth > 8:
        return "..."
    if e.k == "call":
        nm = e.a.rpath.split("::")[-1]
        ax = call_arg_exprs(e.a)
        if e.a.path == "std::ops::Try::branch" and ax:
            return crepr(ax[0], depth + 1)
        return "%s(%s)" % (nm, ", ".join(crepr(a, depth + 1) for a in ax))
    if e.k == "binop":
        l, r = crepr(e.b, depth + 1), crepr(e.c, depth + 1)
        op = e.a
        if op in ("Lt", "Ge"):
            return "LT(%s, %s)" % (l, r)
        if op in ("Gt", "Le"):
            return "LT(%s, %s)" % (r, l)
        if op in ("Eq", "Ne"):
            x, y = sorted([l, r])
            return "EQ(%s, %s)" % (x, y)
        return "(%s %s %s)" % (l, op, r)
    if e.k == "unop":
        if e.a == "Not":
            return crepr(e.b, depth + 1)
        return "%s(%s)" % (e.a, crepr(e.b, depth + 1))
    if e.k == "cast":
        return crepr(e.a, depth + 1)
    if e.k in ("discr", "repeat"):
        return "%s(%s)" % (e.k, crepr(e.a, depth + 1))
    if e.k == "field":
        b_ = e.b
        if b_ in ("Continue.0", "Ok.0"):
            b_ = "Ok.0"
        return "%s.%s" % (crepr(e.a, depth + 1), b_)
    if e.k == "index":
        return "%s[%s]" % (crepr(e.a, depth + 1), crepr(e.b, depth + 1) if isinstance(e.b, E) else "?")
    if e.k == "agg":
        return "%s::%s{%s}" % (e.a, e.b, ", ".join(crepr(o, depth + 1) for o in (e.c or [])))
    return repr(e)


def backend_view(prog, f, other_names):
    """the function with the helpers that exist in this backend only folded in (a helper extracted
    or inlined on one side is not a difference); functions both backends have are compared as pairs"""
    from ..inline import inline
    mod = "blake2b::blake2b_"

    def pick(call, g):
        if mod not in g.path or g.kind == "closure":
            return False
        short = g.path.split(mod, 1)[1].split("::", 1)[1].replace(">", "")
        if g.name in ("compress", "load_u64_le", "loadm", "g1", "g2", "permute", "unpermute", "rotru64"):
            return False
        return short not in other_names
    return inline(prog, f, pick=pick)


def signature(prog, f0, other_names=()):
    f = backend_view(prog, f0, set(other_names))
    sig = Counter()
    sites = {}
    reach = f.reachable(0)
    for b in sorted(reach):
        blk = f.blocks[b]
        if blk["cleanup"]:
            continue
        t = blk["t"]
        if t["k"] == "switch":
            e = expr_of_operand(f, t["x"])
            if isinstance(evaluate(e, {}), (bool, int)):
                continue
            s = norm(crepr(e), f.argc)
            if LANE.search(s):
                continue
            k = "branch on %s" % s
            sig[k] += 1
            sites.setdefault(k, f.loc(b))
        elif t["k"] == "assert":
            e = expr_of_operand(f, t["cond"])
            if isinstance(evaluate(e, {}), (bool, int)):
                continue    # constant-index bounds check and the like
            s = norm(crepr(e), f.argc)
            if LANE.search(s):
                continue
            k = "assert %s %s" % (t["msg"], s)
            sig[k] += 1
            sites.setdefault(k, f.loc(b))
        elif t["k"] == "call":
            c = f.call_at(b)
            nm = c.rpath.split("::")[-1]
            if nm in ("compress", "zeroize", "load_u64_le", "loadm") or c.path.startswith(("std::simd", "core::simd", "core::core_simd", "std::core_simd")) or "Simd<" in c.full or "Simd::<" in c.full:
                if nm == "compress":
                    sig["call compress"] += 1
                continue
            if c.path.startswith(("std::fmt", "core::fmt", "core::panicking", "std::hint", "std::convert::From::from", "std::ops::FromResidual", "std::ops::Try")) or nm in ("format", "must_use"):
                continue
            args = [norm(crepr(a), f.argc) for a in call_arg_exprs(c)]
            if any(LANE.search(a) for a in args):
                continue
            k = "call %s(%s)" % (nm, ", ".join(a[:90] for a in args))
            sig[k] += 1
            sites.setdefault(k, c.loc())
    return sig, sites


PURE_CALLS = {"index", "index_mut", "len", "is_empty", "deref", "deref_mut", "as_slice", "as_mut_slice", "as_ref", "as_mut",
              "chunks_exact", "chunks", "iter", "iter_mut", "into_iter", "next", "enumerate", "zip", "min", "max", "size_of",
              "default", "as_ptr", "as_mut_ptr", "unwrap", "expect", "try_from", "try_into", "into", "split_at", "split_at_mut",
              "get", "get_mut", "first", "last", "remainder", "is_some", "is_none", "is_ok", "is_err", "unwrap_or", "clone"}


def effectful(key):
    if not key.startswith("call "):
        return False
    nm = key[5:].split("(", 1)[0]
    return nm not in PURE_CALLS


def module_fns(prog, mod):
    out = {}
    for f in prog.fns:
        if f.kind == "closure":
            continue
        if ("blake2b::%s::" % mod) in f.path and "::tests::" not in f.path:
            out[f.path.split("blake2b::%s::" % mod, 1)[1].replace(">", "")] = f
    return out


def run(ctx, rep):
    rep.explanation = EXPLANATION
    rep.not_decided = NOT_DECIDED
    rep.trust("the two configurations are extracted from the same source tree in the same run (digest recorded)")
    soft = ctx.prog("default")
    simd = ctx.prog("simd")
    full = ctx.prog("full")
    sf = module_fns(soft, "blake2b_soft")
    mf = module_fns(simd, "blake2b_simd")
    rep.ob("SELECT", "default selects blake2b_soft only", bool(sf) and not module_fns(soft, "blake2b_simd"), "%d soft functions in the default configuration" % len(sf))
    rep.ob("SELECT", "simd selects blake2b_simd only", bool(mf) and not module_fns(simd, "blake2b_soft"), "%d simd functions in the simd configuration" % len(mf))
    rep.ob("SELECT", "nightly without simd_backend uses the software backend", bool(module_fns(full, "blake2b_soft")) and not module_fns(full, "blake2b_simd"),
           "full (nightly,serde,base64) configuration")
    n = 0
    for name in sorted(set(sf) | set(mf)):
        short = name.split("::")[-1]
        if short not in COMPARE:
            continue
        a, b = sf.get(name), mf.get(name)
        if a is None or b is None:
            # a private helper present in one backend only is not a difference in itself: its body is
            # compared where it is folded into its callers; a function the rest of the crate uses must
            # exist in both (SURFACE, below)
            continue
        n += 1
        sa_, la = signature(soft, a, set(mf))
        sb_, lb = signature(simd, b, set(sf))
        if short in ("init0", "init_param"):
            # lane initialisation differs by construction: compare guards/asserts only
            sa_ = Counter({k: v for k, v in sa_.items() if not k.startswith("call ")})
            sb_ = Counter({k: v for k, v in sb_.items() if not k.startswith("call ")})
        # elements that mention no parameter/field are constant-only (lane loops, constant indices):
        # representation detail, not a decision about input or state
        ref = re.compile(r"_[1-9]\b")
        sa_ = Counter({k: v for k, v in sa_.items() if ref.search(k) or k == "call compress"})
        sb_ = Counter({k: v for k, v in sb_.items() if ref.search(k) or k == "call compress"})
        # decisions (branch conditions, assertions) and pure reads (index, len, iterators, ...) are
        # compared as sets: testing the same condition once or twice, or re-slicing the same range, is
        # not a difference; calls with effects are compared with multiplicity
        def flat(cn):
            return Counter({k: (v if effectful(k) else 1) for k, v in cn.items()})
        sa_, sb_ = flat(sa_), flat(sb_)
        only_a = sa_ - sb_
        only_b = sb_ - sa_
        if short == "finalize":
            # output extraction reads the lanes: to_le_bytes/copy_from_slice pairs may differ in operand spelling only
            only_a = Counter({k: v for k, v in only_a.items() if "to_le_bytes" not in k})
            only_b = Counter({k: v for k, v in only_b.items() if "to_le_bytes" not in k})
        ok = not only_a and not only_b
        detail = "%d decision/call sites agree" % sum(sa_.values()) if ok else (
            "software-only: %s | SIMD-only: %s" % (
                ["%s @%s" % (k, la.get(k)) for k in only_a][:4], ["%s @%s" % (k, lb.get(k)) for k in only_b][:4]))
        rep.ob("SIB", name, ok, detail, loc=a.loc())
        rep.sample({"fn": name, "sites": sum(sa_.values())})
    rep.floor("backend function pairs compared", n, 6)
    # constants of the module agree
    for cname in ("BLOCKBYTES", "OUTBYTES", "KEYBYTES", "SALTBYTES", "PERSONALBYTES"):
        va = [c["v"] for p, c in soft.consts.items() if p.endswith("blake2b_soft::" + cname)]
        vb = [c["v"] for p, c in simd.consts.items() if p.endswith("blake2b_simd::" + cname)]
        rep.ob("SIB", "const " + cname, va == vb and bool(va), "software %s, SIMD %s" % (va, vb))
    # surface used by the rest of the crate
    def used_outside(prog, fns):
        out = set()
        keys = {f.key: n for n, f in fns.items()}
        for g in prog.fns:
            if "blake2b::blake2b_" in g.path:
                continue
            for c in g.calls():
                k = c.rkey
                if k in keys:
                    out.add(keys[k])
        return out
    ua, ub = used_outside(soft, sf), used_outside(simd, mf)
    rep.ob("SURFACE", "functions used by the rest of the crate", ua == ub and len(ua) >= 4, "software %s; SIMD %s" % (sorted(ua), sorted(ub)))
    accessors(rep, full)


ACC_TRAITS = {"types::Bytes": ("as_slice", "len", "is_empty"), "types::MutBytes": ("as_mut_slice",),
              "types::ByteArray": ("as_array",), "types::MutByteArray": ("as_mut_array",),
              "std::convert::AsRef": ("as_ref",), "std::convert::AsMut": ("as_mut",),
              "std::ops::Deref": ("deref",), "std::ops::DerefMut": ("deref_mut",)}
SLICE_LIKE = ("std::vec::Vec<u8>", "[u8]", "&[u8]", "&mut [u8]")


def storage_path(f):
    """normalised expression of what an accessor returns / measures"""
    e = expr_of_local(f, 0)
    return norm(deep_repr(e), f.argc)


def accessors(rep, prog):
    n = 0
    for imp in prog.impls:
        tr = imp.get("trait")
        if tr not in ACC_TRAITS:
            continue
        st = imp["self_ty"]["t"]
        if st.startswith("protected::PAGESIZE"):
            continue
        if not (st.startswith(("types::", "protected::", "precalc::", "kx::")) or st in SLICE_LIKE or st.startswith("[u8;") or st.startswith("&[u8;")):
            continue
        methods = {it["name"]: prog.by_key.get(it["key"]) for it in imp["items"]}
        for m in ACC_TRAITS[tr]:
            f = methods.get(m)
            if f is None:
                continue
            n += 1
            inst = "<%s as %s>::%s" % (st, tr.split("::")[-1], m)
            arith = [s for b, i, s in f.assigns() if s["rv"]["k"] == "binop" and not f.blocks[b]["cleanup"]
                     and s["rv"]["op"].replace("WithOverflow", "") in ("Add", "Sub", "Mul", "Div", "Rem", "Shl", "Shr", "Offset")]
            if m in ("len", "is_empty"):
                calls = [c for c in f.calls() if not f.blocks[c.bb]["cleanup"]]
                ok = not arith and all(c.name in ("len", "is_empty", "as_slice", "deref", "as_ref", "unwrap", "as_ref") or c.path.startswith("core::panicking") for c in calls)
                rep.ob("ACCESSOR", inst, ok, "measures its storage directly (%s)" % storage_path(f)[:80], loc=f.loc())
                continue
            pure = f.key in prog.reslicers
            narrowing = f.key in prog.narrowing_reslicers
            if not pure:
                # the accessor may go through private helpers (a shared length assertion, a shared
                # pointer cast): judge the body with those folded in
                pure, narrowing = pure_view_body(prog, f)
            allowed_prefix = (st in SLICE_LIKE) and m in ("as_array", "as_mut_array")
            ok = pure and not arith and (not narrowing or allowed_prefix or is_index_impl(imp))
            rep.ob("ACCESSOR", inst, ok,
                   "pure projection of the storage: %s" % storage_path(f)[:80] if ok else
                   "accessor is not a pure projection (%s%s%s)" % ("calls non-view functions or writes; " if not pure else "",
                                                                   "arithmetic; " if arith else "", "narrows the view" if narrowing and not allowed_prefix else ""),
                   loc=f.loc())
        # len agrees with as_slice on the same storage
        if tr == "types::Bytes" and methods.get("as_slice") and methods.get("len"):
            a = storage_path(methods["as_slice"])
            l = storage_path(methods["len"])
            root_a = re.sub(r"^(as_slice|deref|as_ref|as_mut_slice)\((.*)\)$", r"\2", a)
            root_l = re.sub(r"^(len)\((.*)\)$", r"\2", l)
            root_l = re.sub(r"^(as_slice|deref|as_ref)\((.*)\)$", r"\2", root_l)
            same = strip_views(root_a) == strip_views(root_l)
            rep.ob("ACCESSOR", "<%s as Bytes>::len == as_slice().len()" % st, same, "as_slice: %s; len: %s" % (a[:70], l[:70]), loc=methods["len"].loc())
    rep.floor("accessor methods", n, 40)


PURE_READS = ("core::slice::<impl [T]>::len", "std::vec::Vec::<T, A>::len", "core::slice::<impl [T]>::is_empty",
              "std::vec::Vec::<T, A>::is_empty", "types::Bytes::len", "types::Bytes::is_empty",
              "core::slice::<impl [T]>::as_ptr", "core::slice::<impl [T]>::as_mut_ptr", "std::vec::Vec::<T, A>::as_ptr",
              "std::vec::Vec::<T, A>::as_mut_ptr")
NARROW_CALLS = ("std::ops::IndexMut::index_mut", "std::ops::Index::index", "core::slice::<impl [T]>::split_at_mut",
                "core::slice::<impl [T]>::split_at", "core::slice::<impl [T]>::first_mut", "core::slice::<impl [T]>::last_mut")


def pure_view_body(prog, f0):
    """(pure, narrowing) for an accessor judged with its private helpers folded in: it stores through
    no parameter, and calls nothing but view functions, pure reads (len/is_empty/as_ptr) and the
    panic/format machinery of assertions; the returned reference derives from the receiver."""
    from ..inline import inline
    from ..engines import RESLICE
    f = inline(prog, f0)
    if f.locals[0].get("k") != "ref" or f.argc < 1:
        return False, False
    for b, i, st in f.assigns():
        if "deref" in st["place"]["p"] and st["place"]["l"] != 0 and not f.blocks[b]["cleanup"]:
            return False, False
    narrowing = False
    for c in f.calls():
        if f.blocks[c.bb]["cleanup"]:
            continue
        if c.path in NARROW_CALLS or c.rpath in NARROW_CALLS or (c.rkey in prog.narrowing_reslicers):
            narrowing = True
            continue
        if c.path in RESLICE or c.rpath in RESLICE or c.path in PURE_READS or c.rpath in PURE_READS or (c.rkey or "") in prog.reslicers:
            continue
        if c.path.startswith(("core::panicking", "std::fmt", "core::fmt", "std::rt::panic", "core::fmt::rt")) or "Arguments" in c.path:
            continue
        return False, False
    # the result derives from the receiver (parameter 1)
    if 1 not in f.backward_slice([0]):
        return False, False
    return True, narrowing


def strip_views(s):
    prev = None
    while prev != s:
        prev = s
        s = re.sub(r"^(as_slice|deref|as_ref|as_mut_slice|unwrap|as_mut|deref_mut)\((.*)\)$", r"\2", s)
    return s


def is_index_impl(imp):
    return False
