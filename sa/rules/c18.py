"""C18 — backend / container independence (structural clauses)."""
import re
from collections import Counter

from ..core import operand_locals
from ..expr import expr_of_operand, call_arg_exprs, deep_repr, expr_of_local, evaluate
from . import common as cm

EXPLANATION = (
    "SIB: the software BLAKE2b backend (extracted from the default configuration) and the portable-SIMD "
    "backend (extracted from nightly+simd_backend) are compared function by function outside the "
    "compression function: the multiset of branch conditions, overflow/bounds assertions and calls that "
    "touch the input, the pending buffer, the byte counter or the finalisation flags must be identical "
    "after erasing temporaries and the state-lane representation (h[..] vs a/b vectors). Any one-sided "
    "change to buffering, padding, counter or parameter handling is reported with both sites. SURFACE: both "
    "modules offer the same functions to the rest of the crate. ACCESSORS: every Bytes/MutBytes/ByteArray/"
    "MutByteArray/AsRef/AsMut/Deref(Mut) impl of the crate's containers is a pure projection of its storage "
    "(no arithmetic, no narrowing except the documented `[..LENGTH]` prefix of slice-like types), and "
    "Bytes::len/is_empty read the same storage as as_slice. CTOR-COPY: every conversion of a crate container from a "
    "byte source (From<&[u8]>, From<&[u8; N]>, From<[u8; N]>, From<StackByteArray>, TryFrom<&[u8]>), every Clone of "
    "one and every MutBytes::copy_from_slice impl lets the contents of the source (not just its length) reach the "
    "result. RESIZE prefix copy: a replacement resize copies old[..n] to new[..n]. Parameter words: a backend that "
    "spells the eight BLAKE2b parameter words out as constant ranges reads each [8i, 8i+8) once, in order.")
NOT_DECIDED = ("equivalence of the scalar and SIMD compression functions (value-level); sha2's asm backend; "
               "curve25519 backends; that outputs are bit-identical across configurations.")

COMPARE = ["update", "finalize", "init", "increment_counter", "set_lastblock", "set_lastnode", "is_lastblock",
           "hash", "longhash", "init0", "init_param"]
# representation-specific: the state lanes (h[..] vs a/b vectors) and the byte view of the parameter
# block the lanes are initialised from
LANE = re.compile(r"\.(h|a|b)\b|from_raw_parts\(")


def norm(s, argc):
    def rep(m):
        n = int(m.group(1))
        return "_%d" % n if n <= argc else "_t"
    s = re.sub(r"_(\d+)\b", rep, s)
    s = s.replace("blake2b_soft", "B").replace("blake2b_simd", "B")
    return s


def crepr(e, depth=0):
    """Canonical text of an expression: like deep_repr, but insensitive to how a comparison is
    spelled (a < b, b > a, !(a >= b) all read LT(a, b); == and != read EQ with sorted operands), to
    `?` versus `match` (Try::branch is transparent), to logical negation, and to value-preserving
    integer casts of lengths."""
    from ..expr import E
    if e is None:
        return "?"
    if depth > 8:
        return "..."
    if e.k == "call":
        nm = e.a.rpath.split("::")[-1]
        ax = call_arg_exprs(e.a)
        if e.a.path == "std::ops::Try::branch" and ax:
            return crepr(ax[0], depth + 1)
        if e.a.path in ("std::convert::From::from", "std::convert::Into::into") and len(ax) == 1:
            return crepr(ax[0], depth + 1)       # lossless conversion, like a widening cast
        return "%s(%s)" % (nm, ", ".join(crepr(a, depth + 1) for a in ax))
    if e.k == "binop":
        l, r = crepr(e.b, depth + 1), crepr(e.c, depth + 1)
        op = e.a
        if op in ("Lt", "Ge"):
            return "LT(%s, %s)" % (l, r)
        if op in ("Gt", "Le"):
            return "LT(%s, %s)" % (r, l)
        if op in ("Eq", "Ne"):
            x, y = sorted([l, r])
            return "EQ(%s, %s)" % (x, y)
        base = op.replace("WithOverflow", "").replace("Unchecked", "").replace("Wrapping", "")
        if base in ("Add", "Mul", "BitOr", "BitAnd", "BitXor"):
            l, r = sorted([l, r])
        return "(%s %s %s)" % (l, base, r)
    if e.k == "unop":
        if e.a == "Not":
            return crepr(e.b, depth + 1)
        return "%s(%s)" % (e.a, crepr(e.b, depth + 1))
    if e.k == "cast":
        from ..expr import INT_BITS
        v = evaluate(e.a, {})
        bits = INT_BITS.get(str(e.b))
        if isinstance(v, int) and not isinstance(v, bool) and bits in (8, 16, 32, 64, 128):
            return "const(%d)" % (v % (1 << bits))      # `-1i64 as u64` is u64::MAX
        return crepr(e.a, depth + 1)
    if e.k in ("discr", "repeat"):
        return "%s(%s)" % (e.k, crepr(e.a, depth + 1))
    if e.k == "field":
        b_ = e.b
        if b_ in ("Continue.0", "Ok.0"):
            b_ = "Ok.0"
        if b_ == "0" and e.a.k == "binop" and "WithOverflow" in e.a.a:
            return crepr(e.a, depth + 1)       # the value of a checked arithmetic pair
        return "%s.%s" % (crepr(e.a, depth + 1), b_)
    if e.k == "index":
        return "%s[%s]" % (crepr(e.a, depth + 1), crepr(e.b, depth + 1) if isinstance(e.b, E) else "?")
    if e.k == "agg":
        return "%s::%s{%s}" % (e.a, e.b, ", ".join(crepr(o, depth + 1) for o in (e.c or [])))
    return repr(e)


def backend_view(prog, f, other_names):
    """the function with the helpers that exist in this backend only folded in (a helper extracted
    or inlined on one side is not a difference); functions both backends have are compared as pairs"""
    from ..inline import inline
    mod = "blake2b::blake2b_"

    def pick(call, g):
        if mod not in g.path or g.kind == "closure":
            return False
        short = g.path.split(mod, 1)[1].split("::", 1)[1].replace(">", "")
        if g.name in ("compress", "load_u64_le", "loadm", "g1", "g2", "permute", "unpermute", "rotru64"):
            return False
        return short not in other_names
    return inline(prog, f, pick=pick, value_combinators=True)


def leaves(e, argc, depth=0):
    """the set of things an expression is built from: parameters (`_N`), fields of parameters
    (`_1.buf`), integer constants, lengths of those (`len(..)`), and the names of non-adapter calls;
    temporaries with several definitions read `_t`.  Slicing/borrowing adapters are transparent."""
    from ..expr import E
    out = set()
    if e is None or depth > 10:
        return out
    if e.k == "const":
        if isinstance(e.a, int) and not isinstance(e.a, bool):
            out.add("c%d" % e.a)
        elif e.b:
            out.add("c:%s" % str(e.b).split("::")[-1])
        return out
    if e.k == "local":
        out.add("_%d" % e.a if e.a <= argc else "_t")
        return out
    if e.k == "field":
        base = e
        names = []
        while base is not None and base.k == "field":
            names.append(e.b if base is e else base.b)
            base = base.a
        if base is not None and base.k == "local" and base.a <= argc and not any(n_[0].isdigit() or n_[0].isupper() for n_ in names):
            out.add("_%d.%s" % (base.a, ".".join(reversed(names))))
            return out
        return leaves(e.a, argc, depth + 1)
    if e.k == "call":
        nm = e.a.rpath.split("::")[-1]
        ax = call_arg_exprs(e.a)
        if nm in ("len", "is_empty") and ax:
            out.add("len(%s)" % ",".join(sorted(leaves(ax[0], argc, depth + 1))))
            return out
        if nm not in PURE_CALLS and not e.a.path.startswith(("std::ops::Try", "std::convert")):
            out.add(nm + "()")
        for a in ax:
            out |= leaves(a, argc, depth + 1)
        return out
    for x in (e.a, e.b, e.c):
        if isinstance(x, E):
            out |= leaves(x, argc, depth + 1)
        elif isinstance(x, (list, tuple)):
            for y in x:
                if isinstance(y, E):
                    out |= leaves(y, argc, depth + 1)
    return out


def decision(e, argc):
    """canonical, spelling-independent form of a branch condition: (relation, leaves of the smaller
    side, leaves of the larger side); `a < b`, `b > a`, `!(a >= b)` agree, `==`/`!=` are unordered,
    `x.is_empty()` is `len(x) == 0`, `?`/negation are transparent"""
    while e is not None and ((e.k == "unop" and e.a == "Not") or e.k == "cast"):
        e = e.b if e.k == "unop" else e.a
    if e is None:
        return None
    if e.k == "call" and e.a.path == "std::ops::Try::branch":
        ax = call_arg_exprs(e.a)
        return decision(ax[0], argc) if ax else None
    fmt = lambda s_: "{%s}" % ",".join(sorted(s_))
    if e.k == "binop" and e.a in ("Lt", "Ge", "Gt", "Le"):
        l, r = leaves(e.b, argc), leaves(e.c, argc)
        if e.a in ("Gt", "Le"):
            l, r = r, l
        return "LT %s %s" % (fmt(l), fmt(r))
    if e.k == "binop" and e.a in ("Eq", "Ne"):
        l, r = fmt(leaves(e.b, argc)), fmt(leaves(e.c, argc))
        return "EQ %s %s" % tuple(sorted([l, r]))
    if e.k == "call" and e.a.rpath.split("::")[-1] == "is_empty":
        ax = call_arg_exprs(e.a)
        return "EQ %s %s" % tuple(sorted(["{c0}", "{len(%s)}" % ",".join(sorted(leaves(ax[0], argc)))]))
    if e.k == "discr":
        return "MATCH %s" % fmt(leaves(e.a, argc))
    return "TEST %s" % fmt(leaves(e, argc))


def signature(prog, f0, other_names=()):
    """What a backend function decides and does, independent of how it is spelled: the set of its
    decisions over inputs/state (see `decision`), and its effectful calls (by name, with multiplicity).
    Pure reads, slicing idioms, temporaries, `?` vs `match`, helper boundaries and arithmetic-overflow
    assertions are not part of the signature."""
    f = backend_view(prog, f0, set(other_names))
    sig = Counter()
    sites = {}
    reach = f.reachable(0)
    ref = re.compile(r"_[1-9]")
    for b in sorted(reach):
        blk = f.blocks[b]
        if blk["cleanup"]:
            continue
        t = blk["t"]
        # values stored into the caller-visible state (through a parameter): the arithmetic itself,
        # canonicalised (commutative operands sorted, casts and checked-arithmetic wrappers transparent)
        for st in blk["s"]:
            if st["k"] != "assign" or not st["place"]["p"] or "deref" not in st["place"]["p"]:
                continue
            from ..core import strip_reborrow
            base_l = strip_reborrow(f, st["place"]["l"])[-1]       # the receiver of a folded-in helper is the caller's
            if not (1 <= base_l <= f.argc):
                continue
            rv = st["rv"]
            if rv["k"] not in ("use", "cast", "binop", "unop"):
                continue
            from ..expr import expr_of_def
            i_ = blk["s"].index(st)
            val = norm(crepr(expr_of_def(f, -1, "assign", st, 0, None, (b, i_))), f.argc)
            place = "_%d%s" % (base_l, "".join(("[%s]" % pe.get("cidx", "i")) if isinstance(pe, dict) and ("cidx" in pe or "idx" in pe)
                                                        else (".%s" % pe["n"] if isinstance(pe, dict) and "f" in pe else "") for pe in st["place"]["p"]))
            if LANE.search(val) or LANE.search(place) or "_t" in val and not ref.search(val):
                continue
            k = "store %s := %s" % (place, val[:160])
            sig[k] += 1
            sites.setdefault(k, "%s:%s" % (blk.get("file", f.file), (st.get("ln") or [f.lo])[0] if isinstance(st.get("ln"), list) else st.get("ln")))
        if t["k"] == "switch":
            e = expr_of_operand(f, t["x"])
            if isinstance(evaluate(e, {}), (bool, int)):
                continue
            if LANE.search(norm(crepr(e), f.argc)):
                continue
            d = decision(e, f.argc)
            if d is None or not ref.search(d):
                continue      # decisions over temporaries/constants only: loop counters, lane indices
            k = "branch on %s" % d
            sig[k] = 1
            sites.setdefault(k, f.loc(b))
        elif t["k"] == "assert":
            if t["msg"].startswith(("Overflow", "BoundsCheck", "DivisionByZero", "RemainderByZero")) or "Pointer" in t["msg"]:
                continue      # compiler-inserted checks of the arithmetic/indexing spelling
            e = expr_of_operand(f, t["cond"])
            k = "assert %s %s" % (t["msg"], decision(e, f.argc))
            sig[k] = 1
            sites.setdefault(k, f.loc(b))
        elif t["k"] == "call":
            c = f.call_at(b)
            nm = c.rpath.split("::")[-1]
            if nm in ("zeroize", "load_u64_le", "loadm") or c.path.startswith(("std::simd", "core::simd", "core::core_simd", "std::core_simd")) or "Simd<" in c.full or "Simd::<" in c.full:
                continue
            if nm == "compress":
                sig["call compress"] += 1
                continue
            if c.path.startswith(("std::fmt", "core::fmt", "core::panicking", "std::hint", "std::convert", "std::ops::FromResidual", "std::ops::Try", "std::array", "core::array")) or nm in ("format", "must_use"):
                continue
            if nm in PURE_CALLS:
                continue
            args = [norm(crepr(a), f.argc) for a in call_arg_exprs(c)]
            if any(LANE.search(a) for a in args):
                continue
            k = "call %s" % nm
            # a sibling backend function writing a digest: where the digest goes is part of what the caller does
            # (`hash(end, ..)` computes a digest of `end.len()` bytes; `hash(&mut [0u8; 64], ..)` followed by a
            # truncating copy is a different function of the input)
            if nm in COMPARE and c.is_local and c.args and c.args[0].get("k") in ("copy", "move") and \
                    f.locals[c.args[0]["l"]]["t"].replace("'_ ", "").startswith("&mut [u8"):
                r_ = cm.view_info(f, c.args[0]["l"])[0]
                k += "(digest -> %s)" % ("caller's buffer" if r_ is not None and 1 <= r_ <= f.argc else "local buffer")
            sig[k] += 1
            sites.setdefault(k, c.loc())
    return sig, sites


PURE_CALLS = {"index", "index_mut", "len", "is_empty", "deref", "deref_mut", "as_slice", "as_mut_slice", "as_ref", "as_mut",
              "chunks_exact", "chunks", "chunks_exact_mut", "chunks_mut", "iter", "iter_mut", "into_iter", "next", "enumerate", "zip",
              "min", "max", "size_of", "default", "as_ptr", "as_mut_ptr", "unwrap", "expect", "try_from", "try_into", "into", "from",
              "split_at", "split_at_mut", "get", "get_mut", "first", "last", "remainder", "is_some", "is_none", "is_ok", "is_err",
              "unwrap_or", "clone", "copied", "cloned", "map_or", "map", "by_ref", "from_fn", "to_le_bytes", "from_le_bytes",
              "from_raw_parts", "from_raw_parts_mut", "new_unchecked", "rev", "take", "skip", "step_by", "count", "splat"}


def effectful(key):
    if not key.startswith("call "):
        return False
    nm = key[5:].split("(", 1)[0]
    return nm not in PURE_CALLS


def module_fns(prog, mod):
    out = {}
    for f in prog.fns:
        if f.kind == "closure":
            continue
        if ("blake2b::%s::" % mod) in f.path and "::tests::" not in f.path:
            out[f.path.split("blake2b::%s::" % mod, 1)[1].replace(">", "")] = f
    return out


def run(ctx, rep):
    rep.explanation = EXPLANATION
    rep.not_decided = NOT_DECIDED
    rep.trust("the two configurations are extracted from the same source tree in the same run (digest recorded)")
    soft = ctx.prog("default")
    simd = ctx.prog("simd")
    full = ctx.prog("full")
    sf = module_fns(soft, "blake2b_soft")
    mf = module_fns(simd, "blake2b_simd")
    rep.ob("SELECT", "default selects blake2b_soft only", bool(sf) and not module_fns(soft, "blake2b_simd"), "%d soft functions in the default configuration" % len(sf))
    rep.ob("SELECT", "simd selects blake2b_simd only", bool(mf) and not module_fns(simd, "blake2b_soft"), "%d simd functions in the simd configuration" % len(mf))
    rep.ob("SELECT", "nightly without simd_backend uses the software backend", bool(module_fns(full, "blake2b_soft")) and not module_fns(full, "blake2b_simd"),
           "full (nightly,serde,base64) configuration")
    n = 0
    for name in sorted(set(sf) | set(mf)):
        short = name.split("::")[-1]
        if short not in COMPARE:
            continue
        a, b = sf.get(name), mf.get(name)
        if a is None or b is None:
            # a private helper present in one backend only is not a difference in itself: its body is
            # compared where it is folded into its callers; a function the rest of the crate uses must
            # exist in both (SURFACE, below)
            continue
        n += 1
        sa_, la = signature(soft, a, set(mf))
        sb_, lb = signature(simd, b, set(sf))
        only_a = sa_ - sb_
        only_b = sb_ - sa_
        ok = not only_a and not only_b
        detail = "%d decision/call sites agree" % sum(sa_.values()) if ok else (
            "software-only: %s | SIMD-only: %s" % (
                ["%s @%s" % (k, la.get(k)) for k in only_a][:4], ["%s @%s" % (k, lb.get(k)) for k in only_b][:4]))
        rep.ob("SIB", name, ok, detail, loc=a.loc())
        rep.sample({"fn": name, "sites": sum(sa_.values())})
    rep.floor("backend function pairs compared", n, 6)
    # constants of the module agree
    for cname in ("BLOCKBYTES", "OUTBYTES", "KEYBYTES", "SALTBYTES", "PERSONALBYTES"):
        va = [c["v"] for p, c in soft.consts.items() if p.endswith("blake2b_soft::" + cname)]
        vb = [c["v"] for p, c in simd.consts.items() if p.endswith("blake2b_simd::" + cname)]
        rep.ob("SIB", "const " + cname, va == vb and bool(va), "software %s, SIMD %s" % (va, vb))
    # surface used by the rest of the crate
    def used_outside(prog, fns):
        out = set()
        keys = {f.key: n for n, f in fns.items()}
        for g in prog.fns:
            if "blake2b::blake2b_" in g.path:
                continue
            for c in g.calls():
                k = c.rkey
                if k in keys:
                    out.add(keys[k])
        return out
    ua, ub = used_outside(soft, sf), used_outside(simd, mf)
    rep.ob("SURFACE", "functions used by the rest of the crate", ua == ub and len(ua) >= 4, "software %s; SIMD %s" % (sorted(ua), sorted(ub)))
    accessors(rep, full)
    resizers(rep, full)
    constructors(rep, full)
    param_words(rep, soft, simd)


def param_words(rep, soft, simd):
    """SIB (parameter block): BLAKE2b folds the 64-byte parameter block (digest length, key length, fan-out, ...,
    salt, personalisation) into the eight state words.  The software backend does it in a loop over i; a backend
    that spells the eight words out as constant ranges must read each of [8i, 8i+8) exactly once, in order - a
    repeated range means one parameter word (the salt that carries a KDF subkey id, say) never reaches the state
    in that build only."""
    n = 0
    for prog, nm in ((soft, "blake2b_soft"), (simd, "blake2b_simd")):
        for f in prog.fns:
            if not f.path.endswith(nm + "::State::init_param") or not f.blocks:
                continue
            words = []
            for c in f.calls():
                if f.blocks[c.bb]["cleanup"] or len(c.args) != 1 or f.locals[c.dest["l"]]["t"] != "u64":
                    continue
                ls = list(operand_locals(c.args[0]))
                if not ls:
                    continue
                root, s, e = cm.view_extent(f, ls[0])
                if s is None or e is None or e - s != 8:
                    continue
                words.append((s, e, c))
            if not words:
                rep.note("SIB: %s::State::init_param reads the parameter block in a loop (no constant ranges): not judged" % nm)
                continue
            n += 1
            got = [(s, e) for s, e, _ in words]
            want = [(8 * i, 8 * i + 8) for i in range(8)]
            rep.ob("SIB", "%s::State::init_param|parameter words" % nm, got == want,
                   "parameter block read as %s (expected each of the eight words once, in order)" % got,
                   loc=next((c.loc() for (s, e, c), w in zip(words, want) if (s, e) != w), words[0][2].loc()))
    rep.note("SIB: %d backend(s) spell out the parameter words as constant ranges" % n)


def constructors(rep, prog):
    """CTOR-COPY: "stack, Vec, heap and locked containers yield identical bytes" starts with every container
    built from bytes holding those bytes.  For every hand-written or derived conversion of a crate container
    from a byte source (From<&[u8]>, From<&[u8; N]>, From<[u8; N]>, From<StackByteArray<N>>, TryFrom<&[u8]>) and
    every Clone of a byte container: the returned value depends on the *contents* of the source - a dependency
    that only runs through the source's length (`resize(src.len(), 0)` with the copy forgotten) does not count."""
    from ..inline import inline
    n = 0
    for imp in prog.impls:
        tr = imp.get("trait") or ""
        st = imp["self_ty"]["t"]
        if not st.startswith(("types::StackByteArray", "protected::HeapByteArray", "protected::HeapBytes")):
            continue
        full = imp.get("trait_full") or ""
        if tr in ("std::convert::From", "std::convert::TryFrom"):
            if not any(s in full for s in ("From<&[u8", "From<[u8", "From<types::StackByteArray", "From<&'")):
                continue
            name = "from" if tr.endswith("::From") else "try_from"
        elif tr == "std::clone::Clone":
            name = "clone"
        else:
            continue
        for it in imp["items"]:
            if it["name"] != name:
                continue
            f0 = prog.by_key.get(it["key"])
            if f0 is None or not f0.blocks:
                continue
            f = inline(prog, f0)
            n += 1
            sl = cm.content_slice(f, [0])
            rep.ob("CTOR-COPY", full.strip("<>") or f0.path, 1 in sl,
                   "the returned container %s the contents of its source" % ("depends on" if 1 in sl else "does NOT depend on (only on the length of, or not at all on)"),
                   loc=f0.loc())
    rep.floor("container conversions / clones from a byte source", n, 11)
    # the same for the in-place form: every impl of `MutBytes::copy_from_slice(&mut self, other)` lets the contents of
    # `other` reach the storage behind `self`
    m = 0
    for imp in prog.impls:
        if (imp.get("trait") or "") != "types::MutBytes":
            continue
        for it in imp["items"]:
            f0 = prog.by_key.get(it["key"])
            if it["name"] != "copy_from_slice" or f0 is None or not f0.blocks or f0.argc != 2:
                continue
            f = inline(prog, f0)
            m += 1
            sl = cm.content_slice(f, [1])
            rep.ob("CTOR-COPY", "<%s as MutBytes>::copy_from_slice" % imp["self_ty"]["t"], 2 in sl,
                   "the storage behind `self` %s the contents of `other`" % ("receives" if 2 in sl else "does NOT receive"), loc=f0.loc())
    rep.floor("MutBytes::copy_from_slice impls", m, 8)


ACC_TRAITS = {"types::Bytes": ("as_slice", "len", "is_empty"), "types::MutBytes": ("as_mut_slice",),
              "types::ByteArray": ("as_array",), "types::MutByteArray": ("as_mut_array",),
              "std::convert::AsRef": ("as_ref",), "std::convert::AsMut": ("as_mut",),
              "std::ops::Deref": ("deref",), "std::ops::DerefMut": ("deref_mut",)}
SLICE_LIKE = ("std::vec::Vec<u8>", "[u8]", "&[u8]", "&mut [u8]")


def storage_path(f):
    """normalised expression of what an accessor returns / measures"""
    e = expr_of_local(f, 0)
    return norm(deep_repr(e), f.argc)


def accessors(rep, prog):
    n = 0
    for imp in prog.impls:
        tr = imp.get("trait")
        if tr not in ACC_TRAITS:
            continue
        st = imp["self_ty"]["t"]
        if st.split("<")[0].split("::")[-1].isupper():
            continue      # a lazy_static's generated Deref (e.g. PAGESIZE), not a byte container
        if not (st.startswith(("types::", "protected::", "precalc::", "kx::")) or st in SLICE_LIKE or st.startswith("[u8;") or st.startswith("&[u8;")):
            continue
        methods = {it["name"]: prog.by_key.get(it["key"]) for it in imp["items"]}
        for m in ACC_TRAITS[tr]:
            f = methods.get(m)
            if f is None:
                continue
            n += 1
            inst = "<%s as %s>::%s" % (st, tr.split("::")[-1], m)
            arith = [s for b, i, s in f.assigns() if s["rv"]["k"] == "binop" and not f.blocks[b]["cleanup"]
                     and s["rv"]["op"].replace("WithOverflow", "") in ("Add", "Sub", "Mul", "Div", "Rem", "Shl", "Shr", "Offset")]
            if m in ("len", "is_empty"):
                from ..inline import inline as _inl
                fv = _inl(prog, f)       # private storage accessors (`self.region().len()`) folded in
                arith = [s_ for b_, i_, s_ in fv.assigns() if s_["rv"]["k"] == "binop" and not fv.blocks[b_]["cleanup"]
                         and s_["rv"]["op"].replace("WithOverflow", "") in ("Add", "Sub", "Mul", "Div", "Rem", "Shl", "Shr", "Offset")]
                calls = [c for c in fv.calls() if not fv.blocks[c.bb]["cleanup"]]
                from ..core import full_range_index
                ok = not arith and all(c.name in ("len", "is_empty", "as_slice", "deref", "as_ref", "unwrap", "as_ref") or c.path.startswith("core::panicking")
                                       or full_range_index(c) for c in calls)
                rep.ob("ACCESSOR", inst, ok, "measures its storage directly (%s)" % storage_path(f)[:80], loc=f.loc())
                continue
            pure = f.key in prog.reslicers
            narrowing = f.key in prog.narrowing_reslicers
            if not pure:
                # the accessor may go through private helpers (a shared length assertion, a shared
                # pointer cast): judge the body with those folded in
                pure, narrowing = pure_view_body(prog, f)
            allowed_prefix = (st in SLICE_LIKE) and m in ("as_array", "as_mut_array")
            ok = pure and not arith and (not narrowing or allowed_prefix or is_index_impl(imp))
            rep.ob("ACCESSOR", inst, ok,
                   "pure projection of the storage: %s" % storage_path(f)[:80] if ok else
                   "accessor is not a pure projection (%s%s%s)" % ("calls non-view functions or writes; " if not pure else "",
                                                                   "arithmetic; " if arith else "", "narrows the view" if narrowing and not allowed_prefix else ""),
                   loc=f.loc())
        # len agrees with as_slice on the same storage
        if tr == "types::Bytes" and methods.get("as_slice") and methods.get("len"):
            a = storage_path(methods["as_slice"])
            l = storage_path(methods["len"])
            root_a = re.sub(r"^(as_slice|deref|as_ref|as_mut_slice)\((.*)\)$", r"\2", a)
            root_l = re.sub(r"^(len)\((.*)\)$", r"\2", l)
            root_l = re.sub(r"^(as_slice|deref|as_ref)\((.*)\)$", r"\2", root_l)
            same = strip_views(root_a) == strip_views(root_l)
            rep.ob("ACCESSOR", "<%s as Bytes>::len == as_slice().len()" % st, same, "as_slice: %s; len: %s" % (a[:70], l[:70]), loc=methods["len"].loc())
    rep.floor("accessor methods", n, 40)


RESIZE_CALLS = ("std::vec::Vec::<T, A>::resize", "types::ResizableBytes::resize")


def resizers(rep, prog):
    """RESIZE: every container's `ResizableBytes::resize(new_len, value)` ends with `new_len` bytes: each
    normal return lies behind a resize of the underlying storage (Vec::resize or another container's
    ResizableBytes::resize) to the `new_len` parameter.  The only path that may bypass it is the equal
    edge of `new_len == <current length>` (nothing to do)."""
    from ..inline import inline
    n = 0
    for imp in prog.impls:
        if imp.get("trait") != "types::ResizableBytes":
            continue
        st = imp["self_ty"]["t"]
        for it in imp["items"]:
            if it["name"] != "resize":
                continue
            f0 = prog.by_key.get(it["key"])
            if f0 is None:
                continue
            n += 1
            f = inline(prog, f0)
            new_len = 2           # positional in the public trait: (self, new_len, value)
            sites = []
            for c in f.calls():
                if (c.path in RESIZE_CALLS or c.rpath in RESIZE_CALLS) and len(c.args) >= 2 and not f.blocks[c.bb]["cleanup"]:
                    e = expr_of_operand(f, c.args[1])
                    while e is not None and e.k == "cast":
                        e = e.a
                    if e is not None and e.k == "local" and e.a == new_len:
                        sites.append(c.bb)
            exempt = []
            for b in range(f.n):
                t = f.blocks[b]["t"]
                if t["k"] != "switch":
                    continue
                e = expr_of_operand(f, t["x"])
                if e.k == "binop" and e.a in ("Eq", "Ne"):
                    sides = [e.b, e.c]
                    is_new = [x.k == "local" and x.a == new_len for x in sides]
                    is_len = [x.k == "call" and x.a.name == "len" for x in sides]
                    if (is_new[0] and is_len[1]) or (is_new[1] and is_len[0]):
                        arms = {v: tb for v, tb in t["arms"]}
                        eq_t = t["otherwise"] if e.a == "Eq" else arms.get(0)
                        ne_t = arms.get(0) if e.a == "Eq" else t["otherwise"]
                        if eq_t is not None and eq_t != ne_t:
                            exempt.append((b, eq_t))
            rets = [b for b in range(f.n) if f.blocks[b]["t"]["k"] == "return"]
            free = f.reachable(0, cut_blocks=sites, cut_edges=exempt)
            bad = [b for b in rets if b in free]
            why = "every return lies behind a resize of the storage to `new_len` (%d site(s))" % len(sites)
            if bad:
                path = f.path_between(0, bad[0], cut_blocks=sites, cut_edges=exempt) or []
                sw = [f.loc(b) for b in path if f.blocks[b]["t"]["k"] == "switch"]
                why = "a path returns without resizing the storage to `new_len` (branching at %s): the container keeps its old length" % (sw[-1:] or [f.loc(bad[0])])
            rep.ob("RESIZE", "<%s as ResizableBytes>::resize" % st, bool(sites) and not bad, why, loc=f.loc(bad[0]) if bad else f0.loc())
            # a resize that builds a replacement container (instead of resizing self's storage in place)
            # keeps the old contents: every return lies behind a copy out of self's storage, except on an
            # edge where that storage is known to be empty
            repl = []
            for c in f.calls():
                if (c.path in RESIZE_CALLS or c.rpath in RESIZE_CALLS) and c.bb in sites:
                    ls = list(operand_locals(c.args[0]))
                    if ls and cm.view_info(f, ls[0])[0] != 1:
                        repl.append(c)
            if repl:
                copies = []
                for c in f.calls():
                    if (c.path in cm.COPY or c.name in ("copy_from_slice", "clone_from_slice", "extend_from_slice")) and len(c.args) == 2 and not f.blocks[c.bb]["cleanup"]:
                        ls = list(operand_locals(c.args[1]))
                        if ls and cm.view_info(f, ls[0])[0] == 1:
                            copies.append(c.bb)
                empty_edges = []
                for b in range(f.n):
                    t = f.blocks[b]["t"]
                    if t["k"] != "switch":
                        continue
                    e = expr_of_operand(f, t["x"])
                    arms = {v: tb for v, tb in t["arms"]}
                    if e.k == "call" and e.a.name == "is_empty" and 0 in arms and arms[0] != t["otherwise"]:
                        empty_edges.append((b, t["otherwise"]))
                    elif e.k == "binop" and e.a in ("Eq", "Ne") and 0 in arms and arms[0] != t["otherwise"] and \
                            any(evaluate(x, {}) == 0 and not isinstance(evaluate(x, {}), bool) for x in (e.b, e.c)) and \
                            any(x.k == "call" and x.a.name == "len" for x in (e.b, e.c)):
                        empty_edges.append((b, t["otherwise"] if e.a == "Eq" else arms[0]))
                # the copy is prefix to prefix: `new[..n] <- old[..n]` with one n (when both sides are written as
                # index ranges; other idioms are not judged)
                for c in f.calls():
                    if c.bb not in copies or len(c.args) != 2:
                        continue
                    shapes = [_range_shape(f, a) for a in c.args]
                    if None in shapes:
                        continue
                    okp = shapes[0] == shapes[1] and shapes[0][0] in ("RangeTo", "whole")
                    rep.ob("RESIZE", "<%s as ResizableBytes>::resize|prefix copy" % st, okp,
                           "old contents copied %s -> %s (expected the same `..n` prefix on both sides)" % (shapes[1], shapes[0]), loc=c.loc())
                free2 = f.reachable(0, cut_blocks=copies, cut_edges=empty_edges)
                bad2 = [b for b in rets if b in free2]
                rep.ob("RESIZE", "<%s as ResizableBytes>::resize|contents kept" % st, bool(copies) and not bad2,
                       "the replacement container receives the old contents on every path (%d copy site(s))" % len(copies) if copies and not bad2 else
                       "a path returns with a replacement container that never received the old contents (copy skipped at %s)" % (
                           [f.loc(b) for b in (f.path_between(0, bad2[0], cut_blocks=copies, cut_edges=empty_edges) or []) if f.blocks[b]["t"]["k"] == "switch"][-1:] if bad2 else "?"),
                       loc=f.loc(bad2[0]) if bad2 else f0.loc())
    rep.floor("ResizableBytes::resize impls", n, 3)


def _range_shape(f, operand):
    """("whole",) if the operand is an un-narrowed view; (range kind, repr of its bounds) if its outermost narrowing
    is an index by a range; None for anything else"""
    ls = list(operand_locals(operand))
    if not ls:
        return None
    if not cm.view_info(f, ls[0])[1]:
        return ("whole",)
    e = expr_of_operand(f, operand)
    for _ in range(6):
        if e.k == "call" and e.a.name in ("index", "index_mut") and len(e.a.args) == 2:
            r = call_arg_exprs(e.a)[1]
            if r.k == "agg" and r.a:
                return (r.a.split("::")[-1], tuple(deep_repr(x) for x in (r.c or [])))
            return None
        if e.k in ("ref", "deref", "cast") and e.a is not None and hasattr(e.a, "k"):
            e = e.a
            continue
        if e.k == "call" and len(e.a.args) == 1 and (e.a.path in cm_reslice() or e.a.rpath in cm_reslice()):
            e = call_arg_exprs(e.a)[0]
            continue
        break
    return None


def cm_reslice():
    from ..engines import RESLICE
    return RESLICE


PURE_READS = ("core::slice::<impl [T]>::len", "std::vec::Vec::<T, A>::len", "core::slice::<impl [T]>::is_empty",
              "std::vec::Vec::<T, A>::is_empty", "types::Bytes::len", "types::Bytes::is_empty",
              "core::slice::<impl [T]>::as_ptr", "core::slice::<impl [T]>::as_mut_ptr", "std::vec::Vec::<T, A>::as_ptr",
              "std::vec::Vec::<T, A>::as_mut_ptr")
NARROW_CALLS = ("std::ops::IndexMut::index_mut", "std::ops::Index::index", "core::slice::<impl [T]>::split_at_mut",
                "core::slice::<impl [T]>::split_at", "core::slice::<impl [T]>::first_mut", "core::slice::<impl [T]>::last_mut")


def pure_view_body(prog, f0):
    """(pure, narrowing) for an accessor judged with its private helpers folded in: it stores through
    no parameter, and calls nothing but view functions, pure reads (len/is_empty/as_ptr) and the
    panic/format machinery of assertions; the returned reference derives from the receiver."""
    from ..inline import inline
    from ..engines import RESLICE
    f = inline(prog, f0)
    if f.locals[0].get("k") != "ref" or f.argc < 1:
        return False, False
    for b, i, st in f.assigns():
        if "deref" in st["place"]["p"] and st["place"]["l"] != 0 and not f.blocks[b]["cleanup"]:
            return False, False
    narrowing = False
    for c in f.calls():
        if f.blocks[c.bb]["cleanup"]:
            continue
        if c.path in NARROW_CALLS or c.rpath in NARROW_CALLS or (c.rkey in prog.narrowing_reslicers):
            narrowing = True
            continue
        if c.path in RESLICE or c.rpath in RESLICE or c.path in PURE_READS or c.rpath in PURE_READS or (c.rkey or "") in prog.reslicers:
            continue
        if c.path.startswith(("core::panicking", "std::fmt", "core::fmt", "std::rt::panic", "core::fmt::rt")) or "Arguments" in c.path:
            continue
        return False, False
    # the result derives from the receiver (parameter 1)
    if 1 not in f.backward_slice([0]):
        return False, False
    return True, narrowing


def strip_views(s):
    prev = None
    while prev != s:
        prev = s
        s = re.sub(r"^(as_slice|deref|as_ref|as_mut_slice|unwrap|as_mut|deref_mut)\((.*)\)$", r"\2", s)
    return s


def is_index_impl(imp):
    return False
