"""C03 — secret streams: state discipline, push/pull lockstep, rekey (structural clauses)."""
from ..core import operand_locals
from ..engines import Clean, views_of, must_pass, RESLICE
from ..expr import (expr_of_operand, call_arg_exprs, evaluate, decisive_edges, result_kind_of_ret, deep_repr)
from ..engines import CT_T, CT_F
from . import common as cm
from .c01 import boundaries

M = "classic::crypto_secretstream_xchacha20poly1305::"
PUSH = M + "crypto_secretstream_xchacha20poly1305_push"
PULL = M + "crypto_secretstream_xchacha20poly1305_pull"
REKEY = M + "crypto_secretstream_xchacha20poly1305_rekey"
INIT_PUSH = M + "crypto_secretstream_xchacha20poly1305_init_push"
INIT_PULL = M + "crypto_secretstream_xchacha20poly1305_init_pull"

EXPLANATION = (
    "STATE-CLEAN: in the classic pull and in DryocStream::pull no write through the stream state (stores, "
    "external writers, crate callees that write it) lies on a path to an Err exit; every state write in pull "
    "is dominated by the success edge of the MAC comparison. EVOLVE: every Ok exit of push and pull passes "
    "the xor of the inonce with the MAC and the counter increment. LOCKSTEP: the ordered sequence of "
    "state-touching callees after the MAC is identical in push and pull, and the rekey trigger has the same "
    "shape (tag & 0x02 == 0x02, or 4-byte counter ct_eq zeros). REKEY: new key and inonce are the first 32 "
    "and last 8 bytes of (key || inonce) encrypted with ChaCha20 under the old key and nonce; the counter "
    "reset follows. INIT: init_push and init_pull derive the state identically from (header, key): "
    "k = HChaCha20(header[..16], key), counter = 1, inonce = header[16..24]. PADS: both directions absorb "
    "pad16(|AD|) and the ((0x10 - 64 + mlen) & 0xf) body pad.")
NOT_DECIDED = ("equality of ciphertexts and of both stream states with libsodium for every history; behaviour at the "
               "32-bit counter wrap as values; that out-of-order ciphertexts are rejected (follows from MAC correctness, value-level).")


def state_calls(prog, f, state_local, after_blocks=None):
    """ordered list of (name, consts) for calls receiving a view of the state."""
    views = views_of(f, [state_local])
    out = []
    for c in sorted(f.calls(), key=lambda c: (len(f.dom.get(c.bb, ())), c.bb)):
        if after_blocks is not None and c.bb not in after_blocks:
            continue
        hit = [a for a in c.args if a.get("k") in ("copy", "move") and a["l"] in views]
        if not hit:
            continue
        if c.path in RESLICE or c.rpath in RESLICE or c.path == "core::slice::<impl [T]>::len":
            continue
        out.append((c.rpath.split("::")[-1], c))
    return out


def run(ctx, rep):
    rep.explanation = EXPLANATION
    rep.not_decided = NOT_DECIDED
    rep.trust("chacha20 crate (ChaCha20 IETF, seek/apply_keystream); Poly1305; utils::{xor_buf, increment_bytes} semantics by name-free shape: two-slice xor / in-place increment")
    prog = ctx.prog("full")
    get = lambda p: (prog.by_path.get(p) or [None])[0]
    push, pull, rekey, ipush, ipull = get(PUSH), get(PULL), get(REKEY), get(INIT_PUSH), get(INIT_PULL)
    for n, f in (("push", push), ("pull", pull), ("rekey", rekey), ("init_push", ipush), ("init_pull", ipull)):
        if f is None:
            rep.violation("ANCHOR", n, "public stream function not found")
            return
    # ---- STATE-CLEAN ---------------------------------------------------------------------------
    cl = Clean(prog)
    for f, p in [(pull, pull.arg_local("state") or 1)] + [(g, 1) for g in cm.find_method(prog, "dryocstream::DryocStream", "pull")
                                                         + cm.find_method(prog, "dryocstream::DryocStream", "pull_to_vec")]:
        s = cl.summary(f, p)
        rep.ob("STATE-CLEAN", f.path, not s.violations and bool(s.events),
               "%d state write event(s), none followed by an Err exit" % len(s.events) if not s.violations else
               "state is written by %s and then %s" % (s.violations[0][2], s.violations[0][3]), loc=f.loc())
    # every state write in classic pull is behind the MAC success edge
    atoms = cm.mac_prim_atoms(pull)
    if len(atoms) != 1:
        rep.violation("ANCHOR", "pull MAC comparison", "expected one MAC comparison in pull, found %d" % len(atoms), loc=pull.loc())
        return
    good, bad = decisive_edges(pull, atoms[0], CT_T, CT_F)
    s = cl.summary(pull, 1)
    for (eb, kind, atom, text) in s.events:
        ok = any(pull.edge_dominates(e, eb) for e in good)
        rep.ob("AFTER-MAC", "pull|%s" % text.split(" at ")[0], ok, "%s %s the MAC success edge" % (text, "is dominated by" if ok else "is NOT dominated by"), loc=pull.loc(eb))
    # ---- EVOLVE -------------------------------------------------------------------------------
    for f in (push, pull):
        st = f.arg_local("state") or 1
        seq = state_calls(prog, f, st)
        xor = [c for n, c in seq if c.is_local and len(c.args) == 2 and n not in ("rekey",) and "xor" in n]
        inc = [c for n, c in seq if c.is_local and len(c.args) == 1 and "increment" in n]
        # shape-based fallback: the crate-local two-slice writer / one-slice writer on state views
        if not xor:
            xor = [c for n, c in seq if c.is_local and len(c.args) == 2 and prog.callee_fns(c) and prog.callee_fns(c)[0].path.startswith("utils::")]
        if not inc:
            inc = [c for n, c in seq if c.is_local and len(c.args) == 1 and prog.callee_fns(c) and prog.callee_fns(c)[0].path.startswith("utils::")]
        for b, kind, e in result_kind_of_ret(f):
            if kind != "ok" or b not in f.reachable(0):
                continue
            rep.ob("EVOLVE", "%s|inonce ^= mac on every Ok path" % f.name[-4:], bool(xor) and must_pass(f, [c.bb for c in xor], b),
                   "Ok exit at %s passes the inonce xor (%s)" % (f.loc(b), [c.loc() for c in xor]), loc=f.loc(b))
            rep.ob("EVOLVE", "%s|counter increment on every Ok path" % f.name[-4:], bool(inc) and must_pass(f, [c.bb for c in inc], b),
                   "Ok exit at %s passes the counter increment (%s)" % (f.loc(b), [c.loc() for c in inc]), loc=f.loc(b))
        # xor operand is the MAC
        if xor:
            c = xor[0]
            t = deep_repr(call_arg_exprs(c)[1])
            finals = [x for x in f.calls() if cm.POLY_FINAL.search(x.rpath)]
            macroots = set()
            for x in finals:
                macroots.add(x.dest["l"])
                for a in x.args[1:]:
                    for l in operand_locals(a):
                        macroots.add(cm.view_info(f, l)[0])
            r = cm.view_info(f, list(operand_locals(c.args[1]))[0])[0]
            rep.ob("EVOLVE", "%s|xor operand is the computed MAC" % f.name[-4:], r in macroots, "second operand root `%s`" % f.local_name(r), loc=c.loc())
    # ---- LOCKSTEP -----------------------------------------------------------------------------
    def post_mac(f):
        st = f.arg_local("state") or 1
        finals = [x for x in f.calls() if cm.POLY_FINAL.search(x.rpath)]
        if not finals:
            return []
        after = f.reachable_from_after(finals[0].bb)
        return [n for n, c in state_calls(prog, f, st, after)]
    sp, sl = post_mac(push), post_mac(pull)
    rep.ob("LOCKSTEP", "post-MAC state sequence push == pull", sp == sl and len(sp) >= 4, "push: %s; pull: %s" % (sp, sl), loc=push.loc())

    def trigger(f):
        rk = [c for c in f.calls() if rekey in prog.callee_fns(c)]
        if not rk:
            return None
        sig = []
        for b in sorted(f.dom.get(rk[0].bb, ())):
            t = f.blocks[b]["t"]
            if t["k"] != "switch":
                continue
            e = expr_of_operand(f, t["x"])
            txt = deep_repr(e)
            if "BitAnd" in txt:
                consts = sorted(set(int(x) for x in __import__("re").findall(r"const\((\d+)\)", txt)))
                sig.append(("tag&", tuple(consts)))
            elif "ct_eq" in txt:
                c = [a for a in f.calls() if a.path == cm.CT_EQ and a.bb in f.dom.get(b, ())][-1]
                ws = [cm.array_width(f, a) for a in c.args]
                sig.append(("counter ct_eq zeros", tuple(w for w in ws if w)))
        # both conditions are alternatives: rekey must be reachable via either
        return sig
    tp, tl = trigger(push), trigger(pull)
    # the disjunction lowers to two switches of which only the first dominates; collect all switches between MAC and rekey
    def trigger_all(f):
        rk = [c for c in f.calls() if rekey in prog.callee_fns(c)]
        finals = [x for x in f.calls() if cm.POLY_FINAL.search(x.rpath)]
        if not rk or not finals:
            return None
        region = f.reachable_from_after(finals[0].bb)
        sig = set()
        for b in region:
            t = f.blocks[b]["t"]
            if t["k"] != "switch" or rk[0].bb not in f.reachable(b):
                continue
            txt = deep_repr(expr_of_operand(f, t["x"]))
            if "BitAnd" in txt:
                sig.add(("tag&", tuple(sorted(set(int(x) for x in __import__("re").findall(r"const\((\d+)\)", txt))))))
            elif "ct_eq" in txt:
                stv = views_of(f, [f.arg_local("state") or 1])
                cs = [a for a in f.calls() if a.path == cm.CT_EQ and a.bb in f.dom.get(b, ()) and a.bb in region
                      and any(x.get("k") in ("copy", "move") and x["l"] in stv for x in a.args)]
                if cs:
                    sig.add(("counter==0", tuple(w for w in [cm.array_width(f, a) for a in cs[-1].args] if w)))
        return sig
    ap, al = trigger_all(push), trigger_all(pull)
    want = {("tag&", (2,)), ("counter==0", (4,))}
    rep.ob("LOCKSTEP", "rekey trigger push == pull == libsodium", ap == al == want, "push %s; pull %s; expected %s" % (sorted(ap or []), sorted(al or []), sorted(want)), loc=pull.loc())
    # ---- PADS ---------------------------------------------------------------------------------
    for f in (push, pull):
        ups = [c for c in f.calls() if cm.POLY_UPDATE.search(c.rpath)]
        txts = [deep_repr(call_arg_exprs(c)[1]) for c in ups]
        adpad = any("pad16" in t for t in txts)
        bodypad = any("BitAnd" in t and "const(15)" in t for t in txts)
        rep.ob("PADS", "%s|AD pad16 and body pad absorbed" % f.name[-4:], adpad and bodypad and len(ups) == 6,
               "%d MAC updates; AD pad: %s; libsodium-compatible body pad ((0x10-64+mlen)&0xf): %s" % (len(ups), adpad, bodypad), loc=f.loc())
    # ---- REKEY --------------------------------------------------------------------------------
    rk = rekey
    news = [c for c in rk.calls() if c.path.endswith("KeyIvInit::new")]
    ks = [c for c in rk.calls() if c.path.endswith("StreamCipher::apply_keystream")]
    ok = len(news) == 1 and len(ks) == 1
    rep.ob("REKEY", "one cipher, one keystream call", ok, "KeyIvInit::new=%d apply_keystream=%d" % (len(news), len(ks)), loc=rk.loc())
    if ok:
        back = set()
        for a in news[0].args:
            back |= rk.backward_slice(operand_locals(a))
        t = " ".join(deep_repr(x) for x in call_arg_exprs(news[0]))
        rep.ob("REKEY", "cipher keyed with state.k / state.nonce", ".k" in t and ".nonce" in t, "cipher operands: %s" % t[:160], loc=news[0].loc())
        buf = cm.view_info(rk, list(operand_locals(ks[0].args[1]))[0])
        rep.ob("REKEY", "whole (key||inonce) buffer is encrypted", not buf[1] and "[u8; 40]" in rk.locals[buf[0]]["t"],
               "keystream applied to `%s`: %s" % (rk.local_name(buf[0]), rk.locals[buf[0]]["t"]), loc=ks[0].loc())
        cps = [c for c in rk.calls() if c.path in cm.COPY]
        before = [c for c in cps if c.bb in rk.dom.get(ks[0].bb, ())]
        after = [c for c in cps if ks[0].bb in rk.dom.get(c.bb, ())]
        rep.ob("REKEY", "buffer filled from state before, state written from buffer after", len(before) == 2 and len(after) == 2 and
               all(cm.view_info(rk, list(operand_locals(c.args[0]))[0])[0] == buf[0] for c in before) and
               all(cm.view_info(rk, list(operand_locals(c.args[1]))[0])[0] == buf[0] for c in after),
               "%d copies before / %d after the keystream call" % (len(before), len(after)), loc=rk.loc())
        offs, _ = boundaries(prog, rk)
        rep.ob("REKEY", "split at 32", 32 in offs, "buffer offsets %s" % sorted(offs), loc=rk.loc())
        resets = [c for c in rk.calls() if c.is_local and "counter_reset" in c.rpath or (c.is_local and len(c.args) == 1 and c.rpath.startswith(M + "_"))]
        rets = [b for b in range(rk.n) if rk.blocks[b]["t"]["k"] == "return"]
        rep.ob("REKEY", "counter reset after re-keying", bool(resets) and all(ks[0].bb in rk.dom.get(c.bb, ()) for c in resets) and
               all(must_pass(rk, [c.bb for c in resets], r) for r in rets), "counter reset calls: %s" % [c.loc() for c in resets], loc=rk.loc())
    # ---- INIT ---------------------------------------------------------------------------------
    def init_sig(f):
        st = f.arg_local("state") or 1
        offs, _ = boundaries(prog, f)
        names = [n for n, c in state_calls(prog, f, st)]
        h = [c for c in f.calls() if c.rpath.endswith("crypto_core_hchacha20")]
        hd = f.arg_local("header")
        key = f.arg_local("key")
        hsig = None
        if h:
            ax = h[0].args
            hsig = (cm.view_info(f, list(operand_locals(ax[1]))[0])[0] == hd, cm.view_info(f, list(operand_locals(ax[2]))[0])[0] == key)
        return sorted(offs), names, hsig
    sp, sl = init_sig(ipush), init_sig(ipull)
    rep.ob("INIT", "init_push == init_pull state derivation", sp == sl and sp[2] == (True, True), "push %s; pull %s" % (sp, sl), loc=ipull.loc())
    rep.ob("INIT", "header split 16 | 8", sp[0] == [16, 24] or sp[0] == [4, 12, 16, 24] or {16, 24} <= set(sp[0]), "header offsets %s" % sp[0], loc=ipull.loc())
    # counter reset writes 1 into byte 0 after zero fill
    cr = [f for f in prog.fns if f.path.startswith(M) and "counter_reset" in f.path]
    for f in cr:
        fills = [c for c in f.calls() if c.path == "core::slice::<impl [T]>::fill"]
        stores = [(b, s) for b, i, s in f.assigns() if "deref" in s["place"]["p"] and s["rv"]["k"] == "use" and s["rv"]["x"].get("v") is not None]
        ok = len(fills) == 1 and evaluate(call_arg_exprs(fills[0])[1], {}) == 0 and len(stores) == 1 and stores[0][1]["rv"]["x"]["v"] == 1
        idx0 = ok and any(isinstance(pe, dict) and (pe.get("cidx") == 0 or "idx" in pe) for pe in stores[0][1]["place"]["p"])
        rep.ob("INIT", "counter reset = 00..00 then byte0 = 1", ok and idx0, "fill(0) x%d, constant stores %s" % (len(fills), [s["rv"]["x"]["v"] for _, s in stores]), loc=f.loc())
