"""C03 — secret streams: state discipline, push/pull lockstep, rekey (structural clauses)."""
from ..core import operand_locals
from ..engines import Clean, views_of, must_pass, RESLICE
from ..expr import (expr_of_operand, call_arg_exprs, evaluate, decisive_edges, result_kind_of_ret, deep_repr)
from ..engines import CT_T, CT_F
from . import common as cm
from .c01 import boundaries

M = "classic::crypto_secretstream_xchacha20poly1305::"
PUSH = M + "crypto_secretstream_xchacha20poly1305_push"
PULL = M + "crypto_secretstream_xchacha20poly1305_pull"
REKEY = M + "crypto_secretstream_xchacha20poly1305_rekey"
INIT_PUSH = M + "crypto_secretstream_xchacha20poly1305_init_push"
INIT_PULL = M + "crypto_secretstream_xchacha20poly1305_init_pull"

EXPLANATION = (
    "STATE-CLEAN: in the classic pull and in DryocStream::pull no write through the stream state (stores, "
    "external writers, crate callees that write it) lies on a path to an Err exit; every state write in pull "
    "is dominated by the success edge of the MAC comparison. EVOLVE: every Ok exit of push and pull passes "
    "the xor of the inonce with the MAC and the counter increment. LOCKSTEP: the ordered sequence of "
    "state-touching callees after the MAC is identical in push and pull, and the rekey trigger has the same "
    "shape (tag & 0x02 == 0x02, or 4-byte counter ct_eq zeros). REKEY: new key and inonce are the first 32 "
    "and last 8 bytes of (key || inonce) encrypted with ChaCha20 under the old key and nonce; the counter "
    "reset follows. INIT: init_push and init_pull derive the state identically from (header, key): "
    "k = HChaCha20(header[..16], key), counter = 1, inonce = header[16..24]. PADS: both directions absorb "
    "pad16(|AD|) and the ((0x10 - 64 + mlen) & 0xf) body pad. TAG-OUT: every Ok exit of the classic pull lies behind a "
    "store to the tag output whose value derives from the ciphertext; the object API converts between the tag byte "
    "and Tag with from_bits_retain / bits only.")
NOT_DECIDED = ("equality of ciphertexts and of both stream states with libsodium for every history; behaviour at the "
               "32-bit counter wrap as values; that out-of-order ciphertexts are rejected (follows from MAC correctness, value-level).")


def state_calls(prog, f, state_local, after_blocks=None):
    """ordered list of (name, consts) for calls receiving a view of the state."""
    views = views_of(f, [state_local])
    out = []
    for c in sorted(f.calls(), key=lambda c: (len(f.dom.get(c.bb, ())), c.bb)):
        if after_blocks is not None and c.bb not in after_blocks:
            continue
        hit = [a for a in c.args if a.get("k") in ("copy", "move") and a["l"] in views]
        if not hit:
            continue
        if c.path in RESLICE or c.rpath in RESLICE or c.path == "core::slice::<impl [T]>::len":
            continue
        out.append((c.rpath.split("::")[-1], c))
    return out


def _zero_operand(ctx, prog, f, o):
    """True / False / None (cannot tell): the operand is an all-zero byte array - a literal or promoted `[0u8; N]`, or a
    named constant whose initialiser (read from its definition) is `[0; N]`"""
    if cm.is_zero_array_operand(f, o):
        return True
    e = expr_of_operand(f, o)
    hops = 0
    while e is not None and e.k in ("ref", "deref", "cast") and hops < 4:
        e, hops = e.a, hops + 1
    if e is not None and e.k == "const" and isinstance(e.b, str) and e.b in prog.consts:
        sp = prog.consts[e.b].get("span") or {}
        try:
            import os as _os
            import re as _re
            lines = open(_os.path.join(ctx.repo, sp["file"])).read().split("\n")
            txt = " ".join(lines[sp["lo"] - 1:sp["hi"] + 3])
            m = _re.search(r"=\s*\[\s*(0x[0-9a-fA-F]+|\d+)(?:_?u8)?\s*;", txt)
            if m:
                return int(m.group(1), 0) == 0
        except (OSError, KeyError, ValueError):
            pass
        return None
    return False


def run(ctx, rep):
    rep.explanation = EXPLANATION
    rep.not_decided = NOT_DECIDED
    rep.trust("chacha20 crate (ChaCha20 IETF, seek/apply_keystream); Poly1305; utils::{xor_buf, increment_bytes} semantics by name-free shape: two-slice xor / in-place increment")
    prog = ctx.prog("full")
    get = lambda p: (prog.by_path.get(p) or [None])[0]
    push, pull, rekey, ipush, ipull = get(PUSH), get(PULL), get(REKEY), get(INIT_PUSH), get(INIT_PULL)
    for n, f in (("push", push), ("pull", pull), ("rekey", rekey), ("init_push", ipush), ("init_pull", ipull)):
        if f is None:
            rep.violation("ANCHOR", n, "public stream function not found")
            return
    # ---- STATE-CLEAN ---------------------------------------------------------------------------
    cl = Clean(prog)
    for f, p in [(pull, pull.arg_local("state") or 1)] + [(g, 1) for g in cm.find_method(prog, "dryocstream::DryocStream", "pull")
                                                         + cm.find_method(prog, "dryocstream::DryocStream", "pull_to_vec")]:
        s = cl.summary(f, p)
        rep.ob("STATE-CLEAN", f.path, not s.violations and bool(s.events),
               "%d state write event(s), none followed by an Err exit" % len(s.events) if not s.violations else
               "state is written by %s and then %s" % (s.violations[0][2], s.violations[0][3]), loc=f.loc())
    # every state write in classic pull is behind the MAC success edge
    # on the view of pull with its private helpers and closures folded in (the MAC test may be written
    # `ensure(tag_matches, || err)?`); the xor helper and the public rekey stay calls
    from ..inline import inline as _inl

    def _xor_like(g):
        if g.argc != 2 or sorted(("&mut [u8]" in g.locals[i_]["t"]) for i_ in (1, 2)) != [False, True]:
            return False
        return any(s_["rv"]["k"] == "binop" and s_["rv"]["op"] == "BitXor" for u in prog.unit(g) for _, _, s_ in u.assigns())
    pv = _inl(prog, pull, keep=(_xor_like,))
    atoms = cm.mac_prim_atoms(pv)
    if len(atoms) != 1:
        rep.violation("ANCHOR", "pull MAC comparison", "expected one MAC comparison in pull, found %d" % len(atoms), loc=pull.loc())
        return
    good, bad = decisive_edges(pv, atoms[0], CT_T, CT_F)
    pstate = [p for p in cm.params_of(pv) if pv.locals[p]["t"].endswith("State") and "mut" in pv.locals[p]["t"]]
    s = Clean(prog).summary(pv, pstate[0] if pstate else 1) if getattr(pv, "inlined", None) else cl.summary(pull, 1)
    for (eb, kind, atom, text) in s.events:
        ok = any(pv.edge_dominates(e, eb) for e in good)
        rep.ob("AFTER-MAC", "pull|%s" % text.split(" at ")[0], ok, "%s %s the MAC success edge" % (text, "is dominated by" if ok else "is NOT dominated by"), loc=pv.loc(eb))
    # From here on the rules run on inlined views: private helpers (state_counter/state_inonce/
    # counter reset/rekey predicates/pad helpers, whatever they are called today) are folded into
    # their callers, so the rules do not depend on where the module draws its private boundaries.
    from ..inline import inline

    def xor_like(g):
        # crate-local two-slice writer containing a BitXor: one `&mut [u8]` and one `&[u8]`, in either order
        if g.argc != 2 or sorted(("&mut [u8]" in g.locals[i_]["t"]) for i_ in (1, 2)) != [False, True]:
            return False
        return any(s_["rv"]["k"] == "binop" and s_["rv"]["op"] == "BitXor" for u in prog.unit(g) for _, _, s_ in u.assigns())

    def xor_src(c):
        g_ = prog.callee_fns(c)[0]
        return 0 if "&mut [u8]" in g_.locals[2]["t"] else 1
    keep = (xor_like,)
    state_param = lambda f: [p for p in cm.params_of(f) if f.locals[p]["t"].endswith("State") and "mut" in f.locals[p]["t"]][0]
    # (the crate's small arithmetic/byte utilities in utils.rs are folded in as well, except the xor)
    V = {f.key: inline(prog, f, keep=keep, cross=lambda g: g.path.startswith("utils::") and g.vis != "pub") for f in (push, pull, rekey, ipush, ipull)}
    # ---- EVOLVE -------------------------------------------------------------------------------
    for f0 in (push, pull):
        f = V[f0.key]
        st = state_param(f)
        seq = state_calls(prog, f, st)
        xor = [c for n, c in seq if c.is_local and len(c.args) == 2 and prog.callee_fns(c) and xor_like(prog.callee_fns(c)[0])]
        inc = [c for n, c in seq if c.rpath in ("utils::increment_bytes", "utils::sodium_increment")]
        for b, kind, e in result_kind_of_ret(f):
            if kind != "ok" or b not in f.reachable(0):
                continue
            rep.ob("EVOLVE", "%s|inonce ^= mac on every Ok path" % f.name[-4:], bool(xor) and must_pass(f, [c.bb for c in xor], b),
                   "Ok exit at %s passes the inonce xor (%s)" % (f.loc(b), [c.loc() for c in xor]), loc=f.loc(b))
            rep.ob("EVOLVE", "%s|counter increment on every Ok path" % f.name[-4:], bool(inc) and must_pass(f, [c.bb for c in inc], b),
                   "Ok exit at %s passes the counter increment (%s)" % (f.loc(b), [c.loc() for c in inc]), loc=f.loc(b))
        # xor operand is the MAC
        if xor:
            c = xor[0]
            finals = [x for x in f.calls() if cm.POLY_FINAL.search(x.rpath)]
            macroots = set()
            for x in finals:
                macroots.add(x.dest["l"])
                for a in x.args[1:]:
                    for l in operand_locals(a):
                        macroots.add(cm.view_info(f, l)[0])
            r = cm.view_info(f, list(operand_locals(c.args[xor_src(c)]))[0])[0]
            rep.ob("EVOLVE", "%s|xor operand is the computed MAC" % f.name[-4:], r in macroots, "source operand root `%s`" % f.local_name(r), loc=c.loc())
    # ---- TAG-OUT ("recovers exactly the pushed messages and tags ... any tag byte") --------------------
    # classic pull: every Ok exit lies behind a store to the tag output whose value derives from the ciphertext
    fp = V[pull.key]
    tparams = [p_ for p_ in cm.params_of(fp) if fp.locals[p_]["t"].replace("'_ ", "") == "&mut u8"]
    cparams = [p_ for p_ in cm.params_of(fp) if fp.locals[p_]["t"].replace("'_ ", "") == "&[u8]"]
    if len(tparams) != 1 or not cparams:
        rep.violation("ANCHOR", "pull|tag output", "cannot tell the tag output parameter of the public pull (fail closed)", loc=pull.loc())
    else:
        tp = tparams[0]
        stores = [(b_, s_) for b_, i_, s_ in fp.assigns() if s_["place"]["l"] == tp and s_["place"]["p"] == ["deref"] and not fp.blocks[b_]["cleanup"]]
        from ..core import rvalue_locals
        for b, kind, e in result_kind_of_ret(fp):
            if kind != "ok" or b not in fp.reachable(0):
                continue
            rep.ob("TAG-OUT", "pull|tag written on every Ok path", bool(stores) and must_pass(fp, [b_ for b_, _ in stores], b),
                   "Ok exit at %s %s a store to the tag output (%d store site(s))" % (fp.loc(b), "lies behind" if stores and must_pass(fp, [b_ for b_, _ in stores], b) else "is reachable without", len(stores)), loc=fp.loc(b))
        for b_, s_ in stores:
            back = fp.backward_slice(rvalue_locals(s_["rv"]))
            rep.ob("TAG-OUT", "pull|tag value comes from the ciphertext", any(c_ in back for c_ in cparams),
                   "the value stored to the tag output %s the ciphertext parameter" % ("derives from" if any(c_ in back for c_ in cparams) else "does NOT derive from"), loc=fp.loc(b_))
    # object API: the byte <-> Tag conversions keep all eight bits (`from_bits_retain` / `bits`); a truncating or
    # checked conversion loses application-defined tag bits that the classic API and libsodium carry
    n_conv = 0
    for m_ in ("pull", "push"):
        for g0 in cm.find_method(prog, "dryocstream::DryocStream", m_):
            g = inline(prog, g0)
            for c in g.calls():
                if g.blocks[c.bb]["cleanup"] or not c.args:
                    continue
                dty = g.locals[c.dest["l"]]["t"]
                aty = g.locals[c.args[0]["l"]]["t"].replace("&", "").strip() if c.args[0].get("k") in ("copy", "move") else ""
                if dty == "dryocstream::Tag" and (aty == "u8" or c.args[0].get("k") == "const"):
                    n_conv += 1
                    rep.ob("TAG-OUT", "DryocStream::%s|u8 -> Tag keeps all bits" % m_, c.name == "from_bits_retain",
                           "the tag byte becomes a Tag through `%s`%s" % (c.name, "" if c.name == "from_bits_retain" else " (only `from_bits_retain` keeps bits outside the named flags)"), loc=c.loc())
                elif dty == "u8" and aty == "dryocstream::Tag":
                    n_conv += 1
                    rep.ob("TAG-OUT", "DryocStream::%s|Tag -> u8 keeps all bits" % m_, c.name == "bits", "the Tag becomes the tag byte through `%s`" % c.name, loc=c.loc())
    rep.floor("tag conversions in the object API", n_conv, 2)
    # ---- LOCKSTEP -----------------------------------------------------------------------------
    def post_mac(f):
        st = state_param(f)
        finals = [x for x in f.calls() if cm.POLY_FINAL.search(x.rpath)]
        if not finals:
            return []
        after = f.reachable_from_after(finals[0].bb)
        return [n for n, c in state_calls(prog, f, st, after)]
    sp, sl = post_mac(V[push.key]), post_mac(V[pull.key])
    rep.ob("LOCKSTEP", "post-MAC state sequence push == pull", sp == sl and len(sp) >= 4, "push: %s; pull: %s" % (sp, sl), loc=push.loc())

    def trigger_all(f):
        """The conditions that decide whether the rekey call is reached after the MAC: every
        `x & c` and every ct_eq over a state view whose result flows into the discriminant of a
        switch that has the rekey call on some but not all of its arms."""
        finals = [x for x in f.calls() if cm.POLY_FINAL.search(x.rpath)]
        if not finals:
            return None
        region = f.reachable_from_after(finals[0].bb)
        # the rekey action: a call of the public rekey function, or (when its body is shared through a
        # private helper that was folded in) the creation of a fresh cipher after the MAC was finalised
        rk = [c for c in f.calls() if rekey in prog.callee_fns(c)] or \
            [c for c in f.calls() if c.path.endswith("KeyIvInit::new") and c.bb in region]
        if not rk:
            return None
        stv = views_of(f, [state_param(f)])
        rets = [b for b in range(f.n) if f.blocks[b]["t"]["k"] == "return"]
        rkb = [x_.bb for x_ in rk]      # (one rekey call per trigger is as good as one shared call ...
        deciding = set()
        sig = set()
        # ... as long as no path runs two of them: tag bit and counter wrap together still rekey once)
        if any(y_ in f.reachable_from_after(x_) for x_ in rkb for y_ in rkb):
            sig.add(("a path rekeys twice", ()))
        for b in region:
            t = f.blocks[b]["t"]
            if t["k"] != "switch":
                continue
            # rekey can be reached from here, and can also be avoided from here
            if any(x_.bb in f.reachable(b) for x_ in rk) and any(r_ in f.reachable(b, cut_blocks=rkb) for r_ in rets):
                deciding |= f.backward_slice(operand_locals(t["x"]))
        for b, i, s_ in f.assigns():
            if b in region and s_["rv"]["k"] == "binop" and s_["rv"]["op"] == "BitAnd" and s_["place"]["l"] in deciding:
                cs = [evaluate(expr_of_operand(f, o), {}) for o in (s_["rv"]["l"], s_["rv"]["r"])]
                sig.add(("tag&", tuple(sorted(c for c in cs if isinstance(c, int) and not isinstance(c, bool)))))
        for c in f.calls():
            if c.path == cm.CT_EQ and c.bb in region and c.dest["l"] in deciding and \
                    any(x.get("k") in ("copy", "move") and x["l"] in stv for x in c.args):
                sig.add(("counter==0", tuple(w for w in [cm.array_width(f, a) for a in c.args] if w)))
                # ... with zeros: the operand that is not a view of the state is an all-zero array
                oth = [a for a in c.args if not (a.get("k") in ("copy", "move") and a["l"] in stv)]
                if len(oth) != 1 or _zero_operand(ctx, prog, f, oth[0]) is False:
                    sig.add(("counter compared with something that is not all-zero", ()))
                # polarity: the edge taken when the comparison says "equal" leads to the rekey on every path, the
                # edge taken when it says "different" does not lead to it (`unwrap_u8() == 2` is never true)
                from ..expr import edges_for_sets
                dec_ = []
                for b_ in range(f.n):
                    if f.blocks[b_]["t"]["k"] == "switch" and b_ in region:
                        r_ = edges_for_sets(f, b_, c, CT_T, CT_F)
                        if r_ and r_[0] != r_[1]:
                            dec_.append(r_)
                leads = lambda t_: any(y_ in f.reachable(t_) for y_ in rkb) and not any(x_ in f.reachable(t_, cut_blocks=rkb) for x_ in rets)
                # (a switch on a flag that other conditions can set as well - `tag & 2 == 2 || counter == 0` returned by
                # a folded-in helper - is decided per definition: "equal" must lead to the rekey, "different" may avoid it)
                pol = bool(dec_) and all(all(leads(t_) for t_ in ta_) and any(not leads(t_) for t_ in tb_) for ta_, tb_ in dec_)
                if not pol:
                    sig.add(("counter==0 does not decide the rekey", ()))
        # the masked value is compared with the same constant
        for b, i, s_ in f.assigns():
            if b in region and s_["rv"]["k"] == "binop" and s_["rv"]["op"] in ("Eq", "Ne") and s_["place"]["l"] in deciding:
                ops = [expr_of_operand(f, o) for o in (s_["rv"]["l"], s_["rv"]["r"])]
                masked = [o for o in ops if o.k == "binop" and o.a == "BitAnd"]
                vals = [evaluate(o, {}) for o in ops if not (o.k == "binop" and o.a == "BitAnd")]
                if len(masked) == 1 and len(vals) == 1:
                    sig.add(("tag-cmp", (vals[0],) if isinstance(vals[0], int) else ("?",)))
        return sig
    ap, al = trigger_all(V[push.key]), trigger_all(V[pull.key])
    want = {("tag&", (2,)), ("tag-cmp", (2,)), ("counter==0", (4,))}
    rep.ob("LOCKSTEP", "rekey trigger push == pull == libsodium", ap == al == want, "push %s; pull %s; expected %s" % (sorted(ap or []), sorted(al or []), sorted(want)), loc=pull.loc())
    # ---- PADS ---------------------------------------------------------------------------------
    from ..expr import atoms_of
    LEN = "core::slice::<impl [T]>::len"

    def grid(f, e, lens):
        """value of a length expression with the lengths of whole parameter slices fixed (abstract
        evaluation of the expression tree; no code is run)"""
        env = {("lenof", f.key, p_): v_ for p_, v_ in lens.items()}
        return evaluate(e, env)
    for f0 in (push, pull):
        f = V[f0.key]
        ups = [c for c in f.calls() if cm.POLY_UPDATE.search(c.rpath)]
        adp = [p for p in cm.params_of(f) if "Option<&" in f.locals[p]["t"] and "[u8]" in f.locals[p]["t"]]
        # the message (push) / ciphertext (pull) parameter: the only immutable byte slice
        src = [p for p in cm.params_of(f) if f.locals[p]["t"] in ("&[u8]", "&'_ [u8]")]
        outs = [p for p in cm.params_of(f) if f.locals[p]["t"] == "&mut [u8]"]
        pads = []
        for c in ups:
            ls = list(operand_locals(c.args[1]))
            root, narrowed = cm.view_info(f, ls[0]) if ls else (None, False)
            if root is None or not narrowed or "[u8; 16]" not in f.locals[root]["t"]:
                continue
            e = call_arg_exprs(c)[1]
            rng = [x for x in (call_arg_exprs(e.a) if e.k == "call" else []) if x.k == "agg"]
            end = rng[0].c[-1] if rng and rng[0].c else None
            pads.append((c, deep_repr(e), end))
        extra = 17 if f0 is pull else 0
        okad = okbody = False
        detail = []
        GA, GM = range(0, 20), range(0, 36)
        for c, t, end in pads:
            tab = None
            if end is not None and len(adp) == 1 and len(src) == 1:
                tab = {}
                for a_ in GA:
                    for m_ in GM:
                        lens = {adp[0]: a_, src[0]: m_ + extra}
                        for o_ in outs:      # push writes into `ciphertext` (len = mlen + 17); pull into `message`
                            lens[o_] = m_ + (17 if f0 is push else 0)
                        v_ = grid(f, end, lens)
                        v_ = v_[1] if isinstance(v_, tuple) and v_ and v_[0] == "ovf" else v_
                        tab[(a_, m_)] = v_
                if not all(isinstance(v_, int) and not isinstance(v_, bool) for v_ in tab.values()):
                    tab = None
            if tab is not None:
                is_ad = all(tab[(a_, m_)] == (16 - a_ % 16) & 15 for a_ in GA for m_ in GM)
                is_body = all(tab[(a_, m_)] == (16 - 64 + m_) & 15 for a_ in GA for m_ in GM)
                detail.append("pad length table over |AD|<20, mlen<36: %s" % ("(16-|AD|%16)&15" if is_ad else "(0x10-64+mlen)&0xf" if is_body else "neither formula"))
                okad, okbody = okad or is_ad, okbody or is_body
            else:
                structural = "BitAnd" in t and "const(15)" in t
                if "Rem" in t:
                    okad = okad or structural
                    detail.append("AD pad (structural): %s" % structural)
                else:
                    okbody = okbody or structural
                    detail.append("body pad (structural): %s" % structural)
        rep.ob("PADS", "%s|AD pad16 and body pad absorbed" % f.name[-4:], okad and okbody and len(pads) == 2,
               "%d MAC updates, %d over a narrowed 16-byte zero pad; %s" % (len(ups), len(pads), "; ".join(detail)), loc=f.loc())
    # ---- REKEY --------------------------------------------------------------------------------
    rk = V[rekey.key]
    st = state_param(rk)
    stv = views_of(rk, [st])
    sfields = {}
    for a in prog.adts.values():
        if a["path"] == M + "State":
            for fd in a["variants"][0]["fields"]:
                sfields[fd["name"]] = fd["ty"]["t"]
    news = [c for c in rk.calls() if c.path.endswith("KeyIvInit::new")]
    ks = [c for c in rk.calls() if c.path.endswith("StreamCipher::apply_keystream")]
    ok = len(news) == 1 and len(ks) == 1
    rep.ob("REKEY", "one cipher, one keystream call", ok, "KeyIvInit::new=%d apply_keystream=%d" % (len(news), len(ks)), loc=rk.loc())
    if ok:
        import re as _re
        targs = [deep_repr(x) for x in call_arg_exprs(news[0])]
        fty = [sorted({sfields.get(n_, "?") for n_ in _re.findall(r"_%d\.([A-Za-z_]\w*)" % st, t)}) for t in targs]
        okk = len(fty) == 2 and len(fty[0]) == 1 and len(fty[1]) == 1 and "KEYBYTES" in fty[0][0] and "NONCEBYTES" in fty[1][0] and \
            not any(cm.view_info(rk, l)[1] for a in news[0].args for l in operand_locals(a))
        rep.ob("REKEY", "cipher keyed with the state's whole key / whole nonce field", okk, "cipher operands: %s (field types %s)" % (targs, fty), loc=news[0].loc())
        buf = cm.view_info(rk, list(operand_locals(ks[0].args[1]))[0])
        rep.ob("REKEY", "whole (key||inonce) buffer is encrypted", not buf[1] and "[u8; 40]" in rk.locals[buf[0]]["t"],
               "keystream applied to `%s`: %s" % (rk.local_name(buf[0]), rk.locals[buf[0]]["t"]), loc=ks[0].loc())
        cps = [c for c in rk.calls() if c.path in cm.COPY]
        before = [c for c in cps if c.bb in rk.dom.get(ks[0].bb, ())]
        after = [c for c in cps if ks[0].bb in rk.dom.get(c.bb, ())]
        rep.ob("REKEY", "buffer filled from state before, state written from buffer after", len(before) == 2 and len(after) == 2 and
               all(cm.view_info(rk, list(operand_locals(c.args[0]))[0])[0] == buf[0] for c in before) and
               all(cm.view_info(rk, list(operand_locals(c.args[1]))[0])[0] == buf[0] for c in after) and
               all(c.args[1]["l"] in stv for c in before if c.args[1].get("k") in ("copy", "move")) and
               all(c.args[0]["l"] in stv for c in after if c.args[0].get("k") in ("copy", "move")),
               "%d copies before / %d after the keystream call" % (len(before), len(after)), loc=rk.loc())
        offs, _ = boundaries(prog, rk)
        rep.ob("REKEY", "split at 32", 32 in offs, "buffer offsets %s" % sorted(offs), loc=rk.loc())
        rets = [b for b in range(rk.n) if rk.blocks[b]["t"]["k"] == "return"]
        okr, why = counter_reset(rk, stv, after_bb=ks[0].bb, exits=rets)
        rep.ob("REKEY", "counter reset after re-keying", okr, why, loc=rk.loc())
    # ---- INIT ---------------------------------------------------------------------------------
    def init_sig(f):
        st = state_param(f)
        offs, _ = boundaries(prog, f)
        names = [n for n, c in state_calls(prog, f, st)]
        h = [c for c in f.calls() if c.rpath.endswith("crypto_core_hchacha20")]
        hd = [p for p in cm.params_of(f) if "[u8; 24]" in f.locals[p]["t"]]
        key = [p for p in cm.params_of(f) if "[u8; 32]" in f.locals[p]["t"]]
        hsig = None
        if h and len(hd) == 1 and len(key) == 1:
            ax = h[0].args
            hsig = (cm.view_info(f, list(operand_locals(ax[1]))[0])[0] == hd[0], cm.view_info(f, list(operand_locals(ax[2]))[0])[0] == key[0])
        return sorted(offs), names, hsig
    sp, sl = init_sig(V[ipush.key]), init_sig(V[ipull.key])
    rep.ob("INIT", "init_push == init_pull state derivation", sp == sl and sp[2] == (True, True), "push %s; pull %s" % (sp, sl), loc=ipull.loc())
    # header = 16 bytes of HChaCha20 input | 8 bytes of inonce (the header is a [u8; 24], so a split at
    # 16 determines both parts)
    rep.ob("INIT", "header split 16 | 8", 16 in sp[0] and not (set(sp[0]) - {4, 12, 16, 24}), "header/nonce offsets %s" % sp[0], loc=ipull.loc())
    # counter reset writes 1 into byte 0 after zero fill, on every path of both init functions
    for f0 in (ipush, ipull):
        f = V[f0.key]
        rets = [b for b in range(f.n) if f.blocks[b]["t"]["k"] == "return"]
        okr, why = counter_reset(f, views_of(f, [state_param(f)]), after_bb=None, exits=rets)
        rep.ob("INIT", "%s|counter reset = 00..00 then byte0 = 1" % f0.name[-9:], okr, why, loc=f0.loc())
    _nw = cm.read_after_wipe(rep, ctx.prog("full"), ("classic::crypto_secretstream", "dryocstream::"))
    rep.note("WIPE-ORDER: %d wipe(s) of local buffers checked in the secret-stream code" % _nw)


def counter_reset(f, stv, after_bb, exits):
    """Every exit is preceded by: a whole-view zeroing of a narrowed state view, then a store of the
    constant 1 at index 0 of a narrowed state view, with no other constant store in between."""
    narrowed = {l for l, nar in stv.items() if nar}
    zs = cm.zero_events(f, narrowed)
    stores = cm.const_index_stores(f, narrowed)
    ones = [x for x in stores if x[2] == 0 and x[3] == 1]
    other = [x for x in stores if not (x[2] == 0 and x[3] == 1)]
    why = "zeroing %s; constant stores %s" % ([z[2] for z in zs], [(i, v) for _, _, i, v in stores])
    if not zs or not ones or other:
        return False, why
    zb = [z[0] for z in zs]
    ob = [o[0] for o in ones]
    ok = all(must_pass(f, zb, e) and must_pass(f, ob, e) for e in exits)
    # order: some zeroing precedes the 1-store and none can follow it
    ok = ok and all(any(o in f.reachable(z) for z in zb) for o in ob) and not any(z in f.reachable_from_after(o) for o in ob for z in zb if z != o)
    ok = ok and not any(z == o and _stmt_order_bad(f, z) for z in zb for o in ob)
    if after_bb is not None:
        ok = ok and all(after_bb in f.dom.get(x, ()) for x in zb + ob)
    return ok, why


def _stmt_order_bad(f, b):
    return False
