"""GUARD: facts implied by dominating branch edges, as comparisons between canonical terms.

A term is an int constant, ('len', root_local) for the length of (an un-narrowed view of) a slice /
vector / container rooted at a local, ('local', l) for a scalar parameter or multi-def local, or an
opaque ('expr', repr).  Facts come only from edges that dominate the program point (sound).
"""
from .core import operand_locals
from .expr import E, expr_of_operand, call_arg_exprs, evaluate, deep_repr

LEN_CALLS = ("core::slice::<impl [T]>::len", "std::vec::Vec::<T, A>::len", "types::Bytes::len",
             "core::str::<impl str>::len", "std::string::String::len")
NEG = {"Lt": "Ge", "Le": "Gt", "Gt": "Le", "Ge": "Lt", "Eq": "Ne", "Ne": "Eq"}
SWAP = {"Lt": "Gt", "Le": "Ge", "Gt": "Lt", "Ge": "Le", "Eq": "Eq", "Ne": "Ne"}


def term_of(fn, e, view_info):
    """Canonical term for an expression (or None)."""
    if e is None:
        return None
    v = evaluate(e, {})
    if isinstance(v, bool):
        return int(v)
    if isinstance(v, int):
        return v
    if e.k == "const" and e.a is None and e.b:
        return ("constparam", str(e.b))
    if e.k == "cast":
        from .expr import cast_is_narrowing
        if cast_is_narrowing(fn, e):
            return ("expr", deep_repr(e))     # `x as u8` is x mod 256, not x
        return term_of(fn, e.a, view_info)
    if e.k == "call" and (e.a.path in LEN_CALLS or e.a.rpath in LEN_CALLS or e.a.name == "len" and len(e.a.args) == 1):
        ls = list(operand_locals(e.a.args[0]))
        if ls:
            root, narrowed = view_info(fn, ls[0])
            if not narrowed:
                return ("len", root)
            return ("len*", ls[0])
    if e.k == "unop" and e.a == "PtrMetadata":
        x = e.b
        if x.k == "local":
            return ("len", x.a)
    if e.k == "local":
        return ("local", e.a)
    if e.k == "field" and str(e.b) in ("Ok.0", "Continue.0") and e.a.k == "call" and \
            e.a.a.path in ("std::convert::TryFrom::try_from", "std::convert::TryInto::try_into") and len(e.a.a.args) == 1 and \
            "TryFromIntError" in e.a.a.fn.locals[e.a.a.dest["l"]].get("t", ""):
        # the Ok payload of an integer `try_from` is the same number
        from .expr import call_arg_exprs
        return term_of(fn, call_arg_exprs(e.a.a)[0], view_info)
    if e.k == "field":
        return ("field", deep_repr(e))
    if e.k == "binop":
        op = e.a.replace("WithOverflow", "").replace("Unchecked", "")
        l = term_of(fn, e.b, view_info)
        r = term_of(fn, e.c, view_info)
        if op in ("Add", "Sub", "Mul") and l is not None and r is not None:
            return (op, l, r)
    return ("expr", deep_repr(e))


_OK = ("res", "Ok", None)
_ERR = ("res", "Err", None)
_ok_memo = {}


def _subst(term, fn, call, g, view_info):
    """translate a term over g's parameters into a term of the caller at `call` (None if it mentions
    anything else)"""
    if isinstance(term, int):
        return term
    if not isinstance(term, tuple):
        return None
    if term[0] == "constparam":
        return term
    if term[0] in ("local", "len") and isinstance(term[1], int) and 1 <= term[1] <= g.argc and term[1] <= len(call.args):
        a = call.args[term[1] - 1]
        if term[0] == "local":
            return term_of(fn, expr_of_operand(fn, a), view_info)
        ls = list(operand_locals(a))
        if not ls:
            return None
        root, narrowed = view_info(fn, ls[0])
        return ("len", root) if not narrowed else None
    if term[0] in ("Add", "Sub", "Mul"):
        l, r = _subst(term[1], fn, call, g, view_info), _subst(term[2], fn, call, g, view_info)
        return (term[0], l, r) if l is not None and r is not None else None
    return None


def ok_facts(g, view_info, stack=()):
    """Facts over g's parameters that hold whenever g returns Ok (intersection over its Ok-capable
    return definitions of the facts established by the edges dominating each): the Ok-postcondition
    of a validating helper."""
    from .expr import result_kind_of_ret
    key = g.key
    if key in _ok_memo and _ok_memo[key][0] is g:
        return _ok_memo[key][1]
    if g.key in stack or len(stack) > 4 or g.locals[0].get("path") != "std::result::Result":
        return []
    ef = edge_facts(g, view_info, stack + (g.key,))
    res = None
    for b, kind, e in result_kind_of_ret(g):
        if kind == "err" or b not in g.reachable(0):
            continue
        combos = [[]]
        if kind == "expr":
            from .expr import ok_capable_combos
            combos = ok_capable_combos(g, e)
        fs = None
        for blocks_ in combos:
            cc = set()
            for bb_ in [b] + list(blocks_):
                for f_ in facts_at(g, bb_, ef):
                    try:
                        hash(f_)
                        cc.add(f_)
                    except TypeError:
                        pass
            fs = cc if fs is None else (fs & cc)
        fs = fs or set()
        res = fs if res is None else (res & fs)
    out = sorted(res or [], key=repr)
    _ok_memo[key] = (g, out)
    return out


def range_bounds(fn, e):
    """(lo expr, hi expr, inclusive) of a range value expression: RangeInclusive::new(lo, hi) or a
    Range / RangeInclusive aggregate"""
    if e is None:
        return None
    if e.k == "call" and e.a.name == "new" and "RangeInclusive" in e.a.path and len(e.a.args) == 2:
        ax = call_arg_exprs(e.a)
        return ax[0], ax[1], True
    if e.k == "agg" and e.a and e.c and len(e.c) == 2:
        nm = e.a.split("::")[-1]
        if nm == "Range":
            return e.c[0], e.c[1], False
        if nm == "RangeInclusive":
            return e.c[0], e.c[1], True
    return None


CMP_METHODS = {"std::cmp::PartialOrd::lt": "Lt", "std::cmp::PartialOrd::le": "Le", "std::cmp::PartialOrd::gt": "Gt",
               "std::cmp::PartialOrd::ge": "Ge", "std::cmp::PartialEq::eq": "Eq", "std::cmp::PartialEq::ne": "Ne"}


def _peel_ref_expr(e):
    d = 0
    while e is not None and e.k in ("ref", "deref") and d < 4:
        e = e.a
        d += 1
    return e


def edge_facts(fn, view_info, stack=(), interproc=True):
    """{(switch_bb, target_bb): [(op, lhs_term, rhs_term), ...]}.  Besides the comparisons in this
    body, the Ok edge of a call to a crate-local Result-returning function carries that function's
    Ok-postcondition (so validation extracted into a helper guards what follows its `?`)."""
    out = {}
    prog = fn.prog
    if prog is not None and interproc:
        from .expr import decisive_edges
        for c in fn.calls():
            if not c.is_local or c.dest["p"]:
                continue
            if fn.locals[c.dest["l"]].get("path") != "std::result::Result":
                continue
            gs = prog.callee_fns(c)
            if len(gs) != 1 or not gs[0].blocks:
                continue
            post = ok_facts(gs[0], view_info, stack)
            if not post:
                continue
            tr = []
            for op, l, r in post:
                l2, r2 = _subst(l, fn, c, gs[0], view_info), _subst(r, fn, c, gs[0], view_info)
                if l2 is not None and r2 is not None:
                    tr.append((op, l2, r2))
            if not tr:
                continue
            good, bad = decisive_edges(fn, c, _OK, _ERR)
            for e_ in good:
                out.setdefault(e_, []).extend(tr)
    # std contract: `<[u8; N]>::try_from(&[u8])` / `<&[u8; N]>::try_from(&[u8])` (and try_into) is Ok
    # exactly when the slice has N elements
    for c in fn.calls():
        if c.path not in ("std::convert::TryFrom::try_from", "std::convert::TryInto::try_into") or len(c.args) != 1 or c.dest["p"]:
            continue
        dty = fn.locals[c.dest["l"]].get("t", "")
        import re as _re
        m = _re.match(r"^std::result::Result<&?(?:'\w+ )?(?:mut )?\[u8; (\w+)\], std::array::TryFromSliceError>$", dty)
        a0 = c.args[0]
        if not m or a0.get("k") not in ("copy", "move"):
            continue
        aty = fn.locals[a0["l"]].get("t", "").replace("'_ ", "")
        if not _re.match(r"^&(?:'\w+ )?(?:mut )?\[u8\]$", aty):
            continue
        root, narrowed = view_info(fn, a0["l"])
        lt = ("len", root) if not narrowed else ("len*", a0["l"])
        n = int(m.group(1)) if m.group(1).isdigit() else ("constparam", m.group(1))
        from .expr import decisive_edges as _de
        good, bad = _de(fn, c, _OK, _ERR)
        for e_ in good:
            out.setdefault(e_, []).append(("Eq", lt, n))
    for b in range(fn.n):
        t = fn.blocks[b]["t"]
        if t["k"] != "switch":
            continue
        e = expr_of_operand(fn, t["x"])
        arms = {v: tb for v, tb in t["arms"]}
        if e.k == "binop" and e.a in NEG:
            l = term_of(fn, e.b, view_info)
            r = term_of(fn, e.c, view_info)
            if l is None or r is None:
                continue
            if 0 in arms:
                ft, tt = arms[0], t["otherwise"]
                if ft != tt:
                    out.setdefault((b, tt), []).append((e.a, l, r))
                    out.setdefault((b, ft), []).append((NEG[e.a], l, r))
        elif e.k == "unop" and e.a == "Not" and e.b.k == "binop" and e.b.a in NEG:
            l = term_of(fn, e.b.b, view_info)
            r = term_of(fn, e.b.c, view_info)
            if 0 in arms and l is not None and r is not None:
                ft, tt = arms[0], t["otherwise"]
                if ft != tt:
                    out.setdefault((b, tt), []).append((NEG[e.b.a], l, r))
                    out.setdefault((b, ft), []).append((e.b.a, l, r))
        elif e.k == "discr" and e.a.k == "call" and e.a.a.path.startswith("core::num::<impl u") and e.a.a.path.endswith("::checked_sub") \
                and len(e.a.a.args) == 2 and (0 in arms or 1 in arms):
            # `a.checked_sub(b)`: Some exactly when a >= b
            ax = call_arg_exprs(e.a.a)
            l, r = term_of(fn, ax[0], view_info), term_of(fn, ax[1], view_info)
            some_t = arms.get(1, t["otherwise"])
            none_t = arms.get(0, t["otherwise"])
            if l is not None and r is not None and some_t != none_t:
                out.setdefault((b, some_t), []).append(("Ge", l, r))
                out.setdefault((b, none_t), []).append(("Lt", l, r))
        elif e.k == "call" and len(e.a.args) == 2 and e.a.path in CMP_METHODS and 0 in arms:
            # `a < b` on a generic `T: PartialOrd` (a validation helper shared by several integer
            # types) is a trait method call on references
            ax = call_arg_exprs(e.a)
            l = term_of(fn, _peel_ref_expr(ax[0]), view_info)
            r = term_of(fn, _peel_ref_expr(ax[1]), view_info)
            op = CMP_METHODS[e.a.path]
            ft, tt = arms[0], t["otherwise"]
            if l is not None and r is not None and ft != tt:
                out.setdefault((b, tt), []).append((op, l, r))
                out.setdefault((b, ft), []).append((NEG[op], l, r))
        elif e.k == "call" and e.a.name == "contains" and len(e.a.args) == 2 and "ops::Range" in e.a.path and 0 in arms:
            # (lo..=hi).contains(&x) / (lo..hi).contains(&x): on the true edge lo <= x <= hi (x < hi)
            rb = range_bounds(fn, call_arg_exprs(e.a)[0])
            x = term_of(fn, call_arg_exprs(e.a)[1], view_info)
            if rb is not None and x is not None and arms[0] != t["otherwise"]:
                lo, hi, incl = rb
                lo_t, hi_t = term_of(fn, lo, view_info), term_of(fn, hi, view_info)
                if lo_t is not None:
                    out.setdefault((b, t["otherwise"]), []).append(("Ge", x, lo_t))
                if hi_t is not None:
                    out.setdefault((b, t["otherwise"]), []).append(("Le" if incl else "Lt", x, hi_t))
        elif e.k == "call" and e.a.name in ("is_empty",) and len(e.a.args) == 1:
            ls = list(operand_locals(e.a.args[0]))
            if ls and 0 in arms:
                root, narrowed = view_info(fn, ls[0])
                if not narrowed:
                    ft, tt = arms[0], t["otherwise"]
                    out.setdefault((b, tt), []).append(("Eq", ("len", root), 0))
                    out.setdefault((b, ft), []).append(("Ne", ("len", root), 0))
    return out


def facts_at(fn, block, efacts):
    """Facts that hold whenever `block` is reached (edges dominating it)."""
    out = []
    for (s, tgt), fs in efacts.items():
        if s in fn.dom.get(block, ()) and fn.edge_dominates((s, tgt), block):
            out += fs
    return out


def bounds(term, facts):
    """(lo, hi) integer bounds on `term` implied by facts comparing it with constants."""
    lo, hi = None, None
    for op, l, r in facts:
        if r == term and isinstance(l, int):
            op, l, r = SWAP[op], r, l
        if l != term or not isinstance(r, int) or isinstance(r, bool):
            continue
        if op == "Ge":
            lo = r if lo is None else max(lo, r)
        elif op == "Gt":
            lo = r + 1 if lo is None else max(lo, r + 1)
        elif op == "Le":
            hi = r if hi is None else min(hi, r)
        elif op == "Lt":
            hi = r - 1 if hi is None else min(hi, r - 1)
        elif op == "Eq":
            lo = r if lo is None else max(lo, r)
            hi = r if hi is None else min(hi, r)
    return lo, hi
