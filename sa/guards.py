"""GUARD: facts implied by dominating branch edges, as comparisons between canonical terms.

A term is an int constant, ('len', root_local) for the length of (an un-narrowed view of) a slice /
vector / container rooted at a local, ('local', l) for a scalar parameter or multi-def local, or an
opaque ('expr', repr).  Facts come only from edges that dominate the program point (sound).
"""
from .core import operand_locals
from .expr import E, expr_of_operand, call_arg_exprs, evaluate, deep_repr

LEN_CALLS = ("core::slice::<impl [T]>::len", "std::vec::Vec::<T, A>::len", "types::Bytes::len",
             "core::str::<impl str>::len", "std::string::String::len")
NEG = {"Lt": "Ge", "Le": "Gt", "Gt": "Le", "Ge": "Lt", "Eq": "Ne", "Ne": "Eq"}
SWAP = {"Lt": "Gt", "Le": "Ge", "Gt": "Lt", "Ge": "Le", "Eq": "Eq", "Ne": "Ne"}


def term_of(fn, e, view_info):
    """Canonical term for an expression (or None)."""
    if e is None:
        return None
    v = evaluate(e, {})
    if isinstance(v, bool):
        return int(v)
    if isinstance(v, int):
        return v
    if e.k == "const" and e.a is None and e.b:
        return ("constparam", str(e.b))
    if e.k == "cast":
        return term_of(fn, e.a, view_info)
    if e.k == "call" and (e.a.path in LEN_CALLS or e.a.rpath in LEN_CALLS or e.a.name == "len" and len(e.a.args) == 1):
        ls = list(operand_locals(e.a.args[0]))
        if ls:
            root, narrowed = view_info(fn, ls[0])
            if not narrowed:
                return ("len", root)
            return ("len*", ls[0])
    if e.k == "unop" and e.a == "PtrMetadata":
        x = e.b
        if x.k == "local":
            return ("len", x.a)
    if e.k == "local":
        return ("local", e.a)
    if e.k == "field":
        return ("field", deep_repr(e))
    if e.k == "binop":
        op = e.a.replace("WithOverflow", "").replace("Unchecked", "")
        l = term_of(fn, e.b, view_info)
        r = term_of(fn, e.c, view_info)
        if op in ("Add", "Sub", "Mul") and l is not None and r is not None:
            return (op, l, r)
    return ("expr", deep_repr(e))


def edge_facts(fn, view_info):
    """{(switch_bb, target_bb): [(op, lhs_term, rhs_term), ...]}"""
    out = {}
    for b in range(fn.n):
        t = fn.blocks[b]["t"]
        if t["k"] != "switch":
            continue
        e = expr_of_operand(fn, t["x"])
        arms = {v: tb for v, tb in t["arms"]}
        if e.k == "binop" and e.a in NEG:
            l = term_of(fn, e.b, view_info)
            r = term_of(fn, e.c, view_info)
            if l is None or r is None:
                continue
            if 0 in arms:
                ft, tt = arms[0], t["otherwise"]
                if ft != tt:
                    out.setdefault((b, tt), []).append((e.a, l, r))
                    out.setdefault((b, ft), []).append((NEG[e.a], l, r))
        elif e.k == "unop" and e.a == "Not" and e.b.k == "binop" and e.b.a in NEG:
            l = term_of(fn, e.b.b, view_info)
            r = term_of(fn, e.b.c, view_info)
            if 0 in arms and l is not None and r is not None:
                ft, tt = arms[0], t["otherwise"]
                if ft != tt:
                    out.setdefault((b, tt), []).append((NEG[e.b.a], l, r))
                    out.setdefault((b, ft), []).append((e.b.a, l, r))
        elif e.k == "call" and e.a.name in ("is_empty",) and len(e.a.args) == 1:
            ls = list(operand_locals(e.a.args[0]))
            if ls and 0 in arms:
                root, narrowed = view_info(fn, ls[0])
                if not narrowed:
                    ft, tt = arms[0], t["otherwise"]
                    out.setdefault((b, tt), []).append(("Eq", ("len", root), 0))
                    out.setdefault((b, ft), []).append(("Ne", ("len", root), 0))
    return out


def facts_at(fn, block, efacts):
    """Facts that hold whenever `block` is reached (edges dominating it)."""
    out = []
    for (s, tgt), fs in efacts.items():
        if s in fn.dom.get(block, ()) and fn.edge_dominates((s, tgt), block):
            out += fs
    return out


def bounds(term, facts):
    """(lo, hi) integer bounds on `term` implied by facts comparing it with constants."""
    lo, hi = None, None
    for op, l, r in facts:
        if r == term and isinstance(l, int):
            op, l, r = SWAP[op], r, l
        if l != term or not isinstance(r, int) or isinstance(r, bool):
            continue
        if op == "Ge":
            lo = r if lo is None else max(lo, r)
        elif op == "Gt":
            lo = r + 1 if lo is None else max(lo, r + 1)
        elif op == "Le":
            hi = r if hi is None else min(hi, r)
        elif op == "Lt":
            hi = r - 1 if hi is None else min(hi, r - 1)
        elif op == "Eq":
            lo = r if lo is None else max(lo, r)
            hi = r if hi is None else min(hi, r)
    return lo, hi
