"""Forward abstract interpretation of one MIR body over a disjunctive polyhedral domain.

Abstract state = bounded set of (constraint list, environment) pairs.  The environment maps integer-
valued locals to linear forms, reference locals to the length of the slice they point to or to the
tracked vector they alias, and boolean locals to the comparison that defines them.  Tracked vectors
(Vec<u8> fields of `self`) carry a current symbolic length that is updated by extend_from_slice /
clear / resize / push / truncate; crate-local callees that receive the whole `&mut self` are assumed
to preserve a vector's length only if no length-changing call on that field is reachable from them.
Branch edges add the linear constraints of their comparison; infeasible states (Fourier–Motzkin) are
dropped.  Loops are handled by processing back-edge-free order and havocking anything a loop body
modifies.  Used for buffer-length invariants of the incremental hashers (C08): a dataflow analysis
in the classical sense, not path enumeration handed to a solver — FM is only the domain's emptiness /
entailment test.
"""
from fractions import Fraction
from itertools import count

from . import lenck as L
from .core import operand_locals

MAX_STATES = 96
_fresh = count(1)

VEC_LEN = ("std::vec::Vec::<T, A>::len",)
VEC_EMPTY = ("std::vec::Vec::<T, A>::is_empty",)
SLICE_LEN = ("core::slice::<impl [T]>::len",)
SLICE_EMPTY = ("core::slice::<impl [T]>::is_empty",)
EXTEND = ("std::vec::Vec::<T, A>::extend_from_slice",)
CLEAR = ("std::vec::Vec::<T, A>::clear",)
RESIZE = ("std::vec::Vec::<T, A>::resize",)
PUSH = ("std::vec::Vec::<T, A>::push",)
TRUNC = ("std::vec::Vec::<T, A>::truncate",)
COPYFS = ("core::slice::<impl [T]>::copy_from_slice",)
CHANGERS = EXTEND + CLEAR + RESIZE + PUSH + TRUNC + ("std::vec::Vec::<T, A>::pop", "std::iter::Extend::extend",
                                                     "zeroize::Zeroize::zeroize", "std::vec::Vec::<T, A>::drain",
                                                     "std::vec::Vec::<T, A>::set_len", "std::vec::Vec::<T, A>::insert",
                                                     "std::vec::Vec::<T, A>::remove", "std::vec::Vec::<T, A>::append")
VIEW_OF_VEC = ("std::ops::Deref::deref", "std::ops::DerefMut::deref_mut", "std::vec::Vec::<T, A>::as_slice",
               "std::vec::Vec::<T, A>::as_mut_slice", "std::convert::AsRef::as_ref", "std::convert::AsMut::as_mut",
               "std::clone::Clone::clone")
INDEX = ("std::ops::Index::index", "std::ops::IndexMut::index_mut")
PURE_VIEW_NAMES = ("len", "is_empty", "split_at", "split_at_mut", "as_ptr", "as_slice", "as_ref", "deref", "first", "last", "get",
                   "into_iter", "iter", "as_array", "borrow")


def fresh(tag):
    return ("v", "%s#%d" % (tag, next(_fresh)))


class State:
    __slots__ = ("cons", "env", "ref", "boolv", "vec", "consumed")

    def __init__(self):
        self.consumed = []  # [(start lin, length lin, what, bb)]: sub-views of the tracked input handed on
        self.cons = []
        self.env = {}      # local -> lin (integer value)
        self.ref = {}      # local -> ('slice', lin) | ('vec', field)
        self.boolv = {}    # local -> (op, lin, lin) or ('not', local)
        self.vec = {}      # field -> lin (current length)

    def copy(self):
        s = State()
        s.cons = list(self.cons)
        s.env = dict(self.env)
        s.ref = dict(self.ref)
        s.boolv = dict(self.boolv)
        s.vec = dict(self.vec)
        s.consumed = list(self.consumed)
        return s

    def feasible(self):
        lins = [c[0] for c in self.cons]
        return not L.fm_unsat(self.cons + L.nonneg_facts(lins))


def field_of_place(place, self_local=1, aliases=()):
    """'buffer' for ((*_1).buffer) style places rooted at self (or at a reborrow of self, e.g. the
    receiver of an inlined helper)"""
    if place["l"] != self_local and place["l"] not in aliases:
        return None
    names = [pe["n"] for pe in place["p"] if isinstance(pe, dict) and "f" in pe]
    others = [pe for pe in place["p"] if pe != "deref" and not (isinstance(pe, dict) and "f" in pe)]
    if len(names) == 1 and not others:
        return names[0]
    return None


class Interp:
    def __init__(self, prog, fn, tracked_fields, entry_cons, preserve_cache=None):
        self.prog = prog
        self.fn = fn
        self.tracked = list(tracked_fields)
        self.entry_cons = entry_cons
        self.preserve_cache = preserve_cache if preserve_cache is not None else {}
        self.notes = []
        # locals that are the receiver itself (reborrows / moves of `self`, receivers of inlined helpers)
        from .core import strip_reborrow
        self.aliases = set()
        t1 = fn.locals[1]["t"] if fn.argc >= 1 else None
        for l in range(fn.argc + 1, len(fn.locals)):
            lt = fn.locals[l]["t"]
            if t1 is not None and lt.replace("&mut ", "&").lstrip("&") == t1.replace("&mut ", "&").lstrip("&") and lt.startswith("&"):
                if strip_reborrow(fn, l)[-1] == 1:
                    self.aliases.add(l)
        self._vn = {}
        self.probe = None
        self.probes = []
        self.track_input = None     # parameter local whose sub-views handed on are logged in State.consumed

    # ---- helpers ---------------------------------------------------------------------------------
    def operand_lin(self, st, o):
        if o.get("k") == "const":
            v = o.get("v")
            if isinstance(v, int):
                return L.lin_const(v)
            return None
        if o.get("k") in ("copy", "move"):
            if not o["p"]:
                return st.env.get(o["l"])
            # tuple field of an overflow pair: (_x.0)
            if len(o["p"]) == 1 and isinstance(o["p"][0], dict) and o["p"][0].get("f") == 0:
                return st.env.get(("pair", o["l"]))
        return None

    def ref_of_operand(self, st, o):
        if o.get("k") in ("copy", "move") and all(pe == "deref" for pe in o["p"]):
            return st.ref.get(o["l"])
        if o.get("k") in ("copy", "move"):
            # field of a tuple of slices returned by split_at: (_t.0) / (_t.1)
            proj = [pe for pe in o["p"] if pe != "deref"]
            if len(proj) == 1 and isinstance(proj[0], dict) and "f" in proj[0]:
                return st.ref.get(("tup", o["l"], proj[0]["f"]))
        return None

    def len_of_ref(self, st, r):
        if r is None:
            return None
        if r[0] == "slice":
            return r[1]
        if r[0] == "vec":
            return st.vec.get(r[1])
        return None

    def array_len(self, l):
        return L.array_len_of_ty(self.fn.locals[l])

    # ---- transfer: statements --------------------------------------------------------------------
    def do_assign(self, st, s):
        fn = self.fn
        dst = s["place"]
        rv = s["rv"]
        k = rv["k"]
        if dst["p"]:
            # store through a place: if it writes a tracked integer local's field we ignore; stores into
            # tracked vec storage do not change lengths
            return
        d = dst["l"]
        st.env.pop(d, None)
        st.ref.pop(d, None)
        st.boolv.pop(d, None)
        st.env.pop(("pair", d), None)
        if k == "use":
            x = rv["x"]
            lin = self.operand_lin(st, x)
            if lin is not None:
                st.env[d] = lin
            r = self.ref_of_operand(st, x)
            if r is not None:
                st.ref[d] = r
            if x.get("k") in ("copy", "move") and not x["p"] and x["l"] in st.boolv:
                st.boolv[d] = st.boolv[x["l"]]
        elif k in ("ref", "rawptr"):
            pl = rv["place"]
            fld = field_of_place(pl, 1, self.aliases)
            if fld in self.tracked:
                st.ref[d] = ("vec", fld)
            elif all(pe == "deref" for pe in pl["p"]):
                r = st.ref.get(pl["l"])
                if r is not None:
                    st.ref[d] = r
                else:
                    n = self.array_len(pl["l"])
                    if n is not None:
                        st.ref[d] = ("slice", L.lin_const(n))
            else:
                n = None
        elif k == "cast":
            x = rv["x"]
            lin = self.operand_lin(st, x)
            if lin is not None:
                st.env[d] = lin
            r = self.ref_of_operand(st, x)
            if r is not None:
                st.ref[d] = r
            elif x.get("k") in ("copy", "move") and not x["p"]:
                n = self.array_len(x["l"])
                if n is not None:
                    st.ref[d] = ("slice", L.lin_const(n))
        elif k == "binop":
            op = rv["op"]
            base = op.replace("WithOverflow", "").replace("Unchecked", "")
            a = self.operand_lin(st, rv["l"])
            b = self.operand_lin(st, rv["r"])
            val = None
            if base in ("Add", "Sub") and a is not None and b is not None:
                val = L.lin_add(a, b, 1 if base == "Add" else -1)
            elif base == "Mul" and a is not None and b is not None and (L.lin_is_const(a) or L.lin_is_const(b)):
                val = L.lin_scale(b, a[1]) if L.lin_is_const(a) else L.lin_scale(a, b[1])
            elif base == "Rem" and b is not None and L.lin_is_const(b) and b[1] > 0:
                # value numbering: the same dividend expression modulo the same constant is the same value
                key = ("rem", tuple(sorted((repr(k_), v_) for k_, v_ in (a or {}).items())), int(b[1])) if a is not None else None
                if key is not None and key in self._vn:
                    v = self._vn[key]
                else:
                    v = fresh("rem")
                    if key is not None:
                        self._vn[key] = v
                val = L.lin_var(v)
                st.cons.append((L.lin_var(v), ">="))
                st.cons.append(L.ge(L.lin_const(b[1] - 1), L.lin_var(v)))
                if a is not None:
                    # a = k*q + v with an integer quotient q >= 0
                    qk = ("quot",) + key[1:] if key is not None else None
                    if qk in self._vn:
                        q = self._vn[qk]
                    else:
                        q = ("q", "quot#%d" % next(_fresh))
                        if qk is not None:
                            self._vn[qk] = q
                    st.cons.append((L.lin_var(q), ">="))
                    st.cons.append(L.eq(a, L.lin_add(L.lin_scale(L.lin_var(q), b[1]), L.lin_var(v))))
            elif base == "BitAnd":
                for x in (a, b):
                    if x is not None and L.lin_is_const(x) and x[1] >= 0:
                        v = fresh("and")
                        val = L.lin_var(v)
                        st.cons.append((L.lin_var(v), ">="))
                        st.cons.append(L.ge(L.lin_const(x[1]), L.lin_var(v)))
                        break
            elif base in ("Lt", "Le", "Gt", "Ge", "Eq", "Ne") and a is not None and b is not None:
                st.boolv[d] = (base, a, b)
                return
            if val is not None:
                if op.endswith("WithOverflow"):
                    st.env[("pair", d)] = val
                else:
                    st.env[d] = val
        elif k == "unop":
            if rv["op"] == "Not":
                x = rv["x"]
                if x.get("k") in ("copy", "move") and not x["p"] and x["l"] in st.boolv:
                    st.boolv[d] = ("not", st.boolv[x["l"]])
            elif rv["op"] == "PtrMetadata":
                r = self.ref_of_operand(st, rv["x"])
                ln = self.len_of_ref(st, r)
                if ln is not None:
                    st.env[d] = ln

    # ---- transfer: calls --------------------------------------------------------------------------
    def callee_preserves(self, call, field):
        """does a crate-local callee receiving `&mut self` leave the tracked vector's length alone?"""
        key = (call.rkey, field)
        if key in self.preserve_cache:
            return self.preserve_cache[key]
        ok = False
        tg = self.prog.callee_fns(call)
        if tg:
            ok = True
            seen = self.prog.reach_fns(tg)
            for k in seen:
                g = self.prog.by_key[k]
                for c in g.calls():
                    if (c.path in CHANGERS or c.rpath in CHANGERS) and c.args:
                        # on which storage?  conservatively: any changer on a place mentioning the field name
                        for b, i, s in g.assigns():
                            pass
                        ok = ok and not self._call_touches_field(g, c, field)
        self.preserve_cache[key] = ok
        return ok

    def _call_touches_field(self, g, c, field):
        # walk back the first argument to a `&mut ((*_1).field)` reference
        from .core import strip_reborrow, def_sites
        ls = list(operand_locals(c.args[0]))
        if not ls:
            return False
        cur = strip_reborrow(g, ls[0])[-1]
        ds = def_sites(g, cur)
        if len(ds) == 1 and ds[0][1] == "assign" and ds[0][2]["rv"]["k"] in ("ref", "rawptr"):
            return field_of_place(ds[0][2]["rv"]["place"]) == field
        return True     # unknown storage: assume it may be the tracked field

    def do_call(self, st, c):
        fn = self.fn
        d = c.dest["l"] if not c.dest["p"] else None
        if d is not None:
            st.env.pop(d, None)
            st.ref.pop(d, None)
            st.boolv.pop(d, None)
        p = c.path
        rp = c.rpath
        args = c.args
        self.note_consumption(st, c)

        def a_ref(i):
            return self.ref_of_operand(st, args[i]) if i < len(args) else None

        def a_lin(i):
            return self.operand_lin(st, args[i]) if i < len(args) else None
        if p in VEC_LEN or p in SLICE_LEN or (c.name == "len" and len(args) == 1):
            ln = self.len_of_ref(st, a_ref(0))
            if ln is not None and d is not None:
                st.env[d] = ln
            return
        if p in VEC_EMPTY or p in SLICE_EMPTY or (c.name == "is_empty" and len(args) == 1):
            ln = self.len_of_ref(st, a_ref(0))
            if ln is not None and d is not None:
                st.boolv[d] = ("Eq", ln, L.lin_const(0))
            return
        if p in ("std::cmp::min", "std::cmp::Ord::min"):
            a, b = a_lin(0), a_lin(1)
            if d is not None:
                v = fresh("min")
                st.env[d] = L.lin_var(v)
                st.cons.append((L.lin_var(v), ">="))
                if a is not None:
                    st.cons.append(L.ge(a, L.lin_var(v)))
                if b is not None:
                    st.cons.append(L.ge(b, L.lin_var(v)))
                st.env[("minof", d)] = (a, b)
            return
        if p in VIEW_OF_VEC:
            r = a_ref(0)
            if r is not None and d is not None:
                ln = self.len_of_ref(st, r)
                if ln is not None:
                    st.ref[d] = ("slice", ln)      # for clone(): a local vector value of that length
            return
        if p in ("core::slice::<impl [T]>::split_at", "core::slice::<impl [T]>::split_at_mut") and len(args) == 2:
            base = self.len_of_ref(st, a_ref(0))
            mid = a_lin(1)
            if d is not None:
                st.ref.pop(("tup", d, 0), None)
                st.ref.pop(("tup", d, 1), None)
                org = a_ref(0)[2] if a_ref(0) and len(a_ref(0)) > 2 else None
                if mid is not None:
                    st.ref[("tup", d, 0)] = ("slice", mid) + ((org,) if org else ())
                    if base is not None:
                        st.ref[("tup", d, 1)] = ("slice", L.lin_add(base, mid, -1)) + (((org[0], L.lin_add(org[1], mid)),) if org else ())
                        st.cons.append(L.ge(base, mid))      # split_at returned: mid <= len
            return
        if p in INDEX and len(args) == 2:
            base = self.len_of_ref(st, a_ref(0))
            rng = args[1]
            res = self.range_len(st, base, rng)
            if res is not None and d is not None:
                org = a_ref(0)[2] if a_ref(0) and len(a_ref(0)) > 2 else None
                off = self.range_start(st, rng) if org else None
                st.ref[d] = ("slice", res) + (((org[0], L.lin_add(org[1], off)),) if org and off is not None else ())
            return
        if (p in EXTEND) and a_ref(0) and a_ref(0)[0] == "vec":
            f = a_ref(0)[1]
            add = self.len_of_ref(st, a_ref(1))
            cur = st.vec.get(f)
            st.vec[f] = L.lin_add(cur, add) if (cur is not None and add is not None) else L.lin_var(fresh("len_" + f))
            return
        if p in CLEAR and a_ref(0) and a_ref(0)[0] == "vec":
            st.vec[a_ref(0)[1]] = L.lin_const(0)
            return
        if p in RESIZE and a_ref(0) and a_ref(0)[0] == "vec":
            n = a_lin(1)
            st.vec[a_ref(0)[1]] = n if n is not None else L.lin_var(fresh("len"))
            return
        if p in PUSH and a_ref(0) and a_ref(0)[0] == "vec":
            f = a_ref(0)[1]
            cur = st.vec.get(f)
            st.vec[f] = L.lin_add(cur, L.lin_const(1)) if cur is not None else L.lin_var(fresh("len"))
            return
        if p in COPYFS:
            return
        # any other call: tracked vectors passed by `&mut` (directly, or through `&mut self`) are havocked
        # unless a crate-local callee provably leaves their length alone
        for i, a in enumerate(args):
            r = self.ref_of_operand(st, a)
            if r is not None and r[0] == "vec" and fn.locals[a["l"]]["t"].startswith("&mut"):
                if (p in CHANGERS or rp in CHANGERS) or not c.is_local:
                    if p.startswith("zeroize::") or not c.is_local and not p.startswith(("std::", "core::")):
                        st.vec[r[1]] = L.lin_var(fresh("len_" + r[1]))
                    elif p in CHANGERS:
                        st.vec[r[1]] = L.lin_var(fresh("len_" + r[1]))
            if a.get("k") in ("copy", "move") and (a["l"] == 1 or a["l"] in self.aliases) and not a["p"] or self._is_self_reborrow(a):
                for f in self.tracked:
                    if not (c.is_local and self.callee_preserves(c, f)):
                        st.vec[f] = L.lin_var(fresh("len_" + f))
                        self.notes.append("length of self.%s havocked by %s" % (f, rp))

    def _is_self_reborrow(self, a):
        if a.get("k") not in ("copy", "move") or a["p"]:
            return False
        from .core import strip_reborrow
        ch = strip_reborrow(self.fn, a["l"])
        return ch[-1] == 1 and self.fn.locals[a["l"]]["t"].startswith("&mut") and a["l"] != 1

    def range_len(self, st, base, rng):
        """length of s[range] where range is an aggregate operand built in this block"""
        fn = self.fn
        if rng.get("k") not in ("copy", "move") or rng["p"]:
            return None
        agg = self._agg.get(rng["l"])
        if agg is None:
            return None
        nm, ops = agg
        vals = [self.operand_lin(st, o) for o in ops]
        if any(v is None for v in vals):
            return None
        if nm == "Range":
            return L.lin_add(vals[1], vals[0], -1)
        if nm == "RangeFrom" and base is not None:
            return L.lin_add(base, vals[0], -1)
        if nm == "RangeTo":
            return vals[0]
        if nm == "RangeFull":
            return base
        return None

    def range_start(self, st, rng):
        if rng.get("k") not in ("copy", "move") or rng["p"]:
            return None
        agg = self._agg.get(rng["l"])
        if agg is None:
            return None
        nm, ops = agg
        if nm in ("RangeTo", "RangeFull", "RangeToInclusive"):
            return L.lin_const(0)
        if nm in ("Range", "RangeFrom", "RangeInclusive") and ops:
            return self.operand_lin(st, ops[0])
        return None

    def note_consumption(self, st, c):
        """a sub-view of the tracked input handed to anything but a pure view / measuring function"""
        if self.track_input is None:
            return
        if c.name in PURE_VIEW_NAMES or c.path in INDEX or c.path.startswith(("core::panicking", "core::fmt", "std::fmt")):
            return
        for i, a in enumerate(c.args):
            r = self.ref_of_operand(st, a)
            if r is not None and r[0] == "slice" and len(r) > 2 and r[2][0] == self.track_input:
                # the destination operand of a copy is not a consumption of the source bytes
                if c.name in ("copy_from_slice", "clone_from_slice") and i == 0:
                    continue
                st.consumed.append((r[2][1], r[1], c.name, c.bb))

    # ---- edges -----------------------------------------------------------------------------------
    def cond_constraints(self, st, bv, truth):
        """constraints for boolean value bv being `truth`"""
        if bv is None:
            return []
        if bv[0] == "not":
            return self.cond_constraints(st, bv[1], not truth)
        op, a, b = bv
        if not truth:
            op = {"Lt": "Ge", "Le": "Gt", "Gt": "Le", "Ge": "Lt", "Eq": "Ne", "Ne": "Eq"}[op]
        if op == "Ne":
            # over naturals: a != b with one side 0  =>  other >= 1
            if L.lin_is_const(b) and b[1] == 0:
                return [L.ge(a, L.lin_const(1))]
            if L.lin_is_const(a) and a[1] == 0:
                return [L.ge(b, L.lin_const(1))]
            return []
        return L.cmp_to_constraints(op, a, b)

    # ---- driver ----------------------------------------------------------------------------------
    def run(self):
        fn = self.fn
        # aggregates (ranges) by destination local
        self._agg = {}
        for b, i, s in fn.assigns():
            rv = s["rv"]
            if rv["k"] == "agg" and rv.get("agg") == "adt" and rv.get("path", "").startswith("std::ops::Range"):
                self._agg[s["place"]["l"]] = (rv["path"].split("::")[-1], rv["ops"])
        order, back = self.rpo()
        loops_mod = self.loop_modifications(back)
        init = State()
        for f in self.tracked:
            init.vec[f] = L.lin_var(("v", "len_%s@entry" % f))
        for p in range(1, fn.argc + 1):
            t = fn.locals[p]["t"]
            if t in ("&[u8]", "&mut [u8]"):
                init.ref[p] = ("slice", L.lin_var(("len", fn.local_name(p))), (p, L.lin_const(0)))
            elif t in ("usize", "u64", "u32", "u8"):
                init.env[p] = L.lin_var(("local", fn.local_name(p)))
        init.cons = list(self.entry_cons(init))
        states = {0: [init]}
        exits = []
        for b in order:
            cur = states.get(b, [])
            if not cur:
                continue
            if b in loops_mod:
                for st in cur:
                    for f in loops_mod[b]:
                        st.vec[f] = L.lin_var(fresh("len_" + f))
            blk = fn.blocks[b]
            out = []
            for st in cur:
                st = st.copy()
                for s in blk["s"]:
                    if s["k"] == "assign":
                        self.do_assign(st, s)
                t = blk["t"]
                k = t["k"]
                if k == "call":
                    cobj = fn.call_at(b)
                    if self.probe is not None and self.probe(cobj):
                        self.probes.append((cobj, st.copy()))
                    self.do_call(st, cobj)
                    if t.get("t") is not None:
                        dl = cobj.dest["l"] if not cobj.dest["p"] else None
                        mo = st.env.get(("minof", dl)) if dl is not None else None
                        if mo is not None and mo[0] is not None and mo[1] is not None and dl in st.env:
                            # min(a, b) is a or b: two states (v == a <= b | v == b <= a)
                            v_ = st.env[dl]
                            s1, s2 = st.copy(), st.copy()
                            s1.cons += [L.eq(v_, mo[0]), L.ge(mo[1], mo[0])]
                            s2.cons += [L.eq(v_, mo[1]), L.ge(mo[0], mo[1])]
                            out.append((t["t"], s1))
                            out.append((t["t"], s2))
                        else:
                            out.append((t["t"], st))
                elif k == "goto":
                    out.append((t["t"], st))
                elif k in ("drop", "assert"):
                    if k == "assert":
                        # the asserted condition holds on the success edge
                        c = t["cond"]
                        bv = st.boolv.get(c["l"]) if c.get("k") in ("copy", "move") and not c["p"] else None
                        if bv is not None:
                            st.cons += self.cond_constraints(st, bv, bool(t["expected"]))
                    out.append((t["t"], st))
                elif k == "switch":
                    x = t["x"]
                    bv = st.boolv.get(x["l"]) if x.get("k") in ("copy", "move") and not x["p"] else None
                    arms = {v: tb for v, tb in t["arms"]}
                    if bv is not None and 0 in arms:
                        s_f = st.copy()
                        s_f.cons += self.cond_constraints(st, bv, False)
                        s_t = st.copy()
                        s_t.cons += self.cond_constraints(st, bv, True)
                        out.append((arms[0], s_f))
                        out.append((t["otherwise"], s_t))
                    else:
                        # switch on an integer value (`match n % 128 { 0 => .., partial => .. }`): arm v
                        # learns x == v; the default arm learns x != v for every listed v (as x <= v-1
                        # or x >= v+1: two states)
                        xl = self.operand_lin(st, x) if x.get("k") in ("copy", "move") else None
                        if xl is not None and not L.lin_is_const(xl):
                            for v, tb in t["arms"]:
                                s_v = st.copy()
                                s_v.cons.append(L.eq(xl, L.lin_const(v)))
                                out.append((tb, s_v))
                            rest = [st.copy()]
                            for v, tb in t["arms"]:
                                nxt = []
                                for s_r in rest:
                                    lo = s_r.copy()
                                    lo.cons.append(L.ge(L.lin_const(v - 1), xl))
                                    hi = s_r.copy()
                                    hi.cons.append(L.ge(xl, L.lin_const(v + 1)))
                                    nxt += [s_ for s_ in (lo, hi) if s_.feasible()]
                                rest = nxt[:8]
                            for s_r in rest:
                                out.append((t["otherwise"], s_r))
                        else:
                            for v, tb in t["arms"]:
                                out.append((tb, st.copy()))
                            out.append((t["otherwise"], st.copy()))
                elif k == "return":
                    exits.append((b, st))
            for tb, st in out:
                if (b, tb) in back:
                    continue
                if fn.blocks[tb]["cleanup"]:
                    continue
                if not st.feasible():
                    continue
                lst = states.setdefault(tb, [])
                if len(lst) < MAX_STATES:
                    lst.append(st)
                else:
                    self.notes.append("state cap reached at bb%d" % tb)
                    # sound fallback: forget constraints of the overflowing state (keeps env)
                    st.cons = []
                    lst[-1] = st
        return exits

    def rpo(self):
        fn = self.fn
        seen, order, back = set(), [], set()
        onstack = set()

        def dfs(b):
            seen.add(b)
            onstack.add(b)
            for s in fn.succ[b]:
                if fn.blocks[s]["cleanup"]:
                    continue
                if s in onstack:
                    back.add((b, s))
                elif s not in seen:
                    dfs(s)
            onstack.discard(b)
            order.append(b)
        import sys
        sys.setrecursionlimit(10000)
        dfs(0)
        return order[::-1], back

    def loop_modifications(self, back):
        """loop head -> tracked fields whose length may change inside the loop body"""
        fn = self.fn
        out = {}
        for (tail, head) in back:
            body = fn.reachable(head) & {b for b in range(fn.n) if tail in fn.reachable(b)} | {tail}
            mods = set()
            for b in body:
                c = fn.call_at(b)
                if c is None:
                    continue
                if c.path in CHANGERS or c.rpath in CHANGERS:
                    for f in self.tracked:
                        if self._call_touches_field(fn, c, f):
                            mods.add(f)
                for a in c.args:
                    if self._is_self_reborrow(a):
                        for f in self.tracked:
                            if not (c.is_local and self.callee_preserves(c, f)):
                                mods.add(f)
            if mods:
                out.setdefault(head, set()).update(mods)
        return out


def entails_int(cons, goal):
    """entailment with integer case splits on quotient variables (q == 0 | q >= 1), at most 3 of them"""
    qs = []
    for lin, rel in cons:
        for v in L.lin_vars(lin):
            if isinstance(v, tuple) and v[0] == "q" and v not in qs:
                qs.append(v)
    qs = qs[:3]
    lins = [goal[0]] + [c[0] for c in cons]

    def rec(i, extra):
        if i == len(qs):
            allc = cons + extra
            return L.entails(allc + L.nonneg_facts(lins), goal)
        q = L.lin_var(qs[i])
        return rec(i + 1, extra + [L.eq(q, L.lin_const(0))]) and rec(i + 1, extra + [L.ge(q, L.lin_const(1))])
    return rec(0, [])
