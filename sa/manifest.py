"""Regenerates /verif/MANIFEST.json from the table below (python3 -m sa.manifest)."""
import json
import os

VERIF = os.path.dirname(os.path.dirname(os.path.abspath(__file__)))

TB_COMMON = ("rustc (nightly 1.97) type checker, borrow checker, MIR construction and Instance::try_resolve; the "
             "semantics table for std/external callees in sa/engines.py; dependency crates behave as documented; "
             "cfg(unix, linux) only. ")

CHECKS = {
    "C01": dict(
        technique="constant-table comparison against the vendored libsodium bindings + sibling framing agreement (MIR offsets) + keystream-order provenance",
        category="other", design="§3 C01",
        text="Decides necessary structural conditions of libsodium compatibility: every size constant equals the value in "
             "libsodium-sys' generated bindings, writer and reader of each wire format use the same offsets, in-place "
             "forms rotate by the same amount, the MAC key is the first keystream block. It does NOT decide byte "
             "equality of ciphertexts (numerical).",
        note="not decided: equality of XSalsa20/Poly1305/X25519/HSalsa20 outputs with libsodium; round-trip values."),
    "C02": dict(
        technique="AUTH path analysis on MIR (Ok exits behind ct_eq success edges, least fixpoint over callees) + provenance coverage of MAC inputs",
        category="other", design="§3 C02",
        text="For every opening function (25 discovered, 21 named public entry points) every Ok exit lies behind the success "
             "edge of a full-width constant-time comparison of a freshly computed Poly1305 tag or behind the Ok edge of "
             "such a callee; every key/nonce/ciphertext/AD/header/epk parameter flows into that comparison; the stream "
             "MAC absorbs AD, tag block, body and both lengths. All paths, all inputs.",
        note="not decided: correctness of the primitives, hence that every flipped bit changes the tag; acceptance of untampered input."),
    "C03": dict(
        technique="CLEAN(state) path analysis + push/pull sibling signature comparison + rekey provenance on MIR",
        category="other", design="§3 C03",
        text="A rejected pull performs no write through the stream state on any path; state evolution happens only after "
             "the MAC success edge; push and pull apply the same post-MAC sequence (xor inonce, increment counter, rekey on "
             "tag&REKEY or counter==0); rekey derives new key/inonce from the keystream under the old ones and resets the counter.",
        note="not decided: equality of ciphertexts and states with libsodium, counter-wrap values."),
    "C04": dict(
        technique="panic-site enumeration over MIR reachable from untrusted-input entry points; each site discharged by a dominating guard (interval/linear entailment over symbolic lengths)",
        category="other", design="§3 C04",
        text="Every panic-capable construct (overflow assert, bounds check, slice index/split/copy, unwrap/expect, resize) "
             "reachable from an untrusted-input entry point inside the open/parse/convert layer is discharged by a "
             "dominating length guard, a callee Ok-postcondition or the documented buffer contract.",
        note="assumed: totality of the primitives below the boundary (Poly1305, BLAKE2b, SHA-512, Argon2 with bounded cost, dalek, ciphers); output buffers obey the documented size contract."),
    "C05": dict(
        technique="FORBID flow (reduced scalar -> variable-base multiplication) + AUTH on the shared-secret check + sibling mirror/provenance on MIR + call-graph reachability of the object-API client/server wrappers",
        category="other", design="§3 C05",
        text="Variable-base X25519 never multiplies by a mod-L-reduced scalar; key exchange returns Ok only behind a branch on "
             "the shared secret whose other edge is Err; client and server pass rx/tx mirrored; the kx hash absorbs shared||client_pk||server_pk; "
             "every public client/server wrapper of the object API reaches the classic session-key function of its own side.",
        note="not decided: numerical X25519 output, commutativity."),
    "C06": dict(
        technique="FORBID flow (signature bytes -> mod-order decoder) + multi-obligation AUTH on verify + provenance of the hash inputs on MIR",
        category="other", design="§3 C06",
        text="Verification decodes S with the canonical-only decoder, rejects small-order R and A, returns Ok only through "
             "the final point equality; hash input order R||A||M; dom2 prefix iff pre-hashed; combined form framing and copy-after-verify.",
        note="not decided: RFC 8032 byte-exactness of signing; libsodium's verdict on exotic point encodings."),
    "C07": dict(
        technique="AUTH path analysis on the six MAC verify functions + same-primitive reachability comparison",
        category="other", design="§3 C07",
        text="Verify clause only: each verify function returns Ok only through a full-width ct_eq against an authenticator "
             "computed over the whole input under the key by the same primitive as the one-shot function.",
        note="NOT decided (main clause of C07): equality of BLAKE2b/SHA-512/HMAC/Poly1305/SipHash/HSalsa20/HChaCha20 with their specifications."),
    "C08": dict(
        technique="FWD forwarding-discipline analysis on MIR (whole-chunk, unconditional, single inner update) + one-shot = init/update/final sequence",
        category="other", design="§3 C08",
        text="Forwarding clause: every incremental wrapper forwards each chunk whole, once, unconditionally to one inner "
             "hasher; one-shot functions are init→update(whole)→final through the same inner functions. For SHA-512, "
             "HMAC-SHA-512-256 and pre-hashed signing this decides the property modulo the sha2 crate.",
        note="not decided: the crate-local buffering arithmetic inside blake2b::State::update/finalize and Poly1305::update/finalize."),
    "C09": dict(
        technique="GUARD dominance of range checks + constant comparison with libsodium bindings + AUTH on PwHash::verify",
        category="other", design="§3 C09",
        text="opslimit/memlimit range guards dominate the Argon2 call; Argon2 parameter guards dominate Ok; constants equal "
             "libsodium's; (t,m) derive from (opslimit, memlimit/1024); object-API verify is authenticated.",
        note="not decided: Argon2 output equality with RFC 9106 / libsodium (memory-filling function, H')."),
    "C10": dict(
        technique="encoder/parser field-provenance agreement + AUTH on verify + GUARD on needs_rehash and parser presence checks",
        category="other", design="§3 C10",
        text="The encoder's output depends on every field the parser fills (incl. algorithm); parser accept-set ⊆ encoder "
             "emit-set; str_verify returns Ok only via ct_eq on the recomputed hash; needs_rehash is false only behind both equal edges.",
        note="not decided: interoperability with libsodium's verifier, base64 correctness."),
    "C11": dict(
        technique="who-may-call on RNG primitives + must-call (cut) analysis per randomised entry point + provenance of RNG-written buffers to outputs and to the Argon2 salt / sealed-box key / stream header",
        category="proof", design="§3 C11",
        text="Structural: the OS generator is the only randomness source; each of the 46 documented randomised entry points "
             "draws from it on every path to a normal return; RNG-written buffers are what leaves the function; salt, "
             "ephemeral key and stream header are RNG-written before use on every path. Every history of calls is covered because the rule is per call.",
        note="trusted: OsRng/getrandom freshness and unpredictability (statistical clause not decidable statically)."),
    "C12": dict(
        technique="GUARD dominance + per-argument provenance of the BLAKE2b init/finalize operands + constants vs libsodium bindings",
        category="other", design="§3 C12",
        text="Length guard 16..=64 dominates Ok; digest-length operand derives from subkey.len(); key←master key, "
             "salt←subkey id (LE), personal←context, output←subkey; KDF constants equal libsodium's.",
        note="not decided: digest bytes."),
    "C14": dict(
        technique="expression-tree provenance of libc mprotect/mlock/munlock/madvise arguments + wrapper/transition/state/type agreement table + drop-order and guard-page offset checks on MIR",
        category="other", design="§3 C14",
        text="Every libc memory call covers exactly (as_ptr(S), len(S)); each transition calls the wrapper whose flag "
             "matches its result type and the recorded mode, updating state only on the Ok edge; drop = unprotect→wipe→unlock; "
             "allocate/deallocate guard-page offsets agree.",
        note="not decided: the kernel's VMA/VmLck state, faults, content preservation (runtime). Windows branch not compiled."),
    "C15": dict(
        technique="single-release-point reachability + must-wipe cut analysis in Allocator::deallocate + impl-table query (no grow/shrink override) + storage type query",
        category="proof", design="§3 C15",
        text="Memory reaches the system allocator only through PageAlignedAllocator::deallocate, which on every path first "
             "zeroes layout.size() bytes (capacity) at the data pointer; grow/shrink are not overridden; all heap containers "
             "store bytes in Vec<u8, PageAlignedAllocator>. Holds for every operation history.",
        note="trusted: zeroize's volatile wipe is not elided; std's default Allocator::grow/shrink; Windows branch not compiled."),
    "C16": dict(
        technique="AUTH(len) on fixed-length decoders (Ok only behind count==LENGTH edges; size_hint forbidden as decision input) + framing offsets sibling check + LEN on slice constructors + dominance of serialize_field over end in struct serializers",
        category="other", design="§3 C16",
        text="to_bytes/from_bytes offsets agree and equal libsodium's layout; every fixed-length decoder reaches Ok only "
             "through an equality between LENGTH and the actual byte/element count; slice constructors size the destination first; "
             "every struct serializer (derived ones included) writes every field on every path.",
        note="not decided: serde-format specifics; equality of decoded objects."),
    "C17": dict(
        technique="CLEAN path analysis on MIR (no write to a caller output followed by an Err exit without whole-buffer zeroing), callee effect summaries bottom-up",
        category="proof", design="§3 C17",
        text="For every classic opening function and every caller-supplied output parameter, no path writes the output and "
             "then returns Err without zeroing it; object-API openers have no output parameters. All corrupted inputs, all lengths.",
        note="trusted: effect table for external callees; zeroize/fill(0) erase."),
    "C18": dict(
        technique="sibling signature comparison of the two BLAKE2b backends across feature configurations + accessor-purity scan of container impls",
        category="other", design="§3 C18",
        text="The soft and SIMD BLAKE2b backends agree on guards, constants and buffering decisions outside compress; "
             "container accessor impls are pure projections of their storage.",
        note="not decided: equivalence of the two compression functions; sha2 asm backend; curve backends."),
    "C19": dict(
        technique="context-sensitive call-graph reachability from Result-returning protected-memory constructors/transitions to io::Error expect/unwrap/panic sinks",
        category="proof", design="§3 C19",
        text="No Result-returning constructor/transition of protected memory (34 entries incl. serde deserializers of locked "
             "types) reaches a panic whose condition is a refused lock/protect. All fault points are covered because the rule is about reachability, not about which call is refused.",
        note="not decided: validity of earlier regions and drop-time cleanup after a refusal (runtime)."),
    "C20": dict(
        technique="compile-fail witnesses generated from the type-state table (rustc verdict per misuse cell, permitted twin must compile) + impl-table query on Protected byte-view impls",
        category="proof", design="§3 C20",
        text="One generated misuse program per cell of the type-state table is rejected by rustc with an error on the "
             "offending line, and its permitted twin compiles; every impl handing out a byte view of Protected has a concrete allowed mode.",
        note="not decided: that permitted programs run without faulting (runtime)."),
}

NOT_APPLICABLE = {
    "C13": "Every clause is an equality of function values with libsodium's construction (SHA-512/BLAKE2b of the seed, "
           "base-point multiple, Edwards->Montgomery map, consistency of the converted pair); the only structural residue "
           "restates five-line function bodies and would fire on behaviour-preserving rewrites. Static analysis cannot decide it (DESIGN.md §4).",
}


def build(done):
    checks = []
    for pid in sorted(CHECKS):
        if pid not in done:
            continue
        c = CHECKS[pid]
        checks.append({
            "property_id": pid,
            "quick_cmd": "./check %s --tier quick" % pid,
            "thorough_cmd": "./check %s --tier thorough" % pid,
            "evidence_file": "/verif/evidence/%s.json" % pid,
            "replay_cmd_template": "./check %s --replay {path}" % pid,
            "engine": "sa",
            "technique": c["technique"],
            "level_claimed": {"category": c["category"], "text": c["text"], "design_ref": c["design"]},
            "level_note": TB_COMMON + c["note"],
        })
    na = [{"property_id": k, "reason": v} for k, v in sorted(NOT_APPLICABLE.items())]
    for pid in sorted(CHECKS):
        if pid not in done:
            na.append({"property_id": pid, "reason": "check not built yet in this revision of /verif (planned: %s)" % CHECKS[pid]["technique"][:120]})
    fixes = []
    try:
        import subprocess
        out = subprocess.run(["git", "-C", "/repo", "log", "--format=%h %s"], capture_output=True, text=True).stdout
        fixes = [l.split()[0] for l in out.splitlines() if " fix:" in " " + l]
    except Exception:
        pass
    return {
        "version": 1,
        "setup_cmd": "./setup.sh",
        "hooks": {
            "guard": "none",
            "enable": "no source hooks: the checks analyse /repo's MIR with an external rustc driver (RUSTC_WORKSPACE_WRAPPER); nothing is compiled into dryoc",
            "baseline_off_cmd": "cd /repo && cargo test --workspace --no-fail-fast --offline",
            "source_commits": fixes[::-1],
            "add_only": True,
        },
        "engines": [
            {"name": "driver", "path": "/verif/driver", "serves_properties": sorted(done),
             "kind_free_text": "rustc_private fact extractor: MIR bodies with resolved callees, promoted constants, impl table, const items, ADTs as JSON per feature configuration"},
            {"name": "sa", "path": "/verif/sa", "serves_properties": sorted(done),
             "kind_free_text": "Python static-analysis core (CFG, dominators, dependency slices, expression trees with abstract evaluation, bound-aware and context-sensitive call graph) and rule modules sa/rules/cXX.py"},
            {"name": "controls", "path": "/verif/controls", "serves_properties": sorted(done),
             "kind_free_text": "seeded one-line breaks applied to a scratch copy; each must make its rule fire (thorough tier)"},
        ],
        "checks": checks,
        "not_applicable": na,
        "notes": "Technique family: static analysis only. `source_commits` are unguarded `fix:` commits repairing genuine defects (see known_findings.txt); there are no instrumentation hooks.",
    }


def main():
    done = set()
    rules = os.path.join(VERIF, "sa", "rules")
    for f in os.listdir(rules):
        if f.startswith("c") and f.endswith(".py") and f[1:3].isdigit():
            done.add(f[:3].upper())
    m = build(done)
    with open(os.path.join(VERIF, "MANIFEST.json"), "w") as fh:
        json.dump(m, fh, indent=1)
    print("MANIFEST.json: %d checks, %d not_applicable" % (len(m["checks"]), len(m["not_applicable"])))


if __name__ == "__main__":
    main()
