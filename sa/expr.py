"""Symbolic expression trees over MIR (single-definition temporaries are inlined) and a small
abstract evaluator used to decide which outgoing edge of a `switchInt` is taken when an *atom*
(the result of a call, typically) has a given abstract value ('Ok'/'Err', 'Some'/'None', True/False,
an integer).  This is how the rules recognise `?`, `match`, `if let`, `is_ok()`, `is_err()`,
`ct_eq(..).unwrap_u8() == 1`, `!= 0`, `bool::from(..)`, `.into()` ... without matching any of them
textually: an edge is a *success edge* of an atom iff it is taken when the atom is set to its
success value and not taken when it is set to the failure value.
"""
from .core import def_sites, Call

MAXD = 24


class E:
    """expression node: kind + fields"""
    __slots__ = ("k", "a", "b", "c")

    def __init__(self, k, a=None, b=None, c=None):
        self.k = k
        self.a = a
        self.b = b
        self.c = c

    def __repr__(self):
        if self.k == "const":
            return "const(%r)" % (self.a,)
        if self.k == "call":
            return "call(%s @bb%d)" % (self.a.full[:60], self.a.bb)
        if self.k == "local":
            return "_%d" % self.a
        if self.k == "binop":
            return "(%r %s %r)" % (self.b, self.a, self.c)
        if self.k == "unop":
            return "%s(%r)" % (self.a, self.b)
        if self.k == "discr":
            return "discr(%r)" % (self.a,)
        if self.k == "field":
            return "%r.%s" % (self.a, self.b)
        if self.k == "agg":
            return "agg(%s::%s)" % (self.a, self.b)
        if self.k == "cast":
            return "cast(%r)" % (self.a,)
        return "E(%s)" % self.k


def expr_of_operand(fn, o, depth=0, seen=None, at=None):
    """Expression tree of an operand.  `at` = (block, statement index) makes the construction
    position-aware: a local with several definitions (a mutable accumulator, `c += x`) is resolved to
    the definition that reaches that program point, when it is unique."""
    if o.get("k") == "const":
        if o.get("promoted") and "promoted_idx" in o and depth < MAXD:
            pf = fn.promoted(o["promoted_idx"])
            if pf is not None:
                return expr_of_local(pf, 0, depth + 1, None)
        if "v" in o:
            if o.get("ty") == "bool" and o["v"] in (0, 1):
                return E("const", bool(o["v"]), o.get("name"))
            return E("const", o["v"], o.get("name"))
        if "fn" in o:
            return E("fnitem", o["fn"], o.get("fn_key"))
        return E("const", None, o.get("name") or o.get("tyconst"), o.get("txt") or o.get("tyconst"))
    if o.get("k") in ("copy", "move"):
        return expr_of_place(fn, o, depth, seen, at)
    return E("unknown")


def _variant_payloads(fn, l, variant, fidx, depth=0):
    """operands stored as field `fidx` of variant `variant` by the definitions of local l (moves of
    whole locals are followed); None if some definition cannot be classified"""
    if depth > 6:
        return None
    out = []
    for d in def_sites(fn, l):
        if d[1] != "assign":
            return None
        rv = d[2]["rv"]
        if rv["k"] == "agg":
            if rv.get("variant") == variant and fidx < len(rv["ops"]):
                out.append(rv["ops"][fidx])
            elif rv.get("variant") is None:
                return None
        elif rv["k"] == "use" and rv["x"].get("k") in ("copy", "move") and not rv["x"]["p"]:
            sub = _variant_payloads(fn, rv["x"]["l"], variant, fidx, depth + 1)
            if sub is None:
                return None
            out += sub
        else:
            return None
    return out


def expr_of_place(fn, p, depth=0, seen=None, at=None):
    base = expr_of_local(fn, p["l"], depth, seen, at)
    cur = base
    variant = None
    for pe in p["p"]:
        if pe == "deref":
            continue
        if isinstance(pe, dict):
            if "variant" in pe:
                variant = pe["variant"]
                continue
            if "f" in pe:
                nm = pe["n"]
                if variant is not None and cur.k == "agg" and cur.b == variant and cur.c and pe["f"] < len(cur.c):
                    cur = cur.c[pe["f"]]        # payload of a variant literal
                    variant = None
                    continue
                if variant is not None:
                    # payload of a variant of a value built in this body: if exactly one definition of
                    # the local constructs that variant, the payload is that definition's operand
                    if cur.k == "local" and cur.b is fn and depth < MAXD:
                        cands = _variant_payloads(fn, cur.a, variant, pe["f"])
                        if cands is not None and len(cands) == 1:
                            cur = expr_of_operand(fn, cands[0], depth + 1, seen, at)
                            variant = None
                            continue
                    # `x?`: the Continue payload of Try::branch(x) is the Ok/Some payload of x
                    if variant == "Continue" and cur.k == "call" and cur.a.path == "std::ops::Try::branch" and cur.a.args and depth < MAXD:
                        a0 = cur.a.args[0]
                        if a0.get("k") in ("copy", "move"):
                            ty0 = cur.a.fn.locals[a0["l"]].get("path", "")
                            v0 = "Ok" if ty0.endswith("Result") else "Some" if ty0.endswith("Option") else None
                            if v0 is not None:
                                inner = expr_of_place(cur.a.fn, {"l": a0["l"], "p": list(a0["p"]) + [{"variant": v0, "vi": 0 if v0 == "Ok" else 1}, {"f": pe["f"], "n": pe["n"]}]},
                                                      depth + 1, seen, at)
                                if not (inner.k == "field" and inner.b == "%s.%s" % (v0, pe["n"])):     # resolved to the stored operand
                                    cur = inner
                                    variant = None
                                    continue
                    nm = "%s.%s" % (variant, nm)
                    variant = None
                # field i of a tuple literal built in this body: the i-th operand
                if cur.k == "agg" and cur.a == "tuple" and cur.c and nm.isdigit() and int(nm) < len(cur.c):
                    cur = cur.c[int(nm)]
                    continue
                # field i of a struct literal built in this body (`Framed { mac, body }.mac`): the i-th operand
                if variant is None and cur.k == "agg" and cur.a not in ("tuple", "closure", "array") and cur.c is not None \
                        and "f" in pe and pe["f"] < len(cur.c) and len(ADTS.get(cur.a, {}).get("variants", [0])) == 1:
                    cur = cur.c[pe["f"]]
                    continue
                # captured variable i of a closure literal of this body (the receiver of a folded-in closure)
                if cur.k == "agg" and cur.a == "closure" and cur.c is not None and "f" in pe and pe["f"] < len(cur.c):
                    cur = cur.c[pe["f"]]
                    continue
                cur = E("field", cur, nm)
                continue
            if "idx" in pe:
                cur = E("index", cur, expr_of_local(fn, pe["idx"], depth + 1, seen, at))
                continue
            if "cidx" in pe:
                cur = E("index", cur, E("const", pe["cidx"]))
                continue
        cur = E("proj", cur, pe)
    return cur


def _def_pos(fn, d):
    b, kind, payload = d
    if kind == "call":
        return (b, 10 ** 6)
    for i, st in enumerate(fn.blocks[b]["s"]):
        if st is payload:
            return (b, i)
    return (b, 0)


def reaching_def(fn, l, at):
    """the unique definition of local l that reaches the program point `at` = (block, stmt index),
    or None: the last definition earlier in the same block, else the nearest dominating definition
    provided no other definition can execute between it and the use"""
    bb, idx = at
    ds = def_sites(fn, l)
    same = [d for d in ds if d[0] == bb and _def_pos(fn, d)[1] < idx]
    if same:
        return max(same, key=lambda d: _def_pos(fn, d)[1])
    doms = [d for d in ds if d[0] != bb and d[0] in fn.dom.get(bb, ())]
    if not doms:
        return None
    D = max(doms, key=lambda d: (len(fn.dom.get(d[0], ())), _def_pos(fn, d)[1]))
    for X in ds:
        if X is D:
            continue
        if X[0] == D[0]:
            if _def_pos(fn, X)[1] > _def_pos(fn, D)[1]:
                return None
            continue
        if X[0] == bb:
            # a definition later in the using block reaches the use only around a loop
            if bb in fn._plain_reach_after(bb):
                return None
            continue
        if X[0] in fn._plain_reach_after(D[0], cut={D[0]}) and bb in fn._plain_reach(X[0], cut={D[0]}):
            return None
    return D


def expr_of_local(fn, l, depth=0, seen=None, at=None):
    if seen is None:
        seen = frozenset()
    if depth > MAXD or (l in seen and at is None) or ((l, at) in seen):
        return E("local", l, fn)
    if 1 <= l <= fn.argc:
        return E("local", l, fn)
    ds = def_sites(fn, l)
    if len(ds) > 1:
        # definitions in blocks that cannot execute (arms of a switch on a constant, e.g. after a helper
        # was folded in with a literal argument) do not count
        live = fn.live_blocks
        ds = [d for d in ds if d[0] in live]
    if len(ds) != 1:
        if at is not None and len(ds) > 1:
            rd = reaching_def(fn, l, at)
            if rd is not None:
                return expr_of_def(fn, l, rd[1], rd[2], depth, seen | {(l, at)}, _def_pos(fn, rd))
        return E("local", l, fn)
    b, kind, payload = ds[0]
    return expr_of_def(fn, l, kind, payload, depth, seen, _def_pos(fn, ds[0]) if at is not None else None)


def expr_of_def(fn, l, kind, payload, depth=0, seen=None, at=None):
    """expression of one particular definition (assignment or call) of local l; `at` = its own
    position when the construction is position-aware"""
    seen = (seen or frozenset()) | ({l} if at is None else set())
    if kind == "call":
        return E("call", payload)
    rv = payload["rv"]
    k = rv["k"]
    if k == "use":
        return expr_of_operand(fn, rv["x"], depth + 1, seen, at)
    if k in ("ref", "rawptr"):
        return expr_of_place(fn, rv["place"], depth + 1, seen, at)
    if k == "cast":
        inner = expr_of_operand(fn, rv["x"], depth + 1, seen, at)
        if rv["kind"].startswith("PointerCoercion") or rv["kind"] in ("PtrToPtr",):
            return inner
        return E("cast", inner, rv["ty"], rv["kind"])
    if k == "binop":
        return E("binop", rv["op"], expr_of_operand(fn, rv["l"], depth + 1, seen, at),
                 expr_of_operand(fn, rv["r"], depth + 1, seen, at))
    if k == "unop":
        return E("unop", rv["op"], expr_of_operand(fn, rv["x"], depth + 1, seen, at))
    if k == "discr":
        return E("discr", expr_of_place(fn, rv["place"], depth + 1, seen, at))
    if k == "agg":
        ops = [expr_of_operand(fn, o, depth + 1, seen, at) for o in rv["ops"]]
        if rv.get("agg") == "adt":
            return E("agg", rv["path"], rv["variant"], ops)
        return E("agg", rv.get("agg"), None, ops)
    if k == "repeat":
        return E("repeat", expr_of_operand(fn, rv["x"], depth + 1, seen, at), rv["n"])
    return E("unknown")


def call_arg_exprs(call):
    return [expr_of_operand(call.fn, a, 1) for a in call.args]


def atoms_of(e, out=None, depth=0):
    """All call atoms appearing in the expression (through call arguments too)."""
    if out is None:
        out = []
    if depth > MAXD or e is None:
        return out
    if e.k == "call":
        out.append(e.a)
        for a in call_arg_exprs(e.a):
            atoms_of(a, out, depth + 1)
    elif e.k in ("binop",):
        atoms_of(e.b, out, depth + 1)
        atoms_of(e.c, out, depth + 1)
    elif e.k in ("unop",):
        atoms_of(e.b, out, depth + 1)
    elif e.k in ("discr", "field", "cast", "index", "proj", "repeat"):
        atoms_of(e.a, out, depth + 1)
        if e.k == "index" and isinstance(e.b, E):
            atoms_of(e.b, out, depth + 1)
    elif e.k == "agg":
        for o in e.c or ():
            atoms_of(o, out, depth + 1)
    return out


# ---- abstract evaluation -----------------------------------------------------------------------

UNK = None
ADTS = {}     # crate ADT table of the program being analysed (set by core.Program)


class V:
    """abstract values: ('res', 'Ok'|'Err', payload) / ('opt','Some'|'None', payload) / int / bool
    / ('choice', bool)"""


def _is(v, tag):
    return isinstance(v, tuple) and v[0] == tag


DISCR = {"Ok": 0, "Err": 1, "None": 0, "Some": 1, "Continue": 0, "Break": 1}


def evaluate(e, env, depth=0):
    """env: {id(call.f) or (fnkey,bb): abstract value}.  Returns abstract value or None."""
    if e is None or depth > 40:
        return UNK
    k = e.k
    if k == "const":
        return e.a
    if k == "local":
        # a local with several definitions: evaluated under the definition chosen by the caller
        # (eval_alternatives enumerates the choices); parameters and unchosen locals are unknown
        phi = env.get("__phi__")
        fn_ = e.b
        if phi is not None and fn_ is not None and e.a > fn_.argc:
            ds = def_sites(fn_, e.a)
            if 2 <= len(ds) <= 4:
                pk = (fn_.key, e.a)
                phi["seen"][pk] = len(ds)
                ch = phi["choice"].get(pk)
                if ch is not None and ch < len(ds) and depth < 30:
                    return evaluate(expr_of_def(fn_, e.a, ds[ch][1], ds[ch][2]), env, depth + 1)
        return UNK
    if k == "call":
        c = e.a
        key = (c.fn.key, c.bb)
        if key in env:
            return env[key]
        return eval_call(c, env, depth)
    if k == "binop":
        l = evaluate(e.b, env, depth + 1)
        r = evaluate(e.c, env, depth + 1)
        if isinstance(l, bool):
            l = int(l)
        if isinstance(r, bool):
            r = int(r)
        op = e.a
        if isinstance(l, int) and isinstance(r, int):
            if op == "Eq":
                return l == r
            if op == "Ne":
                return l != r
            if op == "Lt":
                return l < r
            if op == "Le":
                return l <= r
            if op == "Gt":
                return l > r
            if op == "Ge":
                return l >= r
            if op == "BitAnd":
                return l & r
            if op == "BitOr":
                return l | r
            if op == "BitXor":
                return l ^ r
            base = op.replace("WithOverflow", "").replace("Unchecked", "")
            val = None
            if base == "Add":
                val = l + r
            elif base == "Sub":
                val = l - r
            elif base == "Mul":
                val = l * r
            elif base == "Div" and r != 0:
                val = l // r
            elif base == "Rem" and r != 0:
                val = l % r
            elif base == "Shl":
                val = l << r
            elif base == "Shr":
                val = l >> r
            if val is not None:
                if op.endswith("WithOverflow"):
                    return ("ovf", val)
                return val
        return UNK
    if k == "unop":
        x = evaluate(e.b, env, depth + 1)
        if e.a == "Not":
            if isinstance(x, bool):
                return not x
            return UNK
        return UNK
    if k == "cast":
        x = evaluate(e.a, env, depth + 1)
        if isinstance(x, bool):
            return int(x)
        if isinstance(x, int):
            return x
        return UNK
    if k == "discr":
        x = evaluate(e.a, env, depth + 1)
        if isinstance(x, tuple) and x[0] in ("res", "opt", "cf"):
            return DISCR[x[1]]
        if isinstance(x, tuple) and x[0] == "enum":
            return x[2]
        return UNK
    if k == "agg":
        # the payload of a one-field variant is tracked when it has an abstract value of its own
        # (a nested Result/Option/bool/int), so that `Ok(opt)?` followed by a match on `opt` is decided
        pay = None
        if e.c and len(e.c) == 1 and depth < 30:
            pay = evaluate(e.c[0], env, depth + 1)
            try:
                hash(pay)
            except TypeError:
                pay = None
        if e.a == "std::result::Result":
            return ("res", e.b, pay)
        if e.a == "std::option::Option":
            return ("opt", e.b, pay)
        if e.a == "std::ops::ControlFlow":
            return ("cf", e.b, pay)
        # a variant of a crate-local field-less enum: its discriminant is its declaration index
        adt = ADTS.get(e.a) if isinstance(e.a, str) else None
        if adt is not None and e.b is not None and not e.c:
            names = [v["name"] for v in adt["variants"]]
            if e.b in names and len(names) > 1 and all(not v["fields"] for v in adt["variants"]):
                return ("enum", e.a, names.index(e.b))
        return UNK
    if k == "field":
        # payloads are not tracked, except tuple field .0 of an overflow pair
        x = evaluate(e.a, env, depth + 1)
        if isinstance(x, tuple) and x[0] == "ovf" and e.b in ("0",):
            return x[1]
        if isinstance(x, tuple) and x[0] in ("opt", "res", "cf") and len(x) > 2 and x[2] is not None and e.b == x[1] + ".0":
            return x[2]
        return UNK
    return UNK


def eval_call(c, env, depth):
    p = c.path
    args = None

    def arg(i):
        nonlocal args
        if args is None:
            args = call_arg_exprs(c)
        if i < len(args):
            return evaluate(args[i], env, depth + 1)
        return UNK

    if p.startswith("core::num::<impl ") and p.endswith(("::checked_sub", "::checked_add")):
        x, y = arg(0), arg(1)
        if isinstance(x, int) and isinstance(y, int) and not isinstance(x, bool) and not isinstance(y, bool):
            v = x - y if p.endswith("sub") else x + y
            if v < 0 and "impl u" in p:
                return ("opt", "None", None)
            return ("opt", "Some", v)
        return UNK
    if (p in ("core::slice::<impl [T]>::len", "std::vec::Vec::<T, A>::len") or (c.name == "len" and len(c.args) == 1)) and any(
            isinstance(k_, tuple) and k_ and k_[0] == "lenof" for k_ in env):
        # lengths of (views of) slices whose length the caller fixed in env[("lenof", fnkey, local)]
        if args is None:
            args = call_arg_exprs(c)
        return len_value(args[0], env, depth + 1) if args else UNK
    if p == "std::ops::Try::branch":
        x = arg(0)
        if _is(x, "res"):
            return ("cf", "Continue" if x[1] == "Ok" else "Break", x[2] if len(x) > 2 and x[1] == "Ok" else None)
        if _is(x, "opt"):
            return ("cf", "Continue" if x[1] == "Some" else "Break", x[2] if len(x) > 2 and x[1] == "Some" else None)
        return UNK
    if p == "std::ops::FromResidual::from_residual":
        ty = c.fn.locals[c.dest["l"]]
        if ty.get("path") == "std::result::Result":
            return ("res", "Err", None)
        if ty.get("path") == "std::option::Option":
            return ("opt", "None", None)
        return UNK
    if p in ("std::result::Result::<T, E>::map_err", "std::result::Result::<T, E>::map",
             "std::result::Result::<T, E>::or", "std::result::Result::<T, E>::inspect_err"):
        x = arg(0)
        if _is(x, "res"):
            if p.endswith("::or") and x[1] == "Err":
                return UNK
            return ("res", x[1], None)
        return UNK
    if p == "std::result::Result::<T, E>::and_then" or p == "std::result::Result::<T, E>::and":
        x = arg(0)
        if _is(x, "res") and x[1] == "Err":
            return ("res", "Err", None)
        return UNK
    if p == "std::result::Result::<T, E>::ok":
        x = arg(0)
        if _is(x, "res"):
            return ("opt", "Some" if x[1] == "Ok" else "None", None)
        return UNK
    if p == "std::result::Result::<T, E>::err":
        x = arg(0)
        if _is(x, "res"):
            return ("opt", "None" if x[1] == "Ok" else "Some", None)
        return UNK
    if p == "std::result::Result::<T, E>::is_ok":
        x = arg(0)
        if _is(x, "res"):
            return x[1] == "Ok"
        return UNK
    if p == "std::result::Result::<T, E>::is_err":
        x = arg(0)
        if _is(x, "res"):
            return x[1] == "Err"
        return UNK
    if p in ("std::option::Option::<T>::is_some",):
        x = arg(0)
        if _is(x, "opt"):
            return x[1] == "Some"
        return UNK
    if p in ("std::option::Option::<T>::is_none",):
        x = arg(0)
        if _is(x, "opt"):
            return x[1] == "None"
        return UNK
    if p in ("std::option::Option::<T>::ok_or_else", "std::option::Option::<T>::ok_or"):
        x = arg(0)
        if _is(x, "opt"):
            return ("res", "Ok" if x[1] == "Some" else "Err", None)
        return UNK
    if p in ("std::option::Option::<T>::map", "std::option::Option::<T>::as_ref",
             "std::option::Option::<T>::as_mut", "std::option::Option::<T>::copied",
             "std::option::Option::<T>::cloned", "std::option::Option::<&T>::copied",
             "std::option::Option::<&T>::cloned"):
        x = arg(0)
        if _is(x, "opt"):
            return ("opt", x[1], None)
        return UNK
    if p in ("std::result::Result::<T, E>::as_ref", "std::result::Result::<T, E>::as_mut"):
        x = arg(0)
        if _is(x, "res"):
            return ("res", x[1], None)
        return UNK
    if p == "subtle::Choice::unwrap_u8":
        x = arg(0)
        if _is(x, "choice"):
            return 1 if x[1] else 0
        return UNK
    if p in ("std::convert::From::from", "std::convert::Into::into"):
        x = arg(0)
        if _is(x, "ctopt"):
            dty = c.fn.locals[c.dest["l"]]
            if dty.get("path") == "std::option::Option":
                return ("opt", "Some" if x[1] else "None", None)
            return UNK
        if _is(x, "choice"):
            dty = c.fn.locals[c.dest["l"]]["t"]
            if dty == "bool":
                return bool(x[1])
            return UNK
        return UNK
    if p == "std::ops::Not::not":
        x = arg(0)
        if _is(x, "choice"):
            return ("choice", not x[1])
        if isinstance(x, bool):
            return not x
        return UNK
    if p in ("std::ops::BitAnd::bitand",):
        x, y = arg(0), arg(1)
        if _is(x, "choice") and not x[1]:
            return ("choice", False)
        if _is(y, "choice") and not y[1]:
            return ("choice", False)
        if _is(x, "choice") and _is(y, "choice"):
            return ("choice", x[1] and y[1])
        return UNK
    if p in ("subtle::CtOption::<T>::is_some",):
        x = arg(0)
        if _is(x, "ctopt"):
            return ("choice", bool(x[1]))
        return UNK
    if p in ("subtle::CtOption::<T>::is_none",):
        x = arg(0)
        if _is(x, "ctopt"):
            return ("choice", not x[1])
        return UNK
    if p in ("subtle::CtOption::<T>::into_option",):
        x = arg(0)
        if _is(x, "ctopt"):
            return ("opt", "Some" if x[1] else "None", None)
        return UNK
    if p == "std::hint::must_use" or p == "std::convert::identity":
        return arg(0)
    return UNK


def eval_alternatives(e, env, cap=16):
    """Set of values e may take when every multi-definition local met during evaluation is bound to
    any one of its definitions (independently of the atom values in env: an over-approximation of the
    values on real paths).  Contains UNK if some alternative cannot be evaluated."""
    import itertools
    phi = {"seen": {}, "choice": {}}
    env2 = dict(env)
    env2["__phi__"] = phi
    evaluate(e, env2)
    # discover transitively: choosing a definition may expose further multi-def locals
    for _ in range(3):
        keys = sorted(phi["seen"])
        n = 1
        for k_ in keys:
            n *= phi["seen"][k_]
        if not keys:
            return {evaluate(e, env)}
        if n > cap:
            return {UNK}
        before = dict(phi["seen"])
        vals = set()
        for combo in itertools.product(*[range(phi["seen"][k_]) for k_ in keys]):
            phi["choice"] = dict(zip(keys, combo))
            v = evaluate(e, env2)
            try:
                hash(v)
            except TypeError:
                v = UNK
            vals.add(v)
        if phi["seen"] == before:
            return vals
    return {UNK}


def edges_for_sets(fn, b, atom_call, val_a, val_b):
    """For switch block b: (targets possible when atom=val_a, targets possible when atom=val_b), or
    None when some alternative cannot be evaluated."""
    t = fn.blocks[b]["t"]
    if t["k"] != "switch":
        return None
    e = expr_of_operand(fn, t["x"])
    key = (atom_call.fn.key, atom_call.bb)
    sa_ = eval_alternatives(e, {key: val_a})
    sb_ = eval_alternatives(e, {key: val_b})
    if UNK in sa_ or UNK in sb_:
        return None
    ta = {switch_target(t, v) for v in sa_}
    tb = {switch_target(t, v) for v in sb_}
    if None in ta or None in tb:
        return None
    return ta, tb


def edges_for(fn, b, atom_call, val_a, val_b):
    """For switch block b: the target taken when atom=val_a but not when atom=val_b (and vice versa).
    Returns (target_a_only, target_b_only) or None if the switch does not depend decisively on
    the atom."""
    r = edges_for_sets(fn, b, atom_call, val_a, val_b)
    if r is None:
        return None
    ta, tb = r
    if len(ta) != 1 or len(tb) != 1 or ta == tb:
        return None
    return list(ta)[0], list(tb)[0]


def switch_target(t, v):
    if isinstance(v, bool):
        v = int(v)
    if not isinstance(v, int):
        return None
    for val, tb in t["arms"]:
        if val == v:
            return tb
    return t["otherwise"]


def decisive_edges(fn, atom_call, val_good, val_bad):
    """All (switch_bb -> target) edges that can be taken when the atom has val_good and cannot be
    taken when it has val_bad, and vice versa.  A switch on a value with several definitions (a
    `let r = match ..` merge, or the return place of an inlined helper) is decided per definition:
    an edge is good if no definition can send control there while the atom is bad."""
    good, bad = [], []
    for b in range(fn.n):
        if fn.blocks[b]["t"]["k"] != "switch":
            continue
        r = edges_for_sets(fn, b, atom_call, val_good, val_bad)
        if r:
            ta, tb = r
            if ta == tb:
                continue
            for tgt in sorted(ta - tb):
                good.append((b, tgt))
            for tgt in sorted(tb - ta):
                bad.append((b, tgt))
    return good, bad


def result_kind_of_ret(fn):
    """Classify every definition of the return place `_0` of a Result-returning function:
    list of (bb, kind, expr) with kind in {'ok','err','expr'}.  A definition that merely moves
    another whole local that has several definitions (`_0 = move r` after `let r = match .. {..}`,
    or the return place of an inlined helper) is classified at each of those definitions."""
    out = []

    def visit(local, seen):
        for b, kind, payload in def_sites(fn, local):
            if kind == "call":
                c = payload
                if c.path == "std::ops::FromResidual::from_residual":
                    out.append((b, "err", E("call", c)))
                else:
                    out.append((b, "expr", E("call", c)))
            else:
                rv = payload["rv"]
                if rv["k"] == "agg" and rv.get("path") == "std::result::Result":
                    out.append((b, "ok" if rv["variant"] == "Ok" else "err", E("agg", rv["path"], rv["variant"], None)))
                elif rv["k"] == "agg" and rv.get("path") == "std::option::Option":
                    out.append((b, "ok" if rv["variant"] == "Some" else "err", E("agg", rv["path"], rv["variant"], None)))
                elif rv["k"] == "use":
                    x = rv["x"]
                    xd = def_sites(fn, x["l"]) if x.get("k") in ("copy", "move") and not x["p"] else []
                    # a chain of whole-local moves (`let r = ..; helper(r)` with the helper folded in) that ends in
                    # a local with several definitions
                    chain_move = False
                    cur_, hops_ = xd, 0
                    while len(cur_) == 1 and cur_[0][1] == "assign" and cur_[0][2]["rv"]["k"] == "use" and hops_ < 8 and \
                            cur_[0][2]["rv"]["x"].get("k") in ("copy", "move") and not cur_[0][2]["rv"]["x"]["p"]:
                        nxt_ = def_sites(fn, cur_[0][2]["rv"]["x"]["l"])
                        if len(nxt_) > 1:
                            chain_move = True
                            break
                        cur_, hops_ = nxt_, hops_ + 1
                    if x.get("k") in ("copy", "move") and not x["p"] and x["l"] not in seen and x["l"] > fn.argc and len(seen) < 10 \
                            and (len(xd) > 1 or chain_move):
                        visit(x["l"], seen | {x["l"]})
                    else:
                        out.append((b, "expr", expr_of_operand(fn, x, 1)))
                else:
                    out.append((b, "expr", E("unknown")))
    visit(0, frozenset([0]))
    return out


def deep_repr(e, depth=0):
    """Textual form of an expression with call arguments expanded (bounded depth)."""
    if e is None:
        return "?"
    if depth > 8:
        return "..."
    if e.k == "call":
        return "%s(%s)" % (e.a.rpath.split("::")[-1], ", ".join(deep_repr(a, depth + 1) for a in call_arg_exprs(e.a)))
    if e.k == "binop":
        return "(%s %s %s)" % (deep_repr(e.b, depth + 1), e.a, deep_repr(e.c, depth + 1))
    if e.k == "unop":
        return "%s(%s)" % (e.a, deep_repr(e.b, depth + 1))
    if e.k in ("cast", "discr", "repeat"):
        return "%s(%s)" % (e.k, deep_repr(e.a, depth + 1))
    if e.k == "field":
        return "%s.%s" % (deep_repr(e.a, depth + 1), e.b)
    if e.k == "index":
        return "%s[%s]" % (deep_repr(e.a, depth + 1), deep_repr(e.b, depth + 1) if isinstance(e.b, E) else "?")
    if e.k == "agg":
        return "%s::%s{%s}" % (e.a, e.b, ", ".join(deep_repr(o, depth + 1) for o in (e.c or [])))
    return repr(e)


INT_BITS = {"u8": 8, "u16": 16, "u32": 32, "u64": 64, "u128": 128, "usize": 64,
            "i8": 7, "i16": 15, "i32": 31, "i64": 63, "i128": 127, "isize": 63, "bool": 1}


def int_bits_of_expr(fn, e):
    """upper bound on the number of value bits of an integer expression (by its static type where it
    is visible), or None"""
    if e is None:
        return None
    if e.k == "const":
        v = e.a
        if isinstance(v, bool):
            return 1
        if isinstance(v, int) and v >= 0:
            return max(1, v.bit_length())
        return None
    if e.k == "cast":
        return INT_BITS.get(str(e.b))
    if e.k == "local":
        f_ = e.b or fn
        try:
            return INT_BITS.get(f_.locals[e.a]["t"])
        except Exception:
            return None
    if e.k == "call":
        c = e.a
        if c.name == "len":
            return 63
        try:
            return INT_BITS.get(c.fn.locals[c.dest["l"]]["t"])
        except Exception:
            return None
    return None


def cast_is_narrowing(fn, e):
    """e is an integer cast that may change the value (target has fewer value bits than the source
    may need)"""
    if e.k != "cast":
        return False
    tb = INT_BITS.get(str(e.b))
    if tb is None:
        return False
    v = evaluate(e.a, {})
    if isinstance(v, int) and not isinstance(v, bool):
        return not (0 <= v < (1 << tb))
    sb = int_bits_of_expr(fn, e.a)
    if sb is None:
        sb = 64
    return sb > tb


def ok_capable_combos(fn, e, cap=24):
    """For a returned expression that is a pure function of locals with several definitions (e.g.
    `cond.then(..).ok_or_else(err)` after expansion: `ok_or_else(opt)` with opt defined as Some(..) in
    one arm and None in the other): the combinations of definitions under which the value can be Ok.
    Returns a list of lists of definition blocks (one list per Ok-capable combination); [[]] if the
    expression does not depend on such locals or cannot be evaluated (no extra knowledge)."""
    import itertools
    phi = {"seen": {}, "choice": {}}
    evaluate(e, {"__phi__": phi})
    keys = []
    for _ in range(3):
        keys = sorted(phi["seen"])
        if not keys:
            return [[]]
        n = 1
        for k in keys:
            n *= phi["seen"][k]
        if n > cap or any(k[0] != fn.key for k in keys):
            return [[]]
        before = dict(phi["seen"])
        for combo in itertools.product(*[range(phi["seen"][k]) for k in keys]):
            phi["choice"] = dict(zip(keys, combo))
            evaluate(e, {"__phi__": phi})
        if phi["seen"] == before:
            break
    out = []
    for combo in itertools.product(*[range(phi["seen"][k]) for k in keys]):
        v = evaluate(e, {"__phi__": {"seen": {}, "choice": dict(zip(keys, combo))}})
        if isinstance(v, tuple) and v[0] == "res" and v[1] == "Err":
            continue
        if v is UNK:
            return [[]]
        out.append([def_sites(fn, k[1])[i][0] for k, i in zip(keys, combo)])
    return out


def len_value(x, env, depth=0):
    """length of the slice an expression denotes, given env[("lenof", fnkey, local)] for whole
    parameter slices: index ranges, split_at halves and view adapters are computed"""
    if x is None or depth > 30:
        return UNK
    if x.k == "local":
        fn_ = x.b
        return env.get(("lenof", fn_.key if fn_ is not None else None, x.a), UNK)
    if x.k == "cast":
        return len_value(x.a, env, depth + 1)
    if x.k == "field" and x.b in ("0", "1") and x.a.k == "call" and x.a.a.name in ("split_at", "split_at_mut"):
        ax = call_arg_exprs(x.a.a)
        base, k = len_value(ax[0], env, depth + 1), evaluate(ax[1], env, depth + 1)
        if isinstance(k, int) and not isinstance(k, bool):
            if x.b == "0":
                return k
            if isinstance(base, int):
                return base - k
        return UNK
    if x.k == "call":
        c = x.a
        ax = call_arg_exprs(c)
        if c.name in ("index", "index_mut") and len(ax) == 2 and ax[1].k == "agg" and ax[1].a:
            nm = ax[1].a.split("::")[-1]
            vals = [evaluate(o, env, depth + 1) for o in (ax[1].c or [])]
            vals = [v[1] if isinstance(v, tuple) and v and v[0] == "ovf" else v for v in vals]
            if any(not isinstance(v, int) or isinstance(v, bool) for v in vals):
                return UNK
            if nm == "Range":
                return vals[1] - vals[0]
            if nm == "RangeTo":
                return vals[0]
            if nm == "RangeFull":
                return len_value(ax[0], env, depth + 1)
            if nm == "RangeFrom":
                base = len_value(ax[0], env, depth + 1)
                return base - vals[0] if isinstance(base, int) else UNK
            return UNK
        if c.name in ("as_slice", "as_mut_slice", "deref", "deref_mut", "as_ref", "as_mut", "unwrap_or", "unwrap", "expect", "borrow") and ax:
            return len_value(ax[0], env, depth + 1)
    return UNK
