"""Controls: seeded one-line breaks applied to a scratch copy of /repo's *current* tree; the check
must (a) still build and (b) report the expected rule instance.  Evidence about the checker, never
part of the verdict on /repo.  Fail-soft: if the anchor text is not present in the current tree the
control is recorded as skipped.

usage: python3 -m sa.control [ID ...] [--only name] [--jobs N]
"""
import argparse
import json
import os
import shutil
import subprocess
import sys
import tempfile
import time
from concurrent.futures import ThreadPoolExecutor

VERIF = os.path.dirname(os.path.dirname(os.path.abspath(__file__)))
REPO = os.environ.get("VERIF_REPO", "/repo")


def load_controls():
    out = []
    d = os.path.join(VERIF, "controls")
    for f in sorted(os.listdir(d)):
        if f.endswith(".json"):
            with open(os.path.join(d, f)) as fh:
                for c in json.load(fh):
                    out.append(c)
    return out


def copy_repo(dst):
    def ign(d, names):
        return [n for n in names if n in (".git", "target")]
    shutil.copytree(REPO, dst, ignore=ign)


import queue
SLOTS = queue.Queue()


def run_control(c):
    """returns dict(name, property, status in fired|missed|skipped|nobuild, detail)"""
    t0 = time.time()
    tmp = tempfile.mkdtemp(prefix="dryoc-ctl-")
    scratch = os.path.join(tmp, "repo")
    res = {"name": c["name"], "property": c["property"], "expect": c.get("expect", "")}
    try:
        copy_repo(scratch)
        applied = 0
        for e in c["edits"]:
            p = os.path.join(scratch, e["file"])
            try:
                s = open(p).read()
            except OSError:
                break
            if e["old"] not in s:
                break
            s = s.replace(e["old"], e["new"], 1)
            open(p, "w").write(s)
            applied += 1
        if applied != len(c["edits"]):
            res["status"] = "skipped"
            res["detail"] = "anchor text not present in the current tree"
            return res
        env = dict(os.environ)
        env["VERIF_NO_CACHE"] = "0"
        slot = SLOTS.get()
        env["VERIF_TARGET_DIR"] = os.path.join(VERIF, ".work", "target-ctl-%d" % (slot + int(os.environ.get("VERIF_SLOT_BASE", "0"))))
        r = subprocess.run([sys.executable, "-m", "sa.run", c["property"], "--repo", scratch,
                            "--no-evidence", "--tier", "quick"], cwd=VERIF, env=env,
                           capture_output=True, text=True)
        out = r.stdout + r.stderr
        if c.get("silent"):
            # behaviour-preserving edit: the check must stay silent
            if "does not build" in out:
                res["status"] = "nobuild"
                res["detail"] = out[-400:]
            elif r.returncode == 0 and "VIOLATION" not in out:
                res["status"] = "silent"
                res["detail"] = ""
            else:
                res["status"] = "falsealarm"
                res["detail"] = out[-600:]
        elif "does not build" in out:
            res["status"] = "nobuild"
            res["detail"] = out[-400:]
        elif r.returncode == 1 and "VIOLATION" in out and (not c.get("expect") or c["expect"] in out):
            res["status"] = "fired"
            lines = [l for l in out.splitlines() if c.get("expect", "VIOLATION") in l]
            res["detail"] = (lines[0] if lines else "")[:300]
        else:
            res["status"] = "missed"
            res["detail"] = out[-600:]
    finally:
        try:
            SLOTS.put(slot)
        except NameError:
            pass
        shutil.rmtree(tmp, ignore_errors=True)
        res["seconds"] = round(time.time() - t0, 1)
    return res


def run_many(controls, jobs=4):
    while not SLOTS.empty():
        SLOTS.get()
    for i in range(jobs):
        SLOTS.put(i)
    with ThreadPoolExecutor(max_workers=jobs) as ex:
        return list(ex.map(run_control, controls))


def main():
    ap = argparse.ArgumentParser()
    ap.add_argument("ids", nargs="*")
    ap.add_argument("--only")
    ap.add_argument("--jobs", type=int, default=4)
    a = ap.parse_args()
    cs = load_controls()
    if a.ids:
        ids = [i.upper() for i in a.ids]
        cs = [c for c in cs if c["property"] in ids]
    if a.only:
        cs = [c for c in cs if a.only in c["name"]]
    rs = run_many(cs, a.jobs)
    bad = 0
    for r in rs:
        print("%-8s %-4s %-50s %5.1fs %s" % (r["status"], r["property"], r["name"], r["seconds"],
                                             r["detail"][:160].replace("\n", " ") if r["status"] not in ("fired", "silent") else ""))
        if r["status"] in ("missed", "nobuild", "falsealarm"):
            bad += 1
    return 1 if bad else 0


if __name__ == "__main__":
    sys.exit(main())
