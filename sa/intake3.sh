#!/bin/bash
# usage: intake3.sh <worktree> <PROP> <seed-id-prefix> [default cargo args for the demos]
# A worktree holding several independent seeded defects (mutantK.diff + seeded_demoK.rs, K = 1..): each
# is applied to the pristine tree in turn and confirmed with intake.sh (stored as <prefix>K...).
# The demo's feature flags are taken from its `#![cfg(feature = ..)]` line when present.
set -u
WT="$1"; PROP="$2"; PFX="$3"; DEF="${4:-}"
HERE="$(cd "$(dirname "$0")" && pwd)"
cd "$WT" || exit 2
for K in 1 2 3 4 5 6; do
  [ -s "mutant$K.diff" ] && [ -s "seeded_demo$K.rs" ] || continue
  git checkout -q -- src 2>/dev/null; git clean -fdq src tests 2>/dev/null
  git apply "mutant$K.diff" || { echo "== $PFX$K: mutant does not apply"; continue; }
  cp "seeded_demo$K.rs" tests/seeded_demo.rs
  EXTRA="$DEF"
  if grep -q 'feature = "nightly"' "seeded_demo$K.rs" || git diff --name-only | grep -q "protected.rs"; then
    EXTRA="+nightly --features nightly,serde,base64"
    grep -q "simd_backend" "seeded_demo$K.rs" "mutant$K.diff" 2>/dev/null && EXTRA="+nightly --features nightly,simd_backend,serde,base64"
  elif grep -q "blake2b_simd" "mutant$K.diff"; then
    EXTRA="+nightly --features nightly,simd_backend"
  elif grep -q 'feature = "serde"' "seeded_demo$K.rs" && grep -q 'feature = "base64"' "seeded_demo$K.rs"; then
    EXTRA="--features serde,base64"
  elif grep -q 'feature = "serde"' "seeded_demo$K.rs"; then
    EXTRA="--features serde,base64"
  elif grep -q 'feature = "base64"' "seeded_demo$K.rs"; then
    EXTRA="--features base64"
  fi
  NAME=$(grep -m1 "^+++ b/" "mutant$K.diff" | sed 's#+++ b/src/##; s#/#-#g; s#\.rs##')
  SID="$PFX$K-$NAME"
  echo "== $SID ($EXTRA)"
  "$HERE/intake.sh" "$WT" "$SID" "$PROP" "$EXTRA" 2>&1 | tail -2
  rm -f tests/seeded_demo.rs
done
git checkout -q -- src 2>/dev/null
