#!/bin/bash
# usage: intake.sh <worktree> <seed-id> <PROPERTY> [cargo test extra args for the demo, e.g. "+nightly --features nightly,serde,base64"]
# Confirms a seeded change independently (suite green with the change, demo red with it and green
# without it) and, only then, stores it under /verif/seeded/<seed-id>/.
set -u
WT="$1"; SID="$2"; PROP="$3"; EXTRA="${4:-}"
TOOLCHAIN=""; FEATS=()
for w in $EXTRA; do
  case "$w" in +*) TOOLCHAIN="$w";; *) FEATS+=("$w");; esac
done
cd "$WT" || exit 2
export CARGO_NET_OFFLINE=true
[ -f tests/seeded_demo.rs ] || { echo "no tests/seeded_demo.rs"; exit 2; }
git diff -- src > /tmp/intake-$SID.diff
[ -s /tmp/intake-$SID.diff ] || { [ -s mutant.diff ] && git apply mutant.diff && git diff -- src > /tmp/intake-$SID.diff; }
[ -s /tmp/intake-$SID.diff ] || { echo "no source change present"; exit 2; }
echo "== diff: $(grep -c '^[+-][^+-]' /tmp/intake-$SID.diff) changed lines in $(grep -c '^diff' /tmp/intake-$SID.diff) file(s)"
echo "== 1. existing suite WITH the change (default features, demo excluded)"
mv tests/seeded_demo.rs /tmp/intake-$SID-demo.rs
S1=$(cargo test --offline --workspace --no-fail-fast 2>&1 | grep -E "^test result" | awk '{p+=$4; f+=$6} END {print p" passed "f" failed"}')
echo "   $S1"
mv /tmp/intake-$SID-demo.rs tests/seeded_demo.rs
echo "== 2. demo WITH the change (expected: FAIL)"
cargo $TOOLCHAIN test --offline "${FEATS[@]}" --test seeded_demo > /tmp/intake-$SID-with.log 2>&1; RC_WITH=$?
tail -3 /tmp/intake-$SID-with.log | sed 's/^/   /'
echo "== 3. demo WITHOUT the change (expected: PASS)"
git apply -R /tmp/intake-$SID.diff || { echo "cannot revert"; exit 2; }
cargo $TOOLCHAIN test --offline "${FEATS[@]}" --test seeded_demo > /tmp/intake-$SID-without.log 2>&1; RC_WITHOUT=$?
tail -3 /tmp/intake-$SID-without.log | sed 's/^/   /'
git apply /tmp/intake-$SID.diff
echo "== verdict: suite[$S1] demo-with rc=$RC_WITH demo-without rc=$RC_WITHOUT"
P=$(echo "$S1" | awk '{print $1}'); F=$(echo "$S1" | awk '{print $3}')
# 100 unit + 5 integration (+ 34 doc tests) must pass, none may fail
if [ "${F:-1}" != "0" ] || [ "${P:-0}" -lt 105 ]; then echo "REJECT: suite not green ($S1)"; [ "${FORCE:-}" = 1 ] || exit 1; fi
if [ "$PROP" = "C20" ]; then
  # compile witness: the demo must build only WITH the change
  # compile witness (builds only WITH the change) or a run-time probe (fails only WITH the change)
  { [ $RC_WITH -eq 0 ] && [ $RC_WITHOUT -ne 0 ]; } || { [ $RC_WITH -ne 0 ] && [ $RC_WITHOUT -eq 0 ]; } || { echo "REJECT: C20 demo does not discriminate"; exit 1; }
else
  [ $RC_WITH -ne 0 ] && [ $RC_WITHOUT -eq 0 ] || { echo "REJECT: demo does not discriminate"; exit 1; }
fi
D=/verif/seeded/$SID
mkdir -p $D
cp /tmp/intake-$SID.diff $D/patch.diff
cp tests/seeded_demo.rs $D/seeded_demo.rs
[ -f REPORT.md ] && cp REPORT.md $D/REPORT.md
ls *.c >/dev/null 2>&1 && cp *.c $D/ 2>/dev/null
python3 - "$SID" "$PROP" "$S1" "$RC_WITH" "$RC_WITHOUT" "$EXTRA" <<'EOF'
import json,sys,os
sid,prop,s1,rw,rwo,extra=sys.argv[1:7]
d='/verif/seeded/'+sid
meta={"property":prop,"seed":sid,
 "ran":["cargo test --offline --workspace --no-fail-fast (with change): "+s1,
        "cargo %s test --offline --test seeded_demo with change: exit %s"%(extra,rw),
        "cargo %s test --offline --test seeded_demo without change: exit %s"%(extra,rwo)],
 "demo_args":extra,
 "needs_to_manifest":"see REPORT.md (filled in by hand below)"}
json.dump(meta,open(os.path.join(d,'meta.json'),'w'),indent=1)
EOF
echo "stored in $D"
