#!/bin/bash
# Build the framework from files on disk only (offline) and warm the extraction target directory.
set -e
cd "$(dirname "$0")"
export CARGO_NET_OFFLINE=true
( cd driver && cargo build --release --offline )
mkdir -p .work evidence
# warm dependency builds for the configurations used by the quick tier (full) and thorough tier
for cfg in full default simd; do
  case $cfg in
    full) F="nightly,serde,base64";; default) F="";; simd) F="nightly,simd_backend,serde,base64";;
  esac
  ./sa/extract.sh /repo $cfg "$F" .work/facts/_warm-$cfg.json .work/target || echo "warm-up of $cfg failed (the checks will report it)"
  rm -f .work/facts/_warm-$cfg.json .work/facts/_warm-$cfg.json.log
done
python3 -c "import json,jsonschema" 2>/dev/null || true
echo setup done
