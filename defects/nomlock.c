// LD_PRELOAD shim: every mlock request is refused (ENOMEM), as under an exhausted RLIMIT_MEMLOCK.
#include <errno.h>
#include <stddef.h>
int mlock(const void *addr, size_t len) { (void)addr; (void)len; errno = ENOMEM; return -1; }
