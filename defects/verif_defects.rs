// Demonstrations of the genuine defects found by the static checks (one test per defect).
// Each test FAILS on the pinned tree and PASSES after the corresponding `fix:` commit.
// Run (from a checkout of the repository): copy to tests/verif_defects.rs and
//   cargo test --offline --test verif_defects                          (D1-D7, D10)
//   cargo test --offline --features base64 --test verif_defects       (+D8, D9)
//   cargo +nightly test --offline --features nightly,serde,base64 --test verif_defects (+D11-D14)
use dryoc::classic::crypto_core::crypto_scalarmult;

fn sodium_init() {
    unsafe { libsodium_sys::sodium_init() };
}

#[test]
fn d1_c05_scalarmult_matches_libsodium_on_arbitrary_points() {
    sodium_init();
    let mut bad = 0;
    for i in 0..64u8 {
        let mut n = [0u8; 32];
        let mut p = [0u8; 32];
        for j in 0..32 {
            n[j] = (i as usize * 37 + j * 11 + 5) as u8;
            p[j] = (i as usize * 101 + j * 7 + 3) as u8;
        }
        let mut q = [0u8; 32];
        crypto_scalarmult(&mut q, &n, &p);
        let mut so = [0u8; 32];
        let _ = unsafe { libsodium_sys::crypto_scalarmult(so.as_mut_ptr(), n.as_ptr(), p.as_ptr()) };
        if q != so {
            bad += 1;
        }
    }
    assert_eq!(bad, 0, "X25519 disagrees with libsodium on {} of 64 arbitrary points", bad);
}

#[test]
fn d2_c05_kx_rejects_all_zero_shared_secret() {
    use dryoc::classic::crypto_kx::*;
    let (cpk, csk) = crypto_kx_keypair();
    let spk = [0u8; 32]; // small-order point: shared secret is all-zero
    let mut rx = [0u8; 32];
    let mut tx = [0u8; 32];
    assert!(crypto_kx_client_session_keys(&mut rx, &mut tx, &cpk, &csk, &spk).is_err());
    assert!(crypto_kx_server_session_keys(&mut rx, &mut tx, &cpk, &csk, &spk).is_err());
}

#[test]
fn d3_c06_verify_rejects_unreduced_s() {
    use dryoc::classic::crypto_sign::*;
    let (pk, sk) = crypto_sign_keypair();
    let msg = b"hello";
    let mut sig = [0u8; 64];
    crypto_sign_detached(&mut sig, msg, &sk).unwrap();
    crypto_sign_verify_detached(&sig, msg, &pk).expect("good sig");
    // S + L
    let l: [u8; 32] = [
        0xed, 0xd3, 0xf5, 0x5c, 0x1a, 0x63, 0x12, 0x58, 0xd6, 0x9c, 0xf7, 0xa2, 0xde, 0xf9, 0xde, 0x14,
        0, 0, 0, 0, 0, 0, 0, 0, 0, 0, 0, 0, 0, 0, 0, 0x10,
    ];
    let mut carry = 0u16;
    let mut s2 = [0u8; 32];
    for i in 0..32 {
        let v = sig[32 + i] as u16 + l[i] as u16 + carry;
        s2[i] = v as u8;
        carry = v >> 8;
    }
    if carry == 0 {
        let mut forged = sig;
        forged[32..].copy_from_slice(&s2);
        assert!(crypto_sign_verify_detached(&forged, msg, &pk).is_err(), "S+L accepted");
    }
}

#[test]
fn d4_c04_classic_pull_short_ciphertext_is_an_error() {
    use dryoc::classic::crypto_secretstream_xchacha20poly1305::*;
    let key = [1u8; 32];
    let mut header = [0u8; 24];
    let mut st = State::new();
    crypto_secretstream_xchacha20poly1305_init_push(&mut st, &mut header, &key);
    let mut pull = State::new();
    crypto_secretstream_xchacha20poly1305_init_pull(&mut pull, &header, &key);
    for len in 0..17 {
        let c = vec![0u8; len];
        let mut m = [0u8; 4];
        let mut tag = 0u8;
        let pull0 = pull.clone();
        let r = std::panic::catch_unwind(move || {
            let mut pull = pull0;
            crypto_secretstream_xchacha20poly1305_pull(&mut pull, &mut m, &mut tag, &c, None).is_err()
        });
        assert!(matches!(r, Ok(true)), "len {} -> {:?}", len, r);
    }
}

#[test]
fn d5_c04_object_pull_short_and_any_tag() {
    use dryoc::classic::crypto_secretstream_xchacha20poly1305::{
        State, crypto_secretstream_xchacha20poly1305_init_push, crypto_secretstream_xchacha20poly1305_push,
    };
    use dryoc::dryocstream::*;
    let key = Key::gen();
    let (_push, header): (_, Header) = DryocStream::init_push(&key);
    for len in 0..17 {
        let h = header.clone();
        let k = key.clone();
        let r = std::panic::catch_unwind(move || {
            let mut pull = DryocStream::init_pull(&k, &h);
            let c = vec![0u8; len];
            pull.pull_to_vec(&c, None).is_err()
        });
        assert!(matches!(r, Ok(true)), "len {} -> {:?}", len, r);
    }
    // authentic message with tag byte 0x80 produced through the classic API
    let mut st = State::new();
    let mut hdr = [0u8; 24];
    crypto_secretstream_xchacha20poly1305_init_push(&mut st, &mut hdr, key.as_array());
    let mut c = vec![0u8; 5 + 17];
    crypto_secretstream_xchacha20poly1305_push(&mut st, &mut c, b"hello", None, 0x80).unwrap();
    let k = key.clone();
    let r = std::panic::catch_unwind(move || {
        let h: Header = hdr.into();
        let mut pull = DryocStream::init_pull(&k, &h);
        let _ = pull.pull_to_vec(&c, None);
    });
    assert!(r.is_ok(), "authentic message with tag 0x80 panicked");
}

#[test]
fn d6_c17_secretbox_failed_open_leaves_nothing() {
    use dryoc::classic::crypto_secretbox::*;
    let key = [7u8; 32];
    let nonce = [9u8; 24];
    let msg = [0x41u8; 40];
    let mut c = vec![0u8; 40 + 16];
    crypto_secretbox_easy(&mut c, &msg, &nonce, &key).unwrap();
    c[3] ^= 1; // corrupt tag
    // copying form
    let mut out = [0x55u8; 40];
    assert!(crypto_secretbox_open_easy(&mut out, &c, &nonce, &key).is_err());
    assert!(out == [0x55u8; 40] || out == [0u8; 40], "message buffer holds {:x?}", &out[..8]);
    // in-place form: buffer must be as it was (or zeroed)
    let mut d = c.clone();
    assert!(crypto_secretbox_open_easy_inplace(&mut d, &nonce, &key).is_err());
    assert!(d == c || d.iter().all(|b| *b == 0), "in-place buffer was modified on failure");
}

#[test]
fn d7_c17_stream_failed_pull_leaves_nothing() {
    use dryoc::classic::crypto_secretstream_xchacha20poly1305::*;
    let key = [1u8; 32];
    let mut header = [0u8; 24];
    let mut st = State::new();
    crypto_secretstream_xchacha20poly1305_init_push(&mut st, &mut header, &key);
    let mut c = vec![0u8; 5 + 17];
    crypto_secretstream_xchacha20poly1305_push(&mut st, &mut c, b"hello", None, 1).unwrap();
    let n = c.len();
    c[n - 1] ^= 1;
    let mut pull = State::new();
    crypto_secretstream_xchacha20poly1305_init_pull(&mut pull, &header, &key);
    let mut m = [0x55u8; 5];
    let mut tag = 0xeeu8;
    assert!(crypto_secretstream_xchacha20poly1305_pull(&mut pull, &mut m, &mut tag, &c, None).is_err());
    assert_eq!(tag, 0xee, "tag output was updated on failure");
    assert!(m == [0x55u8; 5] || m == [0u8; 5], "message buffer holds {:x?}", m);
}

#[cfg(feature = "base64")]
#[test]
fn d8_c11_pwhash_str_uses_a_fresh_salt() {
    use dryoc::classic::crypto_pwhash::*;
    let a = crypto_pwhash_str(b"pw", 1, 8192).unwrap();
    let b = crypto_pwhash_str(b"pw", 1, 8192).unwrap();
    assert_ne!(a, b, "two calls produced the same string: constant salt");
    assert!(!a.contains("$AAAAAAAAAAAAAAAAAAAAAA$"), "all-zero salt: {}", a);
}

#[cfg(feature = "base64")]
#[test]
fn d9_c10_to_string_encodes_the_algorithm_used() {
    use dryoc::pwhash::*;
    let s = "$argon2i$v=19$m=8,t=3,p=1$c29tZXNhbHQ$aGFzaGhhc2hoYXNoaGFzaA";
    let p: VecPwHash = PwHash::from_string(s).unwrap();
    assert_eq!(p.to_string(), s);
}

#[test]
fn d10_c12_kdf_matches_libsodium_for_every_length() {
    use dryoc::classic::crypto_kdf::*;
    sodium_init();
    let key = [3u8; 32];
    let ctx = *b"context_";
    for len in 16..=64usize {
        let mut a = vec![0u8; len];
        crypto_kdf_derive_from_key(&mut a, 7, &ctx, &key).unwrap();
        let mut b = vec![0u8; len];
        let rc = unsafe {
            libsodium_sys::crypto_kdf_derive_from_key(b.as_mut_ptr(), len, 7, ctx.as_ptr() as *const _, key.as_ptr())
        };
        assert_eq!(rc, 0);
        assert_eq!(a, b, "subkey length {}", len);
    }
}

#[cfg(feature = "nightly")]
mod nightly {
    use dryoc::protected::*;
    use dryoc::types::*;

    fn maps_perms(addr: usize) -> String {
        let maps = std::fs::read_to_string("/proc/self/maps").unwrap();
        for l in maps.lines() {
            let mut it = l.split_whitespace();
            let range = it.next().unwrap();
            let perms = it.next().unwrap();
            let (a, b) = range.split_once('-').unwrap();
            let a = usize::from_str_radix(a, 16).unwrap();
            let b = usize::from_str_radix(b, 16).unwrap();
            if a <= addr && addr < b {
                return perms.to_string();
            }
        }
        "????".into()
    }

    #[test]
    fn d11_c14_one_byte_region_is_really_read_only() {
        let mut b = HeapBytes::default();
        b.resize(1, 0x41);
        let ro = b.mlock().unwrap().mprotect_readonly().unwrap();
        let addr = ro.as_slice().as_ptr() as usize;
        let p = maps_perms(addr);
        assert!(p.starts_with("r--"), "1-byte read-only region has rights {}", p);
        let page = 4096;
        let mut b = HeapBytes::default();
        b.resize(page + 1, 0x41);
        let ro = b.mlock().unwrap().mprotect_readonly().unwrap();
        let addr = ro.as_slice().as_ptr() as usize + page;
        let p = maps_perms(addr);
        assert!(p.starts_with("r--"), "last page of a page+1 read-only region has rights {}", p);
    }

    #[test]
    fn d12_c15_release_wipes_the_allocation() {
        // Observe the bytes at the moment they reach free(): interpose nothing, instead read the
        // old block right after a reallocating resize (the block is still mapped: glibc keeps it).
        let mut b = HeapBytes::default();
        b.resize(64, 0xaa);
        let old = b.as_slice().as_ptr();
        b.resize(3 * 4096, 0xbb); // forces a new allocation, old block goes to free()
        let new = b.as_slice().as_ptr();
        if old != new {
            let leaked = unsafe { std::slice::from_raw_parts(old, 64) };
            let n = leaked.iter().filter(|x| **x == 0xaa).count();
            assert!(n < 32, "{} of 64 secret bytes still present in the released block", n);
        }
    }

    #[test]
    fn d13_c19_from_slice_into_locked_reports_refused_lock() {
        // run with LD_PRELOAD=<nomlock.so> (defects/nomlock.c): every mlock is refused
        let probe = vec![0u8; 4096];
        let enforced = unsafe { libc::mlock(probe.as_ptr() as *const _, 4096) } != 0;
        if !enforced {
            unsafe { libc::munlock(probe.as_ptr() as *const _, 4096) };
            eprintln!("mlock is not being refused (run under the nomlock.so shim); skipping");
            return;
        }
        let r = std::panic::catch_unwind(|| HeapBytes::from_slice_into_locked(b"secret").is_err());
        assert!(matches!(r, Ok(true)), "refused lock -> {:?}", r.map_err(|_| "panic"));
    }

    #[cfg(feature = "serde")]
    #[test]
    fn d14_c16_fixed_length_decoders_enforce_the_length() {
        use dryoc::types::StackByteArray;
        // element-sequence encodings of the wrong length must fail
        let short = serde_json::to_string(&vec![1u8; 5]).unwrap();
        let long = serde_json::to_string(&vec![1u8; 40]).unwrap();
        assert!(serde_json::from_str::<StackByteArray<32>>(&short).is_err(), "short sequence padded");
        assert!(serde_json::from_str::<StackByteArray<32>>(&long).is_err(), "long sequence truncated");
        let exact = serde_json::to_string(&vec![1u8; 32]).unwrap();
        assert!(serde_json::from_str::<StackByteArray<32>>(&exact).is_ok());
        let r = std::panic::catch_unwind(|| {
            let v: &[u8] = &[1, 2, 3];
            HeapBytes::from(v)
        });
        assert!(r.is_ok(), "From<&[u8]> for HeapBytes panics");
        let r = std::panic::catch_unwind(|| serde_json::from_str::<HeapBytes>("[1,2,3]").map(|h| h.len()));
        assert!(matches!(r, Ok(Ok(3))), "HeapBytes sequence decoding: {:?}", r.map_err(|_| "panic"));
    }
}
