// Fact extractor: a rustc driver that dumps the type-checked program (MIR bodies with resolved
// callees, impl table, const items) of the *primary* crate as one JSON file.
// Used as RUSTC_WORKSPACE_WRAPPER under `cargo +nightly check`; output path from DRYOC_FACTS_OUT.
#![feature(rustc_private)]
#![allow(clippy::all)]

extern crate rustc_abi;
extern crate rustc_driver;
extern crate rustc_hir;
extern crate rustc_interface;
extern crate rustc_middle;
extern crate rustc_span;

mod json;
use json::J;

use rustc_driver::{Callbacks, Compilation};
use rustc_hir::def::DefKind;
use rustc_hir::def_id::{DefId, LOCAL_CRATE};
use rustc_interface::interface::Compiler;
use rustc_middle::mir::{
    AggregateKind, BasicBlockData, BinOp, Body, CastKind, Const as MirConst, Operand, Place,
    ProjectionElem, Rvalue, StatementKind, TerminatorKind, UnOp, UnwindAction,
};
use rustc_middle::ty::{self, GenericArgKind, Ty, TyCtxt, TyKind};
use rustc_span::Span;

struct Cb {
    out: Option<String>,
}

impl Callbacks for Cb {
    fn after_analysis<'tcx>(&mut self, _c: &Compiler, tcx: TyCtxt<'tcx>) -> Compilation {
        if let Some(out) = &self.out {
            let want = std::env::var("DRYOC_FACTS_CRATE").unwrap_or_else(|_| "dryoc".to_string());
            let name = tcx.crate_name(LOCAL_CRATE).to_string();
            if name == want {
                let j = extract(tcx);
                let s = j.to_string();
                std::fs::write(out, s).expect("write facts");
            }
        }
        Compilation::Continue
    }
}

fn main() {
    let mut args: Vec<String> = std::env::args().collect();
    // As a cargo wrapper we are called as `<driver> <rustc> <args...>`.
    if args.len() > 1 && (args[1].ends_with("rustc") || args[1].contains("/rustc")) {
        args.remove(1);
    }
    let out = std::env::var("DRYOC_FACTS_OUT").ok();
    let mut cb = Cb { out };
    rustc_driver::run_compiler(&args, &mut cb);
}

// ------------------------------------------------------------------------------------------------

fn span_j<'tcx>(tcx: TyCtxt<'tcx>, sp: Span) -> J {
    // Map macro-expanded spans to their outermost call site in source.
    let from_exp = sp.from_expansion();
    let sp = sp.source_callsite();
    let sm = tcx.sess.source_map();
    let lo = sm.lookup_char_pos(sp.lo());
    let hi = sm.lookup_char_pos(sp.hi());
    let file = match &lo.file.name {
        rustc_span::FileName::Real(r) => match r.local_path() {
            Some(p) => p.to_string_lossy().to_string(),
            None => format!("{:?}", r),
        },
        other => format!("{:?}", other),
    };
    J::obj(vec![
        ("file", J::s(file)),
        ("lo", J::i(lo.line as i128)),
        ("hi", J::i(hi.line as i128)),
        ("exp", J::b(from_exp)),
    ])
}

fn line_of<'tcx>(tcx: TyCtxt<'tcx>, sp: Span) -> J {
    let exp = sp.from_expansion();
    let sp = sp.source_callsite();
    let sm = tcx.sess.source_map();
    let lo = sm.lookup_char_pos(sp.lo());
    if exp {
        J::arr(vec![J::i(lo.line as i128), J::b(true)])
    } else {
        J::i(lo.line as i128)
    }
}

fn ty_j<'tcx>(tcx: TyCtxt<'tcx>, t: Ty<'tcx>) -> J {
    // Structured description of a type: text + head constructor + args.
    let text = format!("{}", t);
    let mut fields: Vec<(&'static str, J)> = vec![("t", J::s(text))];
    match t.kind() {
        TyKind::Adt(def, args) => {
            fields.push(("k", J::s("adt")));
            fields.push(("path", J::s(tcx.def_path_str(def.did()))));
            let mut a = vec![];
            for ga in args.iter() {
                match ga.kind() {
                    GenericArgKind::Type(tt) => a.push(ty_j_shallow(tcx, tt)),
                    GenericArgKind::Const(c) => a.push(J::obj(vec![
                        ("k", J::s("const")),
                        ("t", J::s(format!("{}", c))),
                    ])),
                    GenericArgKind::Lifetime(_) => {}
                }
            }
            fields.push(("args", J::arr(a)));
        }
        TyKind::Ref(_, inner, m) => {
            fields.push(("k", J::s("ref")));
            fields.push(("mut", J::b(m.is_mut())));
            fields.push(("inner", ty_j_shallow(tcx, *inner)));
        }
        TyKind::RawPtr(inner, m) => {
            fields.push(("k", J::s("ptr")));
            fields.push(("mut", J::b(m.is_mut())));
            fields.push(("inner", ty_j_shallow(tcx, *inner)));
        }
        TyKind::Slice(inner) => {
            fields.push(("k", J::s("slice")));
            fields.push(("inner", ty_j_shallow(tcx, *inner)));
        }
        TyKind::Array(inner, n) => {
            fields.push(("k", J::s("array")));
            fields.push(("inner", ty_j_shallow(tcx, *inner)));
            fields.push(("n", J::s(format!("{}", n))));
        }
        TyKind::Param(p) => {
            fields.push(("k", J::s("param")));
            fields.push(("name", J::s(p.name.to_string())));
        }
        TyKind::Tuple(ts) => {
            fields.push(("k", J::s("tuple")));
            fields.push(("args", J::arr(ts.iter().map(|x| ty_j_shallow(tcx, x)).collect())));
        }
        TyKind::FnDef(did, _) => {
            fields.push(("k", J::s("fndef")));
            fields.push(("path", J::s(tcx.def_path_str(*did))));
        }
        TyKind::Closure(did, _) => {
            fields.push(("k", J::s("closure")));
            fields.push(("path", J::s(tcx.def_path_str(*did))));
            fields.push(("key", J::s(key_of(tcx, *did))));
        }
        TyKind::Bool | TyKind::Int(_) | TyKind::Uint(_) | TyKind::Char | TyKind::Float(_) => {
            fields.push(("k", J::s("prim")));
        }
        _ => {
            fields.push(("k", J::s("other")));
        }
    }
    J::obj(fields)
}

fn ty_j_shallow<'tcx>(tcx: TyCtxt<'tcx>, t: Ty<'tcx>) -> J {
    // one more level is enough for the rules (Result<Protected<..>, Error>, &mut [u8], ...)
    let text = format!("{}", t);
    let mut fields: Vec<(&'static str, J)> = vec![("t", J::s(text))];
    match t.kind() {
        TyKind::Adt(def, args) => {
            fields.push(("k", J::s("adt")));
            fields.push(("path", J::s(tcx.def_path_str(def.did()))));
            let mut a = vec![];
            for ga in args.iter() {
                match ga.kind() {
                    GenericArgKind::Type(tt) => {
                        let mut f2: Vec<(&'static str, J)> = vec![("t", J::s(format!("{}", tt)))];
                        match tt.kind() {
                            TyKind::Adt(d2, _) => {
                                f2.push(("k", J::s("adt")));
                                f2.push(("path", J::s(tcx.def_path_str(d2.did()))));
                            }
                            TyKind::Param(p) => {
                                f2.push(("k", J::s("param")));
                                f2.push(("name", J::s(p.name.to_string())));
                            }
                            _ => f2.push(("k", J::s("other"))),
                        }
                        a.push(J::obj(f2));
                    }
                    GenericArgKind::Const(c) => a.push(J::obj(vec![
                        ("k", J::s("const")),
                        ("t", J::s(format!("{}", c))),
                    ])),
                    GenericArgKind::Lifetime(_) => {}
                }
            }
            fields.push(("args", J::arr(a)));
        }
        TyKind::Ref(_, inner, m) => {
            fields.push(("k", J::s("ref")));
            fields.push(("mut", J::b(m.is_mut())));
            fields.push(("inner", J::obj(vec![("t", J::s(format!("{}", inner)))])));
        }
        TyKind::RawPtr(inner, m) => {
            fields.push(("k", J::s("ptr")));
            fields.push(("mut", J::b(m.is_mut())));
            fields.push(("inner", J::obj(vec![("t", J::s(format!("{}", inner)))])));
        }
        TyKind::Slice(inner) => {
            fields.push(("k", J::s("slice")));
            fields.push(("inner", J::obj(vec![("t", J::s(format!("{}", inner)))])));
        }
        TyKind::Array(inner, n) => {
            fields.push(("k", J::s("array")));
            fields.push(("inner", J::obj(vec![("t", J::s(format!("{}", inner)))])));
            fields.push(("n", J::s(format!("{}", n))));
        }
        TyKind::Param(p) => {
            fields.push(("k", J::s("param")));
            fields.push(("name", J::s(p.name.to_string())));
        }
        TyKind::Bool | TyKind::Int(_) | TyKind::Uint(_) | TyKind::Char | TyKind::Float(_) => {
            fields.push(("k", J::s("prim")));
        }
        _ => fields.push(("k", J::s("other"))),
    }
    J::obj(fields)
}

fn key_of<'tcx>(tcx: TyCtxt<'tcx>, did: DefId) -> String {
    // unique, stable-within-a-run key
    let krate = tcx.crate_name(did.krate).to_string();
    format!("{}{}", krate, tcx.def_path(did).to_string_no_crate_verbose())
}

fn place_j<'tcx>(tcx: TyCtxt<'tcx>, body: &Body<'tcx>, p: &Place<'tcx>) -> J {
    let mut proj = vec![];
    let mut cur_ty = rustc_middle::mir::PlaceTy::from_ty(body.local_decls[p.local].ty);
    for elem in p.projection.iter() {
        match elem {
            ProjectionElem::Deref => proj.push(J::s("deref")),
            ProjectionElem::Field(f, _) => {
                let mut name = format!("{}", f.index());
                if let TyKind::Adt(def, _) = cur_ty.ty.kind() {
                    let vidx = cur_ty.variant_index.unwrap_or(rustc_abi::FIRST_VARIANT);
                    if def.is_struct() || def.is_enum() || def.is_union() {
                        if let Some(v) = def.variants().get(vidx) {
                            if let Some(fd) = v.fields.get(f) {
                                name = fd.name.to_string();
                            }
                        }
                    }
                }
                proj.push(J::obj(vec![("f", J::i(f.index() as i128)), ("n", J::s(name))]));
            }
            ProjectionElem::Index(l) => proj.push(J::obj(vec![("idx", J::i(l.index() as i128))])),
            ProjectionElem::ConstantIndex { offset, min_length, from_end } => {
                proj.push(J::obj(vec![
                    ("cidx", J::i(offset as i128)),
                    ("min", J::i(min_length as i128)),
                    ("from_end", J::b(from_end)),
                ]))
            }
            ProjectionElem::Subslice { from, to, from_end } => proj.push(J::obj(vec![
                ("sub_from", J::i(from as i128)),
                ("sub_to", J::i(to as i128)),
                ("from_end", J::b(from_end)),
            ])),
            ProjectionElem::Downcast(name, vi) => proj.push(J::obj(vec![
                (
                    "variant",
                    J::s(name.map(|s| s.to_string()).unwrap_or_else(|| format!("{}", vi.index()))),
                ),
                ("vi", J::i(vi.index() as i128)),
            ])),
            ProjectionElem::OpaqueCast(_) => proj.push(J::s("opaque")),
            ProjectionElem::UnwrapUnsafeBinder(_) => proj.push(J::s("unsafe_binder")),
        }
        cur_ty = cur_ty.projection_ty(tcx, elem);
    }
    J::obj(vec![("l", J::i(p.local.index() as i128)), ("p", J::arr(proj))])
}

fn scalar_of<'tcx>(tcx: TyCtxt<'tcx>, env: ty::TypingEnv<'tcx>, c: &MirConst<'tcx>) -> Option<i128> {
    let ty = c.ty();
    match ty.kind() {
        TyKind::Bool | TyKind::Int(_) | TyKind::Uint(_) | TyKind::Char => {}
        _ => return None,
    }
    let si = c.try_eval_scalar_int(tcx, env)?;
    let size = si.size();
    match ty.kind() {
        TyKind::Int(_) => Some(si.to_int(size)),
        _ => {
            let u = si.to_uint(size);
            if u > i128::MAX as u128 {
                None
            } else {
                Some(u as i128)
            }
        }
    }
}

fn const_j<'tcx>(tcx: TyCtxt<'tcx>, env: ty::TypingEnv<'tcx>, c: &MirConst<'tcx>) -> J {
    let ty = c.ty();
    let mut f: Vec<(&'static str, J)> = vec![("k", J::s("const")), ("ty", J::s(format!("{}", ty)))];
    if let TyKind::FnDef(did, args) = ty.kind() {
        f.push(("fn", J::s(tcx.def_path_str_with_args(*did, args))));
        f.push(("fn_key", J::s(key_of(tcx, *did))));
        return J::obj(f);
    }
    // named const item?
    match c {
        MirConst::Unevaluated(uv, _) => {
            f.push(("name", J::s(tcx.def_path_str(uv.def))));
            if let Some(pi) = uv.promoted {
                f.push(("promoted", J::b(true)));
                f.push(("promoted_idx", J::i(pi.index() as i128)));
            }
        }
        MirConst::Ty(_, tc) => {
            f.push(("tyconst", J::s(format!("{}", tc))));
        }
        MirConst::Val(..) => {}
    }
    if let Some(v) = scalar_of(tcx, env, c) {
        f.push(("v", J::i(v)));
    } else {
        // textual rendering for strings / aggregates (bounded)
        let mut s = format!("{}", c);
        if s.len() > 200 {
            s.truncate(200);
        }
        f.push(("txt", J::s(s)));
    }
    J::obj(f)
}

fn operand_j<'tcx>(
    tcx: TyCtxt<'tcx>,
    env: ty::TypingEnv<'tcx>,
    body: &Body<'tcx>,
    o: &Operand<'tcx>,
) -> J {
    match o {
        Operand::Copy(p) => {
            let mut j = place_j(tcx, body, p);
            j.push("k", J::s("copy"));
            j
        }
        Operand::Move(p) => {
            let mut j = place_j(tcx, body, p);
            j.push("k", J::s("move"));
            j
        }
        Operand::Constant(c) => const_j(tcx, env, &c.const_),
        #[allow(unreachable_patterns)]
        _ => J::obj(vec![("k", J::s("other"))]),
    }
}

fn binop_name(b: BinOp) -> String {
    format!("{:?}", b)
}

fn rvalue_j<'tcx>(
    tcx: TyCtxt<'tcx>,
    env: ty::TypingEnv<'tcx>,
    body: &Body<'tcx>,
    rv: &Rvalue<'tcx>,
) -> J {
    match rv {
        Rvalue::Use(o, ..) => J::obj(vec![("k", J::s("use")), ("x", operand_j(tcx, env, body, o))]),
        Rvalue::Repeat(o, n) => J::obj(vec![
            ("k", J::s("repeat")),
            ("x", operand_j(tcx, env, body, o)),
            ("n", J::s(format!("{}", n))),
        ]),
        Rvalue::Ref(_, bk, p) => J::obj(vec![
            ("k", J::s("ref")),
            ("mut", J::b(matches!(bk, rustc_middle::mir::BorrowKind::Mut { .. }))),
            ("place", place_j(tcx, body, p)),
        ]),
        Rvalue::RawPtr(m, p) => J::obj(vec![
            ("k", J::s("rawptr")),
            ("mut", J::b(format!("{:?}", m).contains("Mut"))),
            ("place", place_j(tcx, body, p)),
        ]),
        Rvalue::Cast(kind, o, t) => {
            let ks = match kind {
                CastKind::PointerCoercion(pc, _) => format!("PointerCoercion({:?})", pc),
                other => format!("{:?}", other),
            };
            J::obj(vec![
                ("k", J::s("cast")),
                ("kind", J::s(ks)),
                ("x", operand_j(tcx, env, body, o)),
                ("ty", J::s(format!("{}", t))),
            ])
        }
        Rvalue::BinaryOp(op, ops) => J::obj(vec![
            ("k", J::s("binop")),
            ("op", J::s(binop_name(*op))),
            ("l", operand_j(tcx, env, body, &ops.0)),
            ("r", operand_j(tcx, env, body, &ops.1)),
        ]),
        Rvalue::UnaryOp(op, o) => {
            let n = match op {
                UnOp::Not => "Not".to_string(),
                UnOp::Neg => "Neg".to_string(),
                UnOp::PtrMetadata => "PtrMetadata".to_string(),
                #[allow(unreachable_patterns)]
                other => format!("{:?}", other),
            };
            J::obj(vec![("k", J::s("unop")), ("op", J::s(n)), ("x", operand_j(tcx, env, body, o))])
        }
        Rvalue::Discriminant(p) => {
            J::obj(vec![("k", J::s("discr")), ("place", place_j(tcx, body, p))])
        }
        Rvalue::Aggregate(kind, ops) => {
            let mut f: Vec<(&'static str, J)> = vec![("k", J::s("agg"))];
            match &**kind {
                AggregateKind::Array(_) => f.push(("agg", J::s("array"))),
                AggregateKind::Tuple => f.push(("agg", J::s("tuple"))),
                AggregateKind::Adt(did, vi, _, _, _) => {
                    f.push(("agg", J::s("adt")));
                    f.push(("path", J::s(tcx.def_path_str(*did))));
                    let adt = tcx.adt_def(*did);
                    let v = adt.variant(*vi);
                    f.push(("variant", J::s(v.name.to_string())));
                    f.push((
                        "fields",
                        J::arr(v.fields.iter().map(|fd| J::s(fd.name.to_string())).collect()),
                    ));
                }
                AggregateKind::Closure(did, _) => {
                    f.push(("agg", J::s("closure")));
                    f.push(("path", J::s(tcx.def_path_str(*did))));
                    f.push(("key", J::s(key_of(tcx, *did))));
                }
                other => f.push(("agg", J::s(format!("{:?}", other)))),
            }
            f.push(("ops", J::arr(ops.iter().map(|o| operand_j(tcx, env, body, o)).collect())));
            J::obj(f)
        }
        Rvalue::CopyForDeref(p) => {
            let mut pj = place_j(tcx, body, p);
            pj.push("k", J::s("copy"));
            J::obj(vec![("k", J::s("use")), ("x", pj)])
        }
        Rvalue::ThreadLocalRef(_) => J::obj(vec![("k", J::s("tls"))]),
        Rvalue::WrapUnsafeBinder(o, _) => {
            J::obj(vec![("k", J::s("use")), ("x", operand_j(tcx, env, body, o))])
        }
        #[allow(unreachable_patterns)]
        other => J::obj(vec![("k", J::s("other")), ("txt", J::s(format!("{:?}", other)))]),
    }
}

fn callee_j<'tcx>(
    tcx: TyCtxt<'tcx>,
    env: ty::TypingEnv<'tcx>,
    body: &Body<'tcx>,
    func: &Operand<'tcx>,
) -> J {
    let mut f: Vec<(&'static str, J)> = vec![];
    if let Some((did, args)) = func.const_fn_def() {
        f.push(("path", J::s(tcx.def_path_str(did))));
        f.push(("full", J::s(tcx.def_path_str_with_args(did, args))));
        f.push(("key", J::s(key_of(tcx, did))));
        f.push(("local", J::b(did.is_local())));
        let mut targs = vec![];
        for ga in args.iter() {
            if let GenericArgKind::Type(t) = ga.kind() {
                targs.push(J::s(format!("{}", t)));
            } else if let GenericArgKind::Const(c) = ga.kind() {
                targs.push(J::s(format!("{}", c)));
            }
        }
        f.push(("targs", J::arr(targs)));
        // trait method?
        if let Some(tr) = tcx.trait_of_assoc(did) {
            f.push(("trait", J::s(tcx.def_path_str(tr))));
            if let Some(self_ty) = args.types().next() {
                f.push(("self_ty", J::s(format!("{}", self_ty))));
            }
        }
        f.push(("name", J::s(tcx.item_name(did).to_string())));
        // resolve
        let resolved = std::panic::catch_unwind(std::panic::AssertUnwindSafe(|| {
            ty::Instance::try_resolve(tcx, env, did, args)
        }));
        if let Ok(Ok(Some(inst))) = resolved {
            let rdid = inst.def_id();
            f.push(("r_path", J::s(tcx.def_path_str(rdid))));
            f.push(("r_full", J::s(tcx.def_path_str_with_args(rdid, inst.args))));
            f.push(("r_key", J::s(key_of(tcx, rdid))));
            f.push(("r_local", J::b(rdid.is_local())));
            let kind = match inst.def {
                ty::InstanceKind::Item(_) => "item",
                ty::InstanceKind::Virtual(..) => "virtual",
                ty::InstanceKind::Intrinsic(_) => "intrinsic",
                ty::InstanceKind::ClosureOnceShim { .. } => "closure_once",
                ty::InstanceKind::DropGlue(..) => "drop_glue",
                ty::InstanceKind::CloneShim(..) => "clone_shim",
                ty::InstanceKind::FnPtrShim(..) => "fnptr_shim",
                _ => "other",
            };
            f.push(("r_kind", J::s(kind)));
            // For closure calls through Fn* traits the resolved instance is the closure body.
        }
    } else {
        f.push(("indirect", operand_j(tcx, env, body, func)));
        let t = func.ty(&body.local_decls, tcx);
        f.push(("ty", J::s(format!("{}", t))));
    }
    J::obj(f)
}

fn unwind_j(u: &UnwindAction) -> J {
    match u {
        UnwindAction::Cleanup(bb) => J::i(bb.index() as i128),
        _ => J::Null,
    }
}

fn block_j<'tcx>(
    tcx: TyCtxt<'tcx>,
    env: ty::TypingEnv<'tcx>,
    body: &Body<'tcx>,
    bb: &BasicBlockData<'tcx>,
) -> J {
    let mut stmts = vec![];
    for st in bb.statements.iter() {
        match &st.kind {
            StatementKind::Assign(b) => {
                let (place, rv) = &**b;
                stmts.push(J::obj(vec![
                    ("k", J::s("assign")),
                    ("place", place_j(tcx, body, place)),
                    ("rv", rvalue_j(tcx, env, body, rv)),
                    ("ln", line_of(tcx, st.source_info.span)),
                ]));
            }
            StatementKind::SetDiscriminant { place, variant_index } => {
                stmts.push(J::obj(vec![
                    ("k", J::s("setdiscr")),
                    ("place", place_j(tcx, body, place)),
                    ("vi", J::i(variant_index.index() as i128)),
                    ("ln", line_of(tcx, st.source_info.span)),
                ]));
            }
            StatementKind::Intrinsic(i) => {
                stmts.push(J::obj(vec![
                    ("k", J::s("intrinsic")),
                    ("txt", J::s(format!("{:?}", i))),
                    ("ln", line_of(tcx, st.source_info.span)),
                ]));
            }
            _ => {}
        }
    }
    let term = bb.terminator();
    let ln = line_of(tcx, term.source_info.span);
    let tj = match &term.kind {
        TerminatorKind::Goto { target } => {
            J::obj(vec![("k", J::s("goto")), ("t", J::i(target.index() as i128))])
        }
        TerminatorKind::SwitchInt { discr, targets } => {
            let mut arms = vec![];
            for (v, t) in targets.iter() {
                arms.push(J::arr(vec![J::i(v as i128), J::i(t.index() as i128)]));
            }
            J::obj(vec![
                ("k", J::s("switch")),
                ("x", operand_j(tcx, env, body, discr)),
                ("arms", J::arr(arms)),
                ("otherwise", J::i(targets.otherwise().index() as i128)),
                ("ln", ln),
            ])
        }
        TerminatorKind::Return => J::obj(vec![("k", J::s("return")), ("ln", ln)]),
        TerminatorKind::Unreachable => J::obj(vec![("k", J::s("unreachable"))]),
        TerminatorKind::UnwindResume => J::obj(vec![("k", J::s("resume"))]),
        TerminatorKind::UnwindTerminate(_) => J::obj(vec![("k", J::s("terminate"))]),
        TerminatorKind::Drop { place, target, unwind, .. } => J::obj(vec![
            ("k", J::s("drop")),
            ("place", place_j(tcx, body, place)),
            (
                "place_ty",
                J::s(format!("{}", place.ty(&body.local_decls, tcx).ty)),
            ),
            ("t", J::i(target.index() as i128)),
            ("unwind", unwind_j(unwind)),
            ("ln", ln),
        ]),
        TerminatorKind::Call { func, args, destination, target, unwind, .. } => J::obj(vec![
            ("k", J::s("call")),
            ("f", callee_j(tcx, env, body, func)),
            (
                "args",
                J::arr(args.iter().map(|a| operand_j(tcx, env, body, &a.node)).collect()),
            ),
            ("dest", place_j(tcx, body, destination)),
            ("t", target.map(|t| J::i(t.index() as i128)).unwrap_or(J::Null)),
            ("unwind", unwind_j(unwind)),
            ("ln", ln),
        ]),
        TerminatorKind::Assert { cond, expected, msg, target, unwind } => {
            let kind = format!("{:?}", msg);
            let short = kind.split('(').next().unwrap_or("").to_string();
            J::obj(vec![
                ("k", J::s("assert")),
                ("cond", operand_j(tcx, env, body, cond)),
                ("expected", J::b(*expected)),
                ("msg", J::s(short)),
                ("msg_full", J::s(if kind.len() > 160 { kind[..160].to_string() } else { kind })),
                ("t", J::i(target.index() as i128)),
                ("unwind", unwind_j(unwind)),
                ("ln", ln),
            ])
        }
        TerminatorKind::FalseEdge { real_target, .. } => {
            J::obj(vec![("k", J::s("goto")), ("t", J::i(real_target.index() as i128))])
        }
        TerminatorKind::FalseUnwind { real_target, .. } => {
            J::obj(vec![("k", J::s("goto")), ("t", J::i(real_target.index() as i128))])
        }
        other => J::obj(vec![("k", J::s("other")), ("txt", J::s(format!("{:?}", other)))]),
    };
    J::obj(vec![("s", J::arr(stmts)), ("t", tj), ("cleanup", J::b(bb.is_cleanup))])
}

fn vis_of<'tcx>(tcx: TyCtxt<'tcx>, did: DefId) -> &'static str {
    match tcx.def_kind(did) {
        DefKind::Fn | DefKind::AssocFn => {}
        _ => return "n/a",
    }
    // trait impl methods inherit the trait's visibility
    let v = tcx.visibility(did);
    if v.is_public() {
        "pub"
    } else {
        "restricted"
    }
}

fn impl_info<'tcx>(tcx: TyCtxt<'tcx>, impl_did: DefId) -> J {
    let mut f: Vec<(&'static str, J)> = vec![("key", J::s(key_of(tcx, impl_did)))];
    let self_ty = tcx.type_of(impl_did).instantiate_identity().skip_norm_wip();
    f.push(("self_ty", ty_j(tcx, self_ty)));
    if let Some(tr) = tcx.impl_opt_trait_ref(impl_did) {
        let tr = tr.instantiate_identity().skip_norm_wip();
        f.push(("trait", J::s(tcx.def_path_str(tr.def_id))));
        f.push(("trait_full", J::s(format!("{:?}", tr))));
    }
    let generics = tcx.generics_of(impl_did);
    let mut gp = vec![];
    for p in generics.own_params.iter() {
        gp.push(J::s(p.name.to_string()));
    }
    f.push(("generics", J::arr(gp)));
    let preds = tcx.predicates_of(impl_did);
    let mut pj = vec![];
    for (p, _) in preds.predicates.iter() {
        pj.push(J::s(format!("{}", p)));
    }
    f.push(("preds", J::arr(pj)));
    let mut items = vec![];
    for it in tcx.associated_items(impl_did).in_definition_order() {
        items.push(J::obj(vec![
            ("name", J::s(it.name().to_string())),
            ("key", J::s(key_of(tcx, it.def_id))),
            ("kind", J::s(format!("{:?}", it.kind).split('{').next().unwrap_or("").trim().to_string())),
        ]));
    }
    f.push(("items", J::arr(items)));
    f.push(("span", span_j(tcx, tcx.def_span(impl_did))));
    J::obj(f)
}

fn extract<'tcx>(tcx: TyCtxt<'tcx>) -> J {
    let mut fns = vec![];
    let mut n_calls = 0usize;
    let mut n_resolved = 0usize;
    for ldid in tcx.hir_body_owners() {
        let did = ldid.to_def_id();
        let kind = tcx.def_kind(did);
        let kind_s = match kind {
            DefKind::Fn => "fn",
            DefKind::AssocFn => "assoc",
            DefKind::Closure => "closure",
            _ => continue,
        };
        if !tcx.is_mir_available(did) {
            continue;
        }
        let body: &Body<'tcx> = tcx.optimized_mir(did);
        let env = ty::TypingEnv::post_analysis(tcx, did);
        let mut f: Vec<(&'static str, J)> = vec![];
        f.push(("key", J::s(key_of(tcx, did))));
        f.push(("path", J::s(tcx.def_path_str(did))));
        f.push(("kind", J::s(kind_s)));
        f.push(("vis", J::s(vis_of(tcx, did))));
        f.push(("span", span_j(tcx, tcx.def_span(did))));
        f.push(("body_span", span_j(tcx, body.span)));
        if kind != DefKind::Closure {
            f.push(("name", J::s(tcx.item_name(did).to_string())));
        }
        // parent (impl / trait / closure parent)
        let parent = tcx.parent(did);
        f.push(("parent", J::s(key_of(tcx, parent))));
        f.push(("parent_kind", J::s(format!("{:?}", tcx.def_kind(parent)))));
        if matches!(tcx.def_kind(parent), DefKind::Impl { .. }) {
            f.push(("impl", J::s(key_of(tcx, parent))));
        }
        // is it inside a #[cfg(test)] module? -> path contains "::tests::" typically; the lib check
        // build does not compile tests, so nothing to do.
        // generics + predicates (own and inherited) for bound-aware trait fan-out
        {
            let mut gp = vec![];
            let mut pj = vec![];
            let mut chain = vec![];
            let mut cur = Some(did);
            while let Some(d) = cur {
                chain.push(d);
                cur = tcx.generics_of(d).parent;
            }
            // parent parameters first: the order of the generic arguments at call sites
            for d in chain.iter().rev() {
                let g = tcx.generics_of(*d);
                for p in g.own_params.iter() {
                    gp.push(J::s(p.name.to_string()));
                }
                let preds = tcx.predicates_of(*d);
                for (p, _) in preds.predicates.iter() {
                    pj.push(J::s(format!("{}", p)));
                }
            }
            f.push(("generics", J::arr(gp)));
            f.push(("preds", J::arr(pj)));
        }
        f.push(("argc", J::i(body.arg_count as i128)));
        let mut locals = vec![];
        for (_l, d) in body.local_decls.iter_enumerated() {
            locals.push(ty_j(tcx, d.ty));
        }
        f.push(("locals", J::arr(locals)));
        let mut names = vec![];
        for vdi in body.var_debug_info.iter() {
            if let rustc_middle::mir::VarDebugInfoContents::Place(p) = &vdi.value {
                names.push(J::obj(vec![
                    ("name", J::s(vdi.name.to_string())),
                    ("place", place_j(tcx, body, p)),
                    ("arg", vdi.argument_index.map(|i| J::i(i as i128)).unwrap_or(J::Null)),
                ]));
            }
        }
        f.push(("names", J::arr(names)));
        let mut blocks = vec![];
        for (_bb, data) in body.basic_blocks.iter_enumerated() {
            if let TerminatorKind::Call { func, .. } = &data.terminator().kind {
                n_calls += 1;
                if let Some((cd, ca)) = func.const_fn_def() {
                    let r = std::panic::catch_unwind(std::panic::AssertUnwindSafe(|| {
                        ty::Instance::try_resolve(tcx, env, cd, ca)
                    }));
                    if let Ok(Ok(Some(_))) = r {
                        n_resolved += 1;
                    }
                }
            }
            blocks.push(block_j(tcx, env, body, data));
        }
        f.push(("blocks", J::arr(blocks)));
        // promoted constants (e.g. `&ProtectMode::ReadWrite`): tiny bodies, dumped the same way
        let mut proms = vec![];
        if kind != DefKind::Closure || true {
            let pbodies = tcx.promoted_mir(did);
            for (pi, pb) in pbodies.iter_enumerated() {
                let mut pls = vec![];
                for (_l, d) in pb.local_decls.iter_enumerated() {
                    pls.push(ty_j(tcx, d.ty));
                }
                let mut pblocks = vec![];
                for (_bb, data) in pb.basic_blocks.iter_enumerated() {
                    pblocks.push(block_j(tcx, env, pb, data));
                }
                proms.push(J::obj(vec![
                    ("idx", J::i(pi.index() as i128)),
                    ("locals", J::arr(pls)),
                    ("blocks", J::arr(pblocks)),
                ]));
            }
        }
        f.push(("promoted", J::arr(proms)));
        fns.push(J::obj(f));
    }

    // impl table
    let mut impls = vec![];
    for &impl_ldid in tcx.all_local_trait_impls(()).values().flatten() {
        impls.push(impl_info(tcx, impl_ldid.to_def_id()));
    }
    // inherent impls
    for id in tcx.hir_free_items() {
        let did = id.owner_id.to_def_id();
        if let DefKind::Impl { of_trait: false } = tcx.def_kind(did) {
            impls.push(impl_info(tcx, did));
        }
    }

    // const items
    let mut consts = vec![];
    for id in tcx.hir_free_items() {
        let did = id.owner_id.to_def_id();
        if matches!(tcx.def_kind(did), DefKind::Const { .. }) {
            let generics = tcx.generics_of(did);
            if generics.count() != 0 {
                continue;
            }
            let ty = tcx.type_of(did).instantiate_identity().skip_norm_wip();
            let mut v = J::Null;
            match ty.kind() {
                TyKind::Bool | TyKind::Int(_) | TyKind::Uint(_) | TyKind::Char => {
                    if let Ok(val) = tcx.const_eval_poly(did) {
                        if let Some(si) = val.try_to_scalar_int() {
                            let size = si.size();
                            v = match ty.kind() {
                                TyKind::Int(_) => J::i(si.to_int(size)),
                                _ => {
                                    let u = si.to_uint(size);
                                    if u > i128::MAX as u128 {
                                        J::s(format!("{}", u))
                                    } else {
                                        J::i(u as i128)
                                    }
                                }
                            };
                        }
                    }
                }
                _ => {}
            }
            consts.push(J::obj(vec![
                ("path", J::s(tcx.def_path_str(did))),
                ("ty", J::s(format!("{}", ty))),
                ("v", v),
                ("span", span_j(tcx, tcx.def_span(did))),
            ]));
        }
    }

    // ADTs (field types; used by the type queries of C15/C20)
    let mut adts = vec![];
    for id in tcx.hir_free_items() {
        let did = id.owner_id.to_def_id();
        if matches!(tcx.def_kind(did), DefKind::Struct | DefKind::Enum) {
            let adt = tcx.adt_def(did);
            let mut vs = vec![];
            for v in adt.variants().iter() {
                let mut fs = vec![];
                for fd in v.fields.iter() {
                    let fty = tcx.type_of(fd.did).instantiate_identity().skip_norm_wip();
                    fs.push(J::obj(vec![
                        ("name", J::s(fd.name.to_string())),
                        ("ty", ty_j(tcx, fty)),
                        ("pub", J::b(fd.vis.is_public())),
                    ]));
                }
                vs.push(J::obj(vec![("name", J::s(v.name.to_string())), ("fields", J::arr(fs))]));
            }
            adts.push(J::obj(vec![
                ("path", J::s(tcx.def_path_str(did))),
                ("variants", J::arr(vs)),
                ("span", span_j(tcx, tcx.def_span(did))),
            ]));
        }
    }

    let features: Vec<J> = std::env::var("DRYOC_FACTS_CONFIG")
        .ok()
        .map(|s| vec![J::s(s)])
        .unwrap_or_default();
    J::obj(vec![
        ("crate", J::s(tcx.crate_name(LOCAL_CRATE).to_string())),
        ("config", J::arr(features)),
        ("n_calls", J::i(n_calls as i128)),
        ("n_resolved", J::i(n_resolved as i128)),
        ("fns", J::arr(fns)),
        ("impls", J::arr(impls)),
        ("consts", J::arr(consts)),
        ("adts", J::arr(adts)),
    ])
}
