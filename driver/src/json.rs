// Minimal JSON value + serializer (the driver has zero cargo dependencies).
use std::fmt;

pub enum J {
    Null,
    B(bool),
    I(i128),
    S(String),
    A(Vec<J>),
    O(Vec<(&'static str, J)>),
}

impl J {
    pub fn s<T: Into<String>>(t: T) -> J {
        J::S(t.into())
    }
    pub fn i(v: i128) -> J {
        J::I(v)
    }
    pub fn b(v: bool) -> J {
        J::B(v)
    }
    pub fn arr(v: Vec<J>) -> J {
        J::A(v)
    }
    pub fn obj(v: Vec<(&'static str, J)>) -> J {
        J::O(v)
    }
    pub fn push(&mut self, k: &'static str, v: J) {
        if let J::O(f) = self {
            f.push((k, v));
        }
    }
}

fn esc(s: &str, out: &mut fmt::Formatter<'_>) -> fmt::Result {
    out.write_str("\"")?;
    for c in s.chars() {
        match c {
            '"' => out.write_str("\\\"")?,
            '\\' => out.write_str("\\\\")?,
            '\n' => out.write_str("\\n")?,
            '\r' => out.write_str("\\r")?,
            '\t' => out.write_str("\\t")?,
            c if (c as u32) < 0x20 => write!(out, "\\u{:04x}", c as u32)?,
            c => write!(out, "{}", c)?,
        }
    }
    out.write_str("\"")
}

impl fmt::Display for J {
    fn fmt(&self, f: &mut fmt::Formatter<'_>) -> fmt::Result {
        match self {
            J::Null => f.write_str("null"),
            J::B(b) => write!(f, "{}", b),
            J::I(i) => write!(f, "{}", i),
            J::S(s) => esc(s, f),
            J::A(v) => {
                f.write_str("[")?;
                for (i, x) in v.iter().enumerate() {
                    if i > 0 {
                        f.write_str(",")?;
                    }
                    write!(f, "{}", x)?;
                }
                f.write_str("]")
            }
            J::O(v) => {
                f.write_str("{")?;
                for (i, (k, x)) in v.iter().enumerate() {
                    if i > 0 {
                        f.write_str(",")?;
                    }
                    esc(k, f)?;
                    f.write_str(":")?;
                    write!(f, "{}", x)?;
                }
                f.write_str("}")
            }
        }
    }
}
